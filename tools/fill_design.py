#!/usr/bin/env python3
"""tools/fill_design.py — refresh the numbers in DESIGN.md that come from the last regression runs: the seed table (via seed_table.py --write), the totals
(obligations from evidence/*.json, self-test mutants, seeds, neutral refactorings and their outcome from neutral/RESULTS.txt)."""
import glob, json, os, re, subprocess, sys
V = os.path.dirname(os.path.dirname(os.path.abspath(__file__)))
subprocess.run([sys.executable, os.path.join(V, "tools", "seed_table.py"), "--write"], stdout=subprocess.DEVNULL, check=True)
oblig = sum(json.load(open(f))["coverage"].get("obligations", 0) for f in glob.glob(os.path.join(V, "evidence", "C*.json")))
mutants = len(glob.glob(os.path.join(V, "selftest", "*", "*.patch")))
seeds = len([d for d in os.listdir(os.path.join(V, "seeded")) if os.path.isdir(os.path.join(V, "seeded", d))])
neutral = len([d for d in os.listdir(os.path.join(V, "neutral")) if os.path.isdir(os.path.join(V, "neutral", d))])
res = open(os.path.join(V, "neutral", "RESULTS.txt")).read()
viol = res.count("violated:")
ce_ids = set()
cur = None
for line in res.splitlines():
    if line.startswith("=== "):
        cur = line.split()[1]
    elif "CHECK-ERROR" in line and cur:
        ce_ids.add(cur)
vals = {"OBLIG": "{:,}".format(oblig).replace(",", " "), "MUTANTS": str(mutants), "SEEDS": str(seeds), "NEUTRAL_TOTAL": str(neutral), "NEUTRAL_VIOL": str(viol),
        "NEUTRAL_CE": "%d" % len(ce_ids)}
d = os.path.join(V, "DESIGN.md")
txt = open(d).read()
# numbers live between markers <!--@NAME-->value<!--/@-->, created from the bare @NAME@ placeholders on first use
for k, v in vals.items():
    txt = txt.replace("@%s@" % k, "<!--@%s-->%s<!--/@-->" % (k, v))
    txt = re.sub(r"<!--@%s-->.*?<!--/@-->" % k, "<!--@%s-->%s<!--/@-->" % (k, v), txt)
open(d, "w").write(txt)
print(vals, sorted(ce_ids))
