#!/usr/bin/env python3
"""tools/keep_seed.py <PROP> <n> <id> — copy a verified seeded change from /tmp/seed/out-<PROP>/<n> to /verif/seeded/<id>/."""
import json, os, shutil, sys
prop, n, sid = sys.argv[1:4]
src = "/tmp/seed/%s-%s/%s" % (os.environ.get("SEED_OUT", "out"), prop, n)
dst = "/verif/seeded/%s" % sid
os.makedirs(dst, exist_ok=True)
for f in ("patch.diff", "demo.diff", "RUN.txt"):
    if os.path.exists(os.path.join(src, f)):
        shutil.copy(os.path.join(src, f), dst)
meta = json.load(open(os.path.join(src, "meta.json")))
res = [l for l in open(os.path.join(src, "verify.log")) if l.startswith("RESULT")]
out = {
    "id": sid, "property": prop, "breaks": meta.get("summary"), "site": meta.get("site"),
    "needs_to_manifest": meta.get("needs_to_manifest"), "why_existing_tests_pass": meta.get("why_existing_tests_pass"),
    "confirmed_by_me": {"script": "tools/verify_seed.sh (scratch worktree): demo without patch, demo with patch, full unedited suite with patch",
                        "result": res[-1].strip() if res else None},
    "author": "independent sub-agent given only the property text and a scratch worktree",
    "detected_by": None,
}
json.dump(out, open(os.path.join(dst, "meta.json"), "w"), indent=1)
print("kept", dst)
