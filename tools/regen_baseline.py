#!/usr/bin/env python3
"""tools/regen_baseline.py — regenerate rules/tables/known_fns.json (the list, with signatures, of the workspace functions that exist on the tree the
rules were reviewed against). Run it ONLY after re-reviewing the rules against /repo's current tree (e.g. after a fix: commit): functions that are
not in this list are treated as transparent helpers (inlined into their callers), functions in it that disappear are 'vanished anchors'."""
import json, os, subprocess, sys
os.environ["QV_NO_INLINE"] = "1"
sys.path.insert(0, os.path.dirname(os.path.dirname(os.path.abspath(__file__))))
from qvlib.extract import extract
from qvlib.facts import Facts, fn_signature
F = Facts(extract("/repo"))
fns = {}
for k, f in sorted(F.fns.items()):
    if "::{closure" in k:
        continue
    fns[k] = fn_signature(f) if f.get("mir") else {}
head = subprocess.run(["git", "-C", "/repo", "rev-parse", "--short", "HEAD"], capture_output=True, text=True).stdout.strip()
json.dump({"reviewed_at": "quiver %s" % head, "fns": fns}, open(os.path.join(os.path.dirname(os.path.dirname(os.path.abspath(__file__))), "rules", "tables", "known_fns.json"), "w"), indent=0)
print("known_fns.json:", len(fns), "functions at", head)
