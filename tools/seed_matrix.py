#!/usr/bin/env python3
"""Run every check against every seeded change (scratch copies outside /repo and /verif) and record which rule reports it.
Writes /verif/seeded/MATRIX.json and the detected_by field of each seeded/<id>/meta.json."""
import importlib
import json
import os
import shutil
import subprocess
import sys
import tempfile

VERIF = os.path.dirname(os.path.dirname(os.path.abspath(__file__)))
sys.path.insert(0, VERIF)
from qvlib import core, extract  # noqa: E402
from qvlib.extract import CheckError  # noqa: E402
from qvlib.facts import Facts  # noqa: E402
import qv  # noqa: E402

BASE_COMMIT = "cc7a0c3"


def make_copy(base=None):
    tmp = tempfile.mkdtemp(prefix="qvseed.")
    dst = os.path.join(tmp, "repo")
    os.makedirs(dst)
    if base:
        p1 = subprocess.Popen(["git", "-C", "/repo", "archive", base], stdout=subprocess.PIPE)
        subprocess.run(["tar", "-x", "-C", dst], stdin=p1.stdout, check=True)
        p1.wait()
    else:
        shutil.copytree("/repo", dst, ignore=shutil.ignore_patterns("target", ".git"), dirs_exist_ok=True)
    return tmp, dst


def violations(repo, props):
    out = {}
    try:
        fdir = extract.extract(repo=repo)
    except CheckError as e:
        return {"_extract": [("CHECK-ERROR", str(e)[:200])]}
    cache = {}
    for prop in props:
        mod = importlib.import_module("rules." + prop.lower())
        crates = getattr(mod, "CRATES", None)
        key = tuple(crates) if crates else None
        if key not in cache:
            cache[key] = Facts(fdir, crates=crates)
        ctx = core.Ctx(prop, "quick", cache[key], 0)
        try:
            mod.run(ctx)
            out[prop] = sorted({(o["rule"], o["site"]) for o in ctx.obs if o["status"] == "violated"})
        except CheckError as e:
            out[prop] = [("CHECK-ERROR", str(e)[:160])]
        except Exception as e:  # noqa
            out[prop] = [("INTERNAL-ERROR", repr(e)[:160])]
    return out


def main():
    props = qv.CLAIMED
    only = sys.argv[1:]
    seeds = sorted(d for d in os.listdir(os.path.join(VERIF, "seeded")) if os.path.isdir(os.path.join(VERIF, "seeded", d)))
    if only:
        seeds = [s for s in seeds if any(o in s for o in only)]
    baselines = {}
    matrix = {}
    mpath = os.path.join(VERIF, "seeded", "MATRIX.json")
    if os.path.exists(mpath) and only:
        matrix = json.load(open(mpath))
    for sid in seeds:
        d = os.path.join(VERIF, "seeded", sid)
        patch = os.path.join(d, "patch.diff")
        used_base = None
        for base in (None, "3577d87", "864fa33", BASE_COMMIT):     # HEAD, then the trees the later seeding rounds were made on, then the snapshot
            tmp, dst = make_copy(base)
            r = subprocess.run(["patch", "-p1", "--no-backup-if-mismatch", "-i", patch], cwd=dst, capture_output=True, text=True)
            if r.returncode == 0:
                used_base = base or "HEAD"
                break
            shutil.rmtree(tmp, ignore_errors=True)
            tmp = None
        if tmp is None:
            matrix[sid] = {"status": "patch does not apply"}
            continue
        try:
            if used_base not in baselines:
                t2, d2 = make_copy(None if used_base == "HEAD" else used_base)
                baselines[used_base] = violations(d2, props)
                shutil.rmtree(t2, ignore_errors=True)
            v = violations(dst, props)
        finally:
            shutil.rmtree(tmp, ignore_errors=True)
        new = {}
        for p, items in v.items():
            base_items = {tuple(x) for x in baselines[used_base].get(p, [])}
            fresh = [list(x) for x in items if tuple(x) not in base_items]
            if fresh:
                new[p] = fresh
        meta = json.load(open(os.path.join(d, "meta.json")))
        own = meta.get("property")
        detected = [{"property": p, "rule": r, "site": s} for p, items in new.items() for r, s in items if r not in ("CHECK-ERROR", "INTERNAL-ERROR")]
        errors = [{"property": p, "rule": r, "site": s} for p, items in new.items() for r, s in items if r in ("CHECK-ERROR", "INTERNAL-ERROR")]
        matrix[sid] = {"applied_on": used_base, "own_property": own, "detected": bool(detected), "detected_by_own_property": any(x["property"] == own for x in detected),
                       "reports": detected[:12], "check_errors": errors[:6]}
        meta["detected_by"] = detected[:12] if detected else None
        meta["applied_on"] = used_base
        if errors:
            meta["check_errors"] = errors[:6]
        json.dump(meta, open(os.path.join(d, "meta.json"), "w"), indent=1)
        print(sid, "->", "DETECTED" if detected else "missed", [(x["property"], x["rule"]) for x in detected[:4]], ("errors: %s" % errors[:2]) if errors else "", flush=True)
    json.dump(matrix, open(mpath, "w"), indent=1)
    n = len([m for m in matrix.values() if m.get("detected")])
    print("detected %d of %d" % (n, len(matrix)))


if __name__ == "__main__":
    main()
