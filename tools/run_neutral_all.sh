#!/bin/bash
# tools/run_neutral_all.sh — false-alarm regression: apply every behaviour-preserving refactoring kept under /verif/neutral/<id>/ (made by independent
# sub-agents; each compiles and passes the unedited suite) to a scratch copy of /repo and run ALL claimed checks on it. Expected: no VIOLATION.
# Scratch copies live under mktemp dirs outside /repo and /verif and are removed. Output: /verif/neutral/RESULTS.txt
OUT=$(mktemp -d /tmp/qvneuall.XXXXXX)
run() { id=$1; /verif/tools/run_neutral.sh /verif/neutral/$id/patch.diff > "$2/$id.txt" 2>&1; }
export -f run
ls /verif/neutral | grep -v RESULTS | xargs -P 4 -I{} bash -c 'run {} '"$OUT"
for id in $(ls /verif/neutral | grep -v RESULTS); do echo "=== $id $(python3 -c "import json;print(json.load(open('/verif/neutral/$id/meta.json')).get('site','')[:120])")"; cat "$OUT/$id.txt"; done > /verif/neutral/RESULTS.txt
rm -rf "$OUT"
echo "VIOLATION lines: $(grep -c 'violated:' /verif/neutral/RESULTS.txt)   CHECK-ERROR lines: $(grep -c 'CHECK-ERROR' /verif/neutral/RESULTS.txt)"
