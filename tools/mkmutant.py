#!/usr/bin/env python3
"""tools/mkmutant.py PROP name EXPECT_RULE "what" < edit-script.py   — build /verif/selftest/PROP/name.patch from a python edit script
(run with cwd = scratch copy of /repo) and record the expected rule."""
import json, os, shutil, subprocess, sys, tempfile
prop, name, expect, what = sys.argv[1:5]
script = sys.stdin.read()
tmp = tempfile.mkdtemp(prefix="qvmk.")
a, b = os.path.join(tmp, "a"), os.path.join(tmp, "b")
shutil.copytree("/repo", a, ignore=shutil.ignore_patterns("target", ".git"))
shutil.copytree(a, b)
subprocess.run([sys.executable, "-c", script], cwd=b, check=True)
r = subprocess.run(["diff", "-ruN", "a", "b"], cwd=tmp, capture_output=True, text=True)
if not r.stdout.strip():
    sys.exit("edit script changed nothing")
d = os.path.join("/verif/selftest", prop)
os.makedirs(d, exist_ok=True)
open(os.path.join(d, name + ".patch"), "w").write(r.stdout)
json.dump({"expect_rule": expect, "what": what}, open(os.path.join(d, name + ".json"), "w"), indent=1)
shutil.rmtree(tmp)
print("wrote", os.path.join(d, name + ".patch"), len(r.stdout.splitlines()), "lines")
