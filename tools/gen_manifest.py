#!/usr/bin/env python3
"""Regenerate /verif/MANIFEST.json from the table below (kept next to the rules so they cannot drift apart)."""
import json
import os
import sys

VERIF = os.path.dirname(os.path.dirname(os.path.abspath(__file__)))
sys.path.insert(0, VERIF)

NOTE_COMMON = ("Trusted base: rustc nightly HIR/MIR of /repo's working tree (-Zmir-opt-level=0) as produced by the qvfacts driver; "
               "the Python rule evaluator; reviewed instance tables in rules/tables. Decides the named structural clauses, each a necessary "
               "condition of the property, NOT the runtime behaviour itself.")

CLAIMS = {
    "C04": dict(
        text="Static CFG/call-graph rules over the resolved MIR of the workspace decide six structural clauses of C04: unpark=>enqueue pairing on "
             "every parked-set removal, who-may-park + requeue guard, single-constructor/single-forward delivery pipeline down to the one "
             "mailbox.push_back, order-preserving operations only, spawner always notified, await registration before a not-finished answer. "
             "They hold for every path of the code, which no test schedule can enumerate; liveness under real interleavings is not decided.",
        design="§3 C04", technique="static analysis: MIR must-pass-through / pairing / who-may-call rules (rustc_private driver + rule evaluator)"),
}

NOT_APPLICABLE = {
    "C03": "Quantifies over interleavings, worker counts and quanta; confluence is a property of executions and no sound static argument in reach bounds the schedule space (its structural residue is decided under C04).",
    "C17": "Every clause is a statement about the text the formatter produces for each of infinitely many inputs (width arithmetic); nothing in the shape of the code is a necessary condition of it.",
    "C19": "A property of a Quiver-source HAMT (std/dict.qv) over operation histories and adversarial hashes; a static analysis of it would need a symbolic semantics of Quiver (a different family).",
    "C20": "Exactness, canonical form and field laws over unbounded integers are value-level; the tempting syntactic proxy (zero-guarded divisions in std/num.qv) is false on today's correct code.",
}

PENDING_REASON = "static check for this property is designed (DESIGN.md §3) but not yet built in this snapshot; it will be claimed once its rules run"

ALL = ["C%02d" % i for i in range(1, 21)]


def main():
    checks = []
    for pid in ALL:
        c = CLAIMS.get(pid)
        if not c:
            continue
        checks.append({
            "property_id": pid,
            "quick_cmd": "python3 qv.py check %s --tier quick" % pid,
            "thorough_cmd": "python3 qv.py check %s --tier thorough" % pid,
            "evidence_file": "/verif/evidence/%s.json" % pid,
            "replay_cmd_template": "python3 qv.py replay {path}",
            "engine": "qvfacts+qvrules",
            "level_claimed": {"category": "other", "text": c["text"], "design_ref": c["design"]},
            "level_note": NOTE_COMMON,
            "technique": c["technique"],
        })
    na = []
    for pid in ALL:
        if pid in CLAIMS:
            continue
        na.append({"property_id": pid, "reason": NOT_APPLICABLE.get(pid, PENDING_REASON)})
    m = {
        "version": 1,
        "setup_cmd": "cd /verif/driver && CARGO_NET_OFFLINE=true cargo build --offline && cd /verif && python3 qv.py extract",
        "hooks": {
            "guard": "quiver_verif",
            "enable": "none needed: static analysis reads /repo's sources through `cargo +nightly check` with the qvfacts RUSTC_WORKSPACE_WRAPPER; the guard name is reserved and unused",
            "baseline_off_cmd": "cd /repo && cargo nextest run --workspace --no-fail-fast --test-threads 8 --offline || cargo test --workspace --no-fail-fast --offline",
            "source_commits": [],
            "add_only": True,
        },
        "engines": [
            {"name": "qvfacts", "path": "/verif/driver", "serves_properties": sorted(CLAIMS),
             "kind_free_text": "rustc_private driver (nightly) emitting ADT/impl/fn/MIR/HIR facts of the real workspace build as JSONL"},
            {"name": "qvrules", "path": "/verif/qv.py", "serves_properties": sorted(CLAIMS),
             "kind_free_text": "Python rule evaluator: CFG reachability with constant threading, dominators, value-flow closure, pattern matrices, censuses with reviewed tables"},
        ],
        "checks": checks,
        "not_applicable": na,
        "notes": "Static analysis only. Exit 0 = all obligations discharged (KNOWN-FINDING lines are informational); exit 1 + VIOLATION line = a violated obligation; "
                 "exit 2 + CHECK-ERROR line (no VIOLATION) = the check could not decide (anchor missing, instance count below the confirmed floor, tree does not compile).",
    }
    with open(os.path.join(VERIF, "MANIFEST.json"), "w") as fh:
        json.dump(m, fh, indent=1)
    print("MANIFEST.json: %d checks, %d not_applicable" % (len(checks), len(na)))


if __name__ == "__main__":
    main()
