#!/usr/bin/env python3
"""Regenerate /verif/MANIFEST.json from the table below (kept next to the rules so they cannot drift apart)."""
import json
import os
import sys

VERIF = os.path.dirname(os.path.dirname(os.path.abspath(__file__)))
sys.path.insert(0, VERIF)

NOTE_COMMON = ("Trusted base: rustc nightly HIR/MIR of /repo's working tree (-Zmir-opt-level=0) as produced by the qvfacts driver; "
               "the Python rule evaluator; reviewed instance tables in rules/tables. Decides the named structural clauses, each a necessary "
               "condition of the property, NOT the runtime behaviour itself.")

CLAIMS = {
    "C04": dict(
        text="Static CFG/call-graph rules over the resolved MIR of the workspace decide six structural clauses of C04: unpark=>enqueue pairing on "
             "every parked-set removal, who-may-park + requeue guard, single-constructor/single-forward delivery pipeline down to the one "
             "mailbox.push_back, order-preserving operations only, spawner always notified, await registration before a not-finished answer, every "
             "process source of a select asked about, every Action arm of the worker forwarding its Event (no worker-local short cut) and every "
             "registered awaiter told; the expiry tests that wake a parked select (elapsed or deadline form) agree in direction and strictness. "
             "They hold for every path of the code, which no test schedule can enumerate; liveness under real interleavings is not decided.",
        design="§3 C04", technique="static analysis: MIR must-pass-through / pairing / who-may-call rules (rustc_private driver + rule evaluator)"),
    "C01": dict(
        text="Decides presence and placement of the argument-vs-parameter judgments at every application-emitting site of the compiler (the ten "
             "sites that construct Call/TailCall/Send/Spawn/Select — the only ways compiled code applies one value to another), with "
             "outcome-sensitive reachability (the false outcome of the check must not reach the emission) and operand provenance (the check is "
             "against the callee's own parameter/send type), plus the quantifier polarity of unification over union arguments. Two recorded known "
             "findings (unchecked tail-call arguments). It does NOT decide that accepted programs never get stuck. Also: a named field access on a union compiles to one Get(index) only after the index found for every variant was compared (R-C01-7).",
        design="§3 C01", technique="static analysis: MIR must-pass-through with outcome-sensitive reachability and operand provenance; HIR loop-return polarity"),
    "C02": dict(
        text="Decides one structural necessary condition of C02: every forward-jump placeholder the code generator plants is pointed at its join "
             "on every non-error path (value flow of the returned address into a patch call through Options and drained Vecs; dead always-None "
             "parameters pruned after checking every call site), plus the failure-path nil fill of compile_match. An unpatched placeholder is "
             "Jump(0), in range but wrong, so only a behaviour check or this pairing rule sees it. Also: Reset on every compiled branch, block lifting "
             "only for sole-term blocks, and the operand-stack discipline of the emitted code decided on the generator (one height at every emitted "
             "join on every generator path; reviewed net-effect contracts) for the generator functions whose effect is not data-dependent. Values "
             "and evaluation order are NOT decided. Also: one field index for every variant of a union (shared with R-C01-7).",
        design="§3 C02", technique="static analysis: MIR forward value-flow closure + path exploration with discriminant threading; emission-effect abstract interpretation of the code generator"),
    "C05": dict(
        text="Decides structural clauses of select: who may remove from a mailbox and under which verdict (removed index tied to the examined/held "
             "message), the filter result reaching only the nil test, the awaited process's own error being propagated, latest-answer-replaces in "
             "the await bookkeeping, forward source scan with first-ready-wins, sibling agreement of the timeout-expiry tests (found by what they compare: elapsed or deadline form) and a single "
             "start of the waiting period. Priority under real arrival histories and clocks is not decided.",
        design="§3 C05", technique="static analysis: MIR guarded reachability, value-source slices, no-flow (taint) and sibling comparison"),
    "C07": dict(
        text="Decides structural clauses: Jump/JumpIf are built only by the audited InstructionBuilder formula from in-range targets (provenance "
             "slice, followed through callers); the index-carrying instruction/type fields, derived from the executor and the ADTs, are followed by "
             "every mark/sweep/merge walker through the right table; hot/cold dispatch tables agree; remap tables are order-preserving, fresh per "
             "merge, fed only by register_*/import_* (tables identified by what feeds them, not by name) and complete before they are consulted; id-kind discipline; the match-failure "
             "nil fill is unconditional; and the stack-discipline clause for the part of the code generator whose effect is not data-dependent: "
             "an emission-effect abstract interpretation of every emitting function proves one operand-stack height at every emitted join on every "
             "generator path and freezes the net-effect contracts of 11 generator functions (pattern code, compile_match, literals, accessors, "
             "spawns). For the recursive compile_* family (arity-dependent Tuple(n)) stack discipline and definite locals are NOT decided.",
        design="§3 C07", technique="static analysis: HIR pattern matrices / sibling agreement, MIR provenance slices, who-may-construct census, emission-effect abstract interpretation of the code generator"),
    "C10": dict(
        text="Decides: remap completeness of every id-carrying field in tree-shake and merge, order-preserving fresh remap tables, derived and "
             "attribute-symmetric serde for every ADT reachable from Bytecode, the capture-injection prologue shape, structural re-emission of "
             "cached module values, heap indices scoped to the executor that issued them (byte table fresh per module load, stored with its value, "
             "looked up only through the table handed over with the value), complete type tables at module load time, remap tables complete before use, module cache and program cloned and committed together. Equality of results across "
             "the four packaging routes is not decided.",
        design="§3 C10", technique="static analysis: HIR sibling agreement, derive/attribute census, MIR value-source slices"),
    "C09": dict(
        text="Decides shape conditions of the assignability/overlap relation: quantifier polarity per arm and union mode, callable variance, the "
             "121-pair variant coverage matrix (no same-kind pair falls to `_ => false`), the direction of the narrowing fallbacks (never/empty only "
             "under the right test in the right argument order), and that the relation is closed (no unreviewed helper, fresh coinductive state per "
             "query). The coinductive relation's soundness over all closed contractive types is NOT decided. Polarity is decided semantically on MIR (forced call results + constant propagation), so iterator, early-return, flag and settles-style loops are classified alike; union construction is structural (never consults the relation); a runtime type check is elided only under an is_compatible judgment; the branch-complement state machine keeps original type and provenance fixed and only intersects on a re-check; whole-variable and per-field narrowings are consulted only on the scopes of their own binding.",
        design="§3 C09", technique="static analysis: HIR pattern-matrix evaluation over variant pairs, quantifier/variance shape checks, MIR guarded reachability; semantic quantifier-polarity analysis on MIR"),
    "C11": dict(
        text="Decides the ordering/commit clauses behind 'a rejected line leaves the session exactly as it was' and the alignment plumbing: session "
             "fields and the persistent process are touched only on the success edge of the compile `?`, compaction precedes compilation and "
             "re-indexes bindings and locals by one permutation, the compiler mutates clones, resume feeds the previous result, persistent "
             "top-level locals survive frame exit. Per-line value equivalence with a single program is NOT decided. Also: compaction is unconditional once a REPL process exists; per-line result delivery never reaches resource cleanup; the bindings a line reports are computed from the ones it was given; the executor replaces its derived type tables at every program update.",
        design="§3 C11", technique="static analysis: MIR dominance on the Continue edge of `?`, argument provenance and value-source slices"),
    "C06": dict(
        text="Root-write audit over the resolved MIR of the whole workspace: every mutation of a GC root (derived from the Process/SelectState ADTs) "
             "must be paired with retain/release of the same value group on every non-error path, be a root-to-root move, insert a heap-free value, "
             "or be one reviewed exception; plus closed writer set of the heap arrays, reclamation only at the step boundary, tracing-oracle "
             "coverage of every root, walker sibling agreement, copy-on-transfer at worker boundaries (one index space, injected once, each blob once), the running process always returning "
             "to the table, the dual of the audit (every retain is owned: stored, returned or released on every non-error path) and per-slot arrays reset when a slot is reused. This decides the accounting discipline for every path at once, where tests need a leak plus a later drop on the right "
             "schedule; byte-content preservation and schedule-dependent masking are not decided.",
        design="§3 C06", technique="static analysis: MIR value-flow closure + path exploration (pairing/typestate of retain/release), who-may-write censuses, HIR sibling agreement"),
    "C08": dict(
        text="Decides the table-construction clauses behind IsType: one-to-one Value->ConcreteType tagging, each tag inserted iff "
             "is_compatible(<its own type id>, pattern), every ProgramUpdate carrying tables recomputed by the compute_* functions from the FULL "
             "merged program, update_program replacing them. No type test is evaluated; soundness of is_compatible is C09. Also: row p of the IsType table is compute_compatible_concrete_types(p) itself (not assembled from per-variant parts), and process handles are tagged with the entry function; resource type ids are positions in a first-appearance (append-only) name list, so a merge never renumbers the id a live handle carries; the compiler omits a pattern's runtime IsType only under a static compatibility judgment; both runtime tests consult their tables with the value's own concrete tag only.",
        design="§3 C08", technique="static analysis: HIR pattern matrices, MIR value-source slices and guarded reachability"),
    "C12": dict(
        text="Decides the TOTALITY half: an interval abstract interpretation with branch refinement, relational >= facts, range-iterator payloads, "
             "return summaries and call-site parameter ranges over the MIR of every function reachable from the 45 registered pure builtins "
             "discharges overflow / division / bounds asserts, narrowing casts and allocation sizes; guarded indexing and checked_mul guards are "
             "recognised; the remainder is held to reviewed per-(function, kind) ceilings so any new panic- or truncation-capable construct is "
             "reported; iterated ranges are loop-bound sinks (hang clause). Plus the MAX_BINARY_SIZE choke point, encapsulation of the rope "
             "representation and the rope shape invariants the reviewed bounds rest on (Tiled over a non-empty unit, Slice in bounds, Concat "
             "length), and a recursion census (no new recursion on the builtins' paths; Concat spines are walked iteratively) and per-slot executor state being reset on slot reuse (a memoised result never outlives its bytes). Agreement with a reference model "
             "(value level) is NOT decided.",
        design="§3 C12", technique="static analysis: interval abstract interpretation over MIR + sink census with reviewed residual table"),
    "C13": dict(
        text="Decides coverage/symmetry of the values_equal variant-pair table (diagonal explicit, off-diagonal false, binaries by content for all "
             "representation pairs, tuples by canonical shape), the single minting site and advancing counter of refs, worker-id plumbing, "
             "non-re-emission of compile-time refs, and recomputation of the canonical-shape table. Does not decide that every construction path "
             "yields ids the canonical table reconciles. Also: Value::Process is constructed only at reviewed sites and a self handle takes its function index from the entry frame; the equality code never compares the raw results of narrowing conversions (lossy-comparison lint).",
        design="§3 C13", technique="static analysis: HIR pattern-matrix evaluation, MIR constructor census and value-source checks"),
    "C14": dict(
        text="Decides: the ownership test guards the only EffectBackend::execute call path-wise; three reviewed writers of the ownership map; "
             "close_resource has one caller, is followed by removal and runs only for completed processes; resource_id() agrees with every effect "
             "variant's fields; created handles are top-level completion values; transfer precedes forwarding on deliver and spawn with a recursive "
             "walker; cleanup closes exactly what the ownership map assigns to the finished process at cleanup time; every send/spawn/completion is "
             "routed through the environment (the only place ownership moves and cleanup is triggered); effect completions are constructed only behind the ownership registration and resource ids come from a monotone counter; the ownership walker visits every tuple and closure element. One recorded known finding (un-awaited "
             "termination never reaches cleanup). Event orderings across workers are not decided.",
        design="§3 C14", technique="static analysis: MIR path exploration with forced outcomes / edge deletion, dominance, provenance slices, who-may-call censuses, HIR pattern matrices"),
    "C15": dict(
        text="Decides structural clauses: a deny-by-default census of every panic-capable construct on the worker / environment / executor step "
             "paths (interval- or guard-discharged, else reviewed per-(function, kind) ceilings), the closed writer set of Process.result and frame "
             "clears, a census of every fatal EnvironmentError constructed on those paths (and of every core Error constructed in the executor entry points whose error ends the worker loop) with the reason a program cannot trigger it, the await "
             "registration / reporting / never-dropped-answer protocol (every process source asked about), the propagation of the awaited process's own "
             "error, cleanup touching only the finished process's own resources, and effect/ownership "
             "failures delivered to the requesting process as values. Containment under real interleavings is NOT decided.",
        design="§3 C15", technique="static analysis: reach-set panic-site census with interval/guard discharge and reviewed tables; who-may-write census; path exploration"),
    "C16": dict(
        text="Decides the constant-space MECHANISM: the TailCall handler (and everything it reaches) pushes no frame, truncates locals before "
             "pushing new ones on every non-error path, overwrites the top frame in place with the same locals_base; frames are pushed at three "
             "reviewed sites; block stripping never splices a tail call out of final position. Peak sizes over N iterations are not measured. Also: the height at which each emitted TailCall executes is fixed per combination of the generator's flag parameters (emission-effect analysis), and reclamation runs unconditionally at every step boundary; every heap blob accompanies a message once (distinct indices), so message loops leave no dead slots.",
        design="§3 C16", technique="static analysis: MIR path exploration, value-source checks and who-may-call census; emission-effect abstract interpretation of the code generator (tail-call heights)"),
    "C18": dict(
        text="Decides the no-panic clause structurally: a deny-by-default census of every panic-capable construct (unwrap/expect/panic, slice and "
             "str indexing, bounds asserts, usize subtraction) reachable from parse and Compiler::compile with reviewed per-(function, kind) "
             "ceilings, a taint rule that numbers parsed from the source are never unwrapped, and the byte-offset discipline of string "
             "post-processing (a predicate stepped over one BYTE at a time admits ASCII only). Termination and error positions are NOT decided. Also: a FIRST-set analysis of every nom `alt` rules out exponential backtracking (two alternatives that consume the same opening and descend into the same recursive rule) — it reports one genuine defect recorded as known findings (nested parenthesised types parse in 2^depth) — and every fresh type-variable binding in unify is unreachable for a self-binding (non-terminating recursion).",
        design="§3 C18", technique="static analysis: reach-set panic-site census with reviewed table; backward-slice taint rule; HIR sibling invariant; PEG FIRST-set / common-prefix analysis over the resolved combinator trees"),
}

NOT_APPLICABLE = {
    "C03": "Quantifies over interleavings, worker counts and quanta; confluence is a property of executions and no sound static argument in reach bounds the schedule space (its structural residue is decided under C04).",
    "C17": "Every clause is a statement about the text the formatter produces for each of infinitely many inputs (width arithmetic); nothing in the shape of the code is a necessary condition of it.",
    "C19": "A property of a Quiver-source HAMT (std/dict.qv) over operation histories and adversarial hashes; a static analysis of it would need a symbolic semantics of Quiver (a different family).",
    "C20": "Exactness, canonical form and field laws over unbounded integers are value-level; the tempting syntactic proxy (zero-guarded divisions in std/num.qv) is false on today's correct code.",
}

PENDING_REASON = "static check for this property is designed (DESIGN.md §3) but not yet built in this snapshot; it will be claimed once its rules run"

ALL = ["C%02d" % i for i in range(1, 21)]


def main():
    checks = []
    for pid in ALL:
        c = CLAIMS.get(pid)
        if not c:
            continue
        checks.append({
            "property_id": pid,
            "quick_cmd": "python3 qv.py check %s --tier quick" % pid,
            "thorough_cmd": "python3 qv.py check %s --tier thorough" % pid,
            "evidence_file": "/verif/evidence/%s.json" % pid,
            "replay_cmd_template": "python3 qv.py replay {path}",
            "engine": "qvfacts+qvrules",
            "level_claimed": {"category": "other", "text": c["text"], "design_ref": c["design"]},
            "level_note": NOTE_COMMON,
            "technique": c["technique"],
        })
    na = []
    for pid in ALL:
        if pid in CLAIMS:
            continue
        na.append({"property_id": pid, "reason": NOT_APPLICABLE.get(pid, PENDING_REASON)})
    m = {
        "version": 1,
        "setup_cmd": "cd /verif/driver && CARGO_NET_OFFLINE=true cargo build --offline && cd /verif && python3 qv.py extract",
        "hooks": {
            "guard": "quiver_verif",
            "enable": "none needed: static analysis reads /repo's sources through `cargo +nightly check` with the qvfacts RUSTC_WORKSPACE_WRAPPER; the guard name is reserved and unused",
            "baseline_off_cmd": "cd /repo && cargo nextest run --workspace --no-fail-fast --test-threads 8 --offline || cargo test --workspace --no-fail-fast --offline",
            "source_commits": [],
            "add_only": True,
        },
        "engines": [
            {"name": "qvfacts", "path": "/verif/driver", "serves_properties": sorted(CLAIMS),
             "kind_free_text": "rustc_private driver (nightly) emitting ADT/impl/fn/MIR/HIR facts of the real workspace build as JSONL"},
            {"name": "qvrules", "path": "/verif/qv.py", "serves_properties": sorted(CLAIMS),
             "kind_free_text": "Python rule evaluator: CFG reachability with constant threading, dominators, value-flow closure, pattern matrices, censuses with reviewed tables"},
        ],
        "checks": checks,
        "not_applicable": na,
        "notes": "Static analysis only. Exit 0 = all obligations discharged (KNOWN-FINDING lines are informational); exit 1 + VIOLATION line = a violated obligation; "
                 "exit 2 + CHECK-ERROR line (no VIOLATION) = the check could not decide (anchor missing, instance count below the confirmed floor, tree does not compile).",
    }
    with open(os.path.join(VERIF, "MANIFEST.json"), "w") as fh:
        json.dump(m, fh, indent=1)
    print("MANIFEST.json: %d checks, %d not_applicable" % (len(checks), len(na)))


if __name__ == "__main__":
    main()
