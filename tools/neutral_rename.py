#!/usr/bin/env python3
"""tools/neutral_rename.py <scratch-dir> — build a behaviour-preserving variant of /repo in <scratch-dir> by renaming as many local variables /
parameters as still compile (suffix _rn), then print the list. Used to test that no rule keys on debug names (false-alarm test).
The scratch dir must be outside /repo and /verif; the caller removes it."""
import json, os, re, subprocess, sys, glob
D = sys.argv[1]
sys.path.insert(0, "/verif")
from qvlib.extract import extract
from qvlib.facts import Facts
F = Facts(extract("/repo", log=open(os.devnull, "w")))
names = set()
for b in F.bodies():
    if not b.key.startswith("quiver_") and not b.key.startswith("quiv"):
        continue
    for l in b.locals:
        n = l.get("name")
        if n and len(n) >= 3 and n not in ("self", "Self") and re.match(r"^[a-z_][a-z0-9_]*$", n):
            names.add(n)
KEYWORDS = {"type", "match", "loop", "move", "ref", "mut", "let", "for", "use", "mod", "pub", "impl", "where", "else", "true", "false", "crate", "super", "async", "await", "dyn", "enum", "struct", "trait", "unsafe", "static", "const", "extern", "return", "break", "continue", "while", "fn", "in", "as", "if", "str", "bool", "usize", "u8", "u16", "u32", "u64", "i64", "f64", "char", "vec", "format", "println", "write", "assert", "matches", "panic"}
names -= KEYWORDS
subprocess.check_call(["rsync", "-a", "--delete", "--exclude", "target", "--exclude", ".git", "/repo/", D + "/src/"])
orig = {}
for p in glob.glob(D + "/src/**/*.rs", recursive=True):
    if "/tests/" in p or "/target/" in p:
        continue
    orig[p] = open(p).read()
def apply(ns):
    rx = re.compile(r'(?<![\.\w:\'"])(%s)\b(?!\s*[\(!:])(?!::)' % "|".join(sorted(ns, key=len, reverse=True)))
    for p, s in orig.items():
        # leave string literals / comments alone as far as a line-level filter can: skip lines that are comments
        out = []
        for line in s.split("\n"):
            st = line.lstrip()
            if st.startswith("//") or st.startswith("#["):
                out.append(line)
                continue
            # do not touch text inside string literals
            parts = re.split(r'("(?:[^"\\]|\\.)*")', line)
            for i in range(0, len(parts), 2):
                parts[i] = rx.sub(lambda m: m.group(1) + "_rn", parts[i])
            out.append("".join(parts))
        open(p, "w").write("\n".join(out))
env = dict(os.environ, CARGO_NET_OFFLINE="true", CARGO_TARGET_DIR=D + "/target")
for it in range(12):
    apply(names)
    r = subprocess.run(["cargo", "check", "--offline", "--workspace", "--message-format=short"], cwd=D + "/src", env=env, capture_output=True, text=True)
    if r.returncode == 0:
        break
    bad = set()
    for w in re.findall(r"[A-Za-z_][A-Za-z0-9_]*", r.stderr):
        if w in names:
            bad.add(w)
        if w.endswith("_rn") and w[:-3] in names:
            bad.add(w[:-3])
    if not bad:
        print(r.stderr[-3000:])
        sys.exit("cannot make progress")
    names -= bad
    print("iter %d: dropped %d names, %d left" % (it, len(bad), len(names)), flush=True)
else:
    sys.exit("did not converge")
subprocess.run(["rm", "-rf", D + "/target"])
json.dump(sorted(names), open(D + "/renamed.json", "w"))
print("renamed %d names; tree in %s/src" % (len(names), D))
