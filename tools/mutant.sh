#!/bin/bash
# tools/mutant.sh <patch.diff | -e 'python-edit-script'> PROP [PROP...]
# Applies a patch to a scratch copy of /repo (outside /repo and /verif), runs the named checks on it, removes the copy.
set -u
PATCH="$1"; shift
D=$(mktemp -d /tmp/qvmut.XXXXXX)
if [ -n "${BASE:-}" ]; then git -C /repo archive "$BASE" | tar -x -C "$D"; else rsync -a --exclude target --exclude .git /repo/ "$D/"; fi
if [ "$PATCH" = "-e" ]; then
  SCRIPT="$1"; shift
  (cd "$D" && python3 -c "$SCRIPT") || { echo "edit failed"; rm -rf "$D"; exit 3; }
else
  (cd "$D" && patch -p1 --no-backup-if-mismatch < "$PATCH" >/dev/null) || { echo "patch failed"; rm -rf "$D"; exit 3; }
fi
RC=0
for P in "$@"; do
  QV_EVIDENCE_DIR="$D/evidence" python3 /verif/qv.py check "$P" --repo "$D" | grep -v "^  detail" | cut -c1-700
  R=${PIPESTATUS[0]}; echo "== $P rc=$R"
  [ $R -ne 0 ] && RC=$R
done
rm -rf "$D"
exit $RC
