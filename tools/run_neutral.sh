#!/bin/bash
# tools/run_neutral.sh <patch> — apply a behaviour-preserving patch to a scratch copy of /repo and run ALL claimed checks on it (expect silence).
# The patches were made against 864fa33; when one no longer applies to the working tree (a later fix: commit touched the same hunk) it is applied to
# a copy of that commit instead.
PATCH="$1"
D=$(mktemp -d /tmp/qvneu.XXXXXX)
rsync -a --exclude target --exclude .git /repo/ "$D/"
if ! (cd "$D" && patch -p1 --no-backup-if-mismatch --dry-run < "$PATCH" >/dev/null 2>&1); then
  rm -rf "$D"; D=$(mktemp -d /tmp/qvneu.XXXXXX)
  git -C /repo archive 864fa33 | tar -x -C "$D"
  echo "(applied on 864fa33)"
  OLDBASE=1
fi
(cd "$D" && patch -p1 --no-backup-if-mismatch < "$PATCH" >/dev/null) || { echo "patch failed"; rm -rf "$D"; exit 3; }
QV_EVIDENCE_DIR="$D/evidence" python3 /verif/qv.py all --repo "$D" 2>&1 | grep -E "violated:|CHECK-ERROR|quick:.* [1-9][0-9]* violated" | { if [ -n "${OLDBASE:-}" ]; then grep -v "one-index-space\|one-injection\|^C06 quick\|partial_type~delimited\|^C18 quick"; else cat; fi; } | cut -c1-420   # 864fa33 itself has the F16/F17 defects those sites report
rm -rf "$D"
