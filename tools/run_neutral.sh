#!/bin/bash
# tools/run_neutral.sh <patch> — apply a behaviour-preserving patch to a scratch copy of /repo and run ALL claimed checks on it (expect silence).
PATCH="$1"
D=$(mktemp -d /tmp/qvneu.XXXXXX)
rsync -a --exclude target --exclude .git /repo/ "$D/"
(cd "$D" && patch -p1 --no-backup-if-mismatch < "$PATCH" >/dev/null) || { echo "patch failed"; rm -rf "$D"; exit 3; }
QV_EVIDENCE_DIR="$D/evidence" python3 /verif/qv.py all --repo "$D" 2>&1 | grep -E "violated:|CHECK-ERROR|quick:.* [1-9][0-9]* violated" | cut -c1-420
rm -rf "$D"
