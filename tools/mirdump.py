#!/usr/bin/env python3
"""Readable dump of one function's MIR from the cached facts: tools/mirdump.py <substring-of-key> [--hir]"""
import sys, os, json
sys.path.insert(0, os.path.dirname(os.path.dirname(os.path.abspath(__file__))))
from qvlib import extract
from qvlib.facts import Facts, place_str, op_str

def rv_str(rv, b):
    k = rv["k"]
    if k == "use": return op_str(rv["op"], b)
    if k == "ref": return ("&mut " if rv["mut"] else "&") + place_str(rv["p"], b)
    if k == "agg":
        if rv["kind"] == "adt": return "%s::%s{%s}" % (rv["adt"].split("::")[-1], rv["variant"], ", ".join(op_str(o, b) for o in rv["ops"]))
        return "%s(%s)" % (rv["kind"], ", ".join(op_str(o, b) for o in rv["ops"]))
    if k == "cast": return "%s as %s [%s]" % (op_str(rv["op"], b), rv["to"], rv["ck"])
    if k == "bin": return "%s(%s, %s)" % (rv["op"], op_str(rv["l"], b), op_str(rv["r"], b))
    if k == "un": return "%s(%s)" % (rv["op"], op_str(rv["x"], b))
    if k == "discr": return "discr(%s)" % place_str(rv["p"], b)
    if k == "repeat": return "[%s; n]" % op_str(rv["op"], b)
    return rv.get("text", k)

def dump(f, F):
    b = F.body(f["key"])
    print("fn", f["key"], f["file"], f["line"])
    for l in b.locals:
        if l.get("name"): print("   _%d %s: %s" % (l["i"], l["name"], l["ty"]))
    for i, blk in enumerate(b.blocks):
        if blk.get("cleanup"): continue
        print(" bb%d:" % i)
        for s in blk["stmts"]:
            if s["k"] == "assign":
                print("    %s = %s   @%d" % (place_str(s["p"], b), rv_str(s["rv"], b), s["sp"][0]))
            else:
                print("    setdiscr %s = %s" % (place_str(s["p"], b), s["v"]))
        t = blk["term"]; k = t["k"]
        if k == "call":
            print("    %s = CALL %s(%s) -> bb%s   @%d%s" % (place_str(t["dest"], b), t.get("callee") or ("indirect " + op_str(t.get("fn_op"), b)), ", ".join(op_str(a, b) for a in t["args"]), t["t"], t["sp"][0], ("  [resolved " + t["resolved"] + "]") if t.get("resolved") else ""))
        elif k == "switch":
            print("    SWITCH %s: %s else bb%d" % (op_str(t["op"], b), ", ".join("%s->bb%d" % (v, bb) for v, bb in t["targets"]), t["otherwise"]))
        elif k == "assert":
            print("    ASSERT %s %s(%s) -> bb%d  @%d" % (op_str(t["cond"], b), t["msg"], ", ".join(op_str(a, b) for a in t["ops"]), t["t"], t["sp"][0]))
        elif k in ("goto", "drop"):
            print("    %s -> bb%d" % (k if k == "goto" else "DROP " + place_str(t["p"], b), t["t"]))
        else:
            print("    " + k.upper())

if __name__ == "__main__":
    d = extract.extract()
    F = Facts(d)
    pat = sys.argv[1]
    ks = [k for k in F.fns if pat in k]
    exact = [k for k in ks if k.endswith(pat)]
    if exact: ks = exact
    if "--list" in sys.argv:
        print("\n".join(ks)); sys.exit()
    for k in ks[:3]:
        if "--hir" in sys.argv:
            print(json.dumps(F.fns[k]["hir"], indent=1))
        else:
            dump(F.fns[k], F)
