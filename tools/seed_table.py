#!/usr/bin/env python3
"""tools/seed_table.py — print the markdown table of DESIGN.md §6 from seeded/MATRIX.json and the seeds' meta.json files."""
import json, os
V = os.path.dirname(os.path.dirname(os.path.abspath(__file__)))
m = json.load(open(os.path.join(V, "seeded", "MATRIX.json")))
rows = []
for sid in sorted(m):
    e = m[sid]
    meta = json.load(open(os.path.join(V, "seeded", sid, "meta.json")))
    site = (meta.get("site") or "")[:70].replace("|", "/")
    rules = sorted({r["rule"] for r in e.get("reports", [])})
    rows.append("| `%s` | %s | %s | %s | %s |" % (sid, site, "**caught**" if e.get("detected") else "missed", ", ".join(rules), e.get("applied_on")))
print("| seed | site | verdict | reporting rules | applied on |\n|------|------|---------|-----------------|------------|")
print("\n".join(rows))
print("\n%d of %d caught" % (sum(1 for r in rows if "caught" in r), len(rows)))

# --write: replace the block between the markers in DESIGN.md
import sys
if "--write" in sys.argv:
    d = os.path.join(V, "DESIGN.md")
    txt = open(d).read()
    a, b = txt.index("<!-- SEED-TABLE-BEGIN -->"), txt.index("<!-- SEED-TABLE-END -->")
    caught = sum(1 for r in rows if "caught" in r)
    block = "<!-- SEED-TABLE-BEGIN -->\n**%d of %d caught** (last run of `tools/seed_matrix.py`).\n\n| seed | site | verdict | reporting rules | applied on |\n|------|------|---------|-----------------|------------|\n%s\n" % (caught, len(rows), "\n".join(rows))
    open(d, "w").write(txt[:a] + block + txt[b:])
