#!/bin/bash
# tools/verify_seed.sh <worktree> <seed-out-dir>   — confirm a seeded change: demo passes without, fails with; full suite still passes with it.
WT="$1"; OUT="$2"; LOG="$OUT/verify.log"
cd "$WT" || exit 9
export CARGO_NET_OFFLINE=true
git checkout -q -- . ; git clean -fdq -e target
: > "$LOG"
TESTS=$(grep '^+++ b/' "$OUT/demo.diff" | sed 's#^+++ b/##' | grep 'tests/.*\.rs$' | xargs -n1 basename | sed 's/\.rs$//' | tr '\n' ' ')
PKG=$(grep '^+++ b/' "$OUT/demo.diff" | head -1 | sed 's#^+++ b/##' | cut -d/ -f1)
echo "tests=$TESTS pkg=$PKG" >> "$LOG"
git apply "$OUT/demo.diff" || { echo "RESULT demo-apply-failed" | tee -a "$LOG"; exit 1; }
TARGS=""; for t in $TESTS; do TARGS="$TARGS --test $t"; done
cargo test --offline -p "$PKG" $TARGS >> "$LOG" 2>&1; A=$?
git apply "$OUT/patch.diff" || { echo "RESULT patch-apply-failed" | tee -a "$LOG"; git checkout -q -- .; git clean -fdq -e target; exit 1; }
cargo test --offline -p "$PKG" $TARGS >> "$LOG" 2>&1; B=$?
# remove the demo, keep the patch, run the full unedited suite
git apply -R "$OUT/demo.diff"
cargo test --workspace --no-fail-fast --offline > "$OUT/verify_suite.log" 2>&1; C=$?
PASSED=$(grep -E "^test result:" "$OUT/verify_suite.log" | awk '{p+=$4; f+=$6} END {print p" passed "f" failed"}')
git checkout -q -- . ; git clean -fdq -e target
echo "RESULT demo_without_patch_rc=$A demo_with_patch_rc=$B suite_with_patch_rc=$C ($PASSED)" | tee -a "$LOG"
