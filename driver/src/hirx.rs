// HIR facts: a resolved expression tree per function body (closures inlined).
use crate::j::J;
use crate::names::{key, loc, ty_adt_key, ty_str};
use rustc_hir as hir;
use rustc_hir::def::{CtorOf, DefKind, Res};
use rustc_middle::ty::{TyCtxt, TypeckResults};
use rustc_span::def_id::LocalDefId;

struct Cx<'tcx> {
    tcx: TyCtxt<'tcx>,
    tr: &'tcx TypeckResults<'tcx>,
}

pub fn body_fact<'tcx>(tcx: TyCtxt<'tcx>, ldid: LocalDefId) -> J {
    if matches!(tcx.def_kind(ldid.to_def_id()), DefKind::Closure) {
        return J::Null; // inlined in the parent
    }
    let body = match tcx.hir_maybe_body_owned_by(ldid) {
        Some(b) => b,
        None => return J::Null,
    };
    let cx = Cx { tcx, tr: tcx.typeck(ldid) };
    let params: Vec<J> = body.params.iter().map(|p| cx.pat(p.pat)).collect();
    J::obj(vec![("params", J::Arr(params)), ("body", cx.expr(body.value))])
}

impl<'tcx> Cx<'tcx> {
    fn ln(&self, sp: rustc_span::Span) -> J {
        let (_f, l, _c) = loc(self.tcx, sp);
        J::n(l as i64)
    }

    fn res_j(&self, res: Res) -> Vec<(&'static str, J)> {
        let tcx = self.tcx;
        match res {
            Res::Local(hid) => vec![("res", J::s("local")), ("name", J::s(tcx.hir_name(hid).as_str()))],
            Res::Def(DefKind::Ctor(of, _), did) => {
                let vdid = tcx.parent(did);
                match of {
                    CtorOf::Variant => {
                        let adt = tcx.parent(vdid);
                        vec![
                            ("res", J::s("ctor")),
                            ("adt", J::s(key(tcx, adt))),
                            ("variant", J::s(tcx.item_name(vdid).as_str())),
                        ]
                    }
                    CtorOf::Struct => vec![("res", J::s("ctor")), ("adt", J::s(key(tcx, vdid))), ("variant", J::Null)],
                }
            }
            Res::Def(DefKind::Variant, did) => {
                let adt = tcx.parent(did);
                vec![
                    ("res", J::s("ctor")),
                    ("adt", J::s(key(tcx, adt))),
                    ("variant", J::s(tcx.item_name(did).as_str())),
                ]
            }
            Res::Def(kind, did) => vec![
                ("res", J::s(format!("{:?}", kind).split('(').next().unwrap_or("").split(' ').next().unwrap_or("").to_lowercase())),
                ("key", J::s(key(tcx, did))),
            ],
            Res::SelfCtor(_) | Res::SelfTyAlias { .. } | Res::SelfTyParam { .. } => vec![("res", J::s("self"))],
            _ => vec![("res", J::s("other"))],
        }
    }

    fn qpath(&self, qp: &hir::QPath<'tcx>, hid: hir::HirId) -> Vec<(&'static str, J)> {
        let res = self.tr.qpath_res(qp, hid);
        self.res_j(res)
    }

    fn pat(&self, p: &'tcx hir::Pat<'tcx>) -> J {
        use hir::PatKind::*;
        match &p.kind {
            Wild | Missing => J::obj(vec![("p", J::s("wild"))]),
            Never => J::obj(vec![("p", J::s("never"))]),
            Binding(_mode, _hid, ident, sub) => J::obj(vec![
                ("p", J::s("bind")),
                ("name", J::s(ident.name.as_str())),
                ("sub", match sub {
                    Some(s) => self.pat(s),
                    None => J::Null,
                }),
            ]),
            Struct(qp, fields, rest) => {
                let mut f = vec![("p", J::s("struct"))];
                f.extend(self.qpath(qp, p.hir_id));
                let fs: Vec<J> = fields
                    .iter()
                    .map(|fp| J::obj(vec![("name", J::s(fp.ident.name.as_str())), ("pat", self.pat(fp.pat))]))
                    .collect();
                f.push(("fields", J::Arr(fs)));
                f.push(("rest", J::Bool(rest.is_some())));
                J::obj(f)
            }
            TupleStruct(qp, pats, ddpos) => {
                let mut f = vec![("p", J::s("tstruct"))];
                f.extend(self.qpath(qp, p.hir_id));
                f.push(("subs", J::Arr(pats.iter().map(|x| self.pat(x)).collect())));
                f.push(("dd", match ddpos.as_opt_usize() {
                    Some(n) => J::n(n as i64),
                    None => J::Null,
                }));
                J::obj(f)
            }
            Or(pats) => J::obj(vec![("p", J::s("or")), ("alts", J::Arr(pats.iter().map(|x| self.pat(x)).collect()))]),
            Tuple(pats, ddpos) => J::obj(vec![
                ("p", J::s("tuple")),
                ("subs", J::Arr(pats.iter().map(|x| self.pat(x)).collect())),
                ("dd", match ddpos.as_opt_usize() {
                    Some(n) => J::n(n as i64),
                    None => J::Null,
                }),
            ]),
            Box(x) | Deref(x) | Ref(x, ..) => self.pat(x),
            Expr(pe) => match &pe.kind {
                hir::PatExprKind::Path(qp) => {
                    let mut f = vec![("p", J::s("path"))];
                    f.extend(self.qpath(qp, pe.hir_id));
                    J::obj(f)
                }
                hir::PatExprKind::Lit { lit, negated } => J::obj(vec![
                    ("p", J::s("lit")),
                    ("text", J::s(format!("{}{:?}", if *negated { "-" } else { "" }, lit.node))),
                ]),
                #[allow(unreachable_patterns)]
                _ => J::obj(vec![("p", J::s("expr"))]),
            },
            Guard(x, g) => J::obj(vec![("p", J::s("guard")), ("sub", self.pat(x)), ("cond", self.expr(g))]),
            Range(..) => J::obj(vec![("p", J::s("range"))]),
            Slice(a, m, b) => J::obj(vec![
                ("p", J::s("slice")),
                ("before", J::Arr(a.iter().map(|x| self.pat(x)).collect())),
                ("mid", match m {
                    Some(x) => self.pat(x),
                    None => J::Null,
                }),
                ("after", J::Arr(b.iter().map(|x| self.pat(x)).collect())),
            ]),
            Err(_) => J::obj(vec![("p", J::s("err"))]),
        }
    }

    fn block(&self, b: &'tcx hir::Block<'tcx>) -> J {
        let mut stmts = Vec::new();
        for s in b.stmts.iter() {
            match &s.kind {
                hir::StmtKind::Let(l) => {
                    stmts.push(J::obj(vec![
                        ("e", J::s("let")),
                        ("ln", self.ln(s.span)),
                        ("pat", self.pat(l.pat)),
                        ("init", match l.init {
                            Some(e) => self.expr(e),
                            None => J::Null,
                        }),
                        ("else", match l.els {
                            Some(b) => self.block(b),
                            None => J::Null,
                        }),
                    ]));
                }
                hir::StmtKind::Expr(e) | hir::StmtKind::Semi(e) => stmts.push(self.expr(e)),
                hir::StmtKind::Item(_) => {}
            }
        }
        J::obj(vec![
            ("e", J::s("block")),
            ("ln", self.ln(b.span)),
            ("stmts", J::Arr(stmts)),
            ("tail", match b.expr {
                Some(e) => self.expr(e),
                None => J::Null,
            }),
        ])
    }

    fn exprs(&self, es: &'tcx [hir::Expr<'tcx>]) -> J {
        J::Arr(es.iter().map(|e| self.expr(e)).collect())
    }

    fn ty_of(&self, e: &'tcx hir::Expr<'tcx>) -> J {
        match self.tr.expr_ty_opt(e) {
            Some(t) => J::s(ty_str(t)),
            None => J::Null,
        }
    }
    fn adt_of(&self, e: &'tcx hir::Expr<'tcx>) -> J {
        match self.tr.expr_ty_adjusted_opt(e) {
            Some(t) => J::opt_s(ty_adt_key(self.tcx, t)),
            None => J::Null,
        }
    }

    fn expr(&self, e: &'tcx hir::Expr<'tcx>) -> J {
        use hir::ExprKind::*;
        let ln = self.ln(e.span);
        let exp = J::Bool(e.span.from_expansion());
        let mk = |tag: &str, mut rest: Vec<(&'static str, J)>| {
            let mut v: Vec<(&str, J)> = vec![("e", J::s(tag)), ("ln", ln_clone(&ln))];
            v.append(&mut rest);
            J::obj(v)
        };
        fn ln_clone(l: &J) -> J {
            match l {
                J::Num(n) => J::Num(*n),
                _ => J::Null,
            }
        }
        match &e.kind {
            ConstBlock(_) => mk("constblock", vec![]),
            Array(es) => mk("array", vec![("items", self.exprs(es))]),
            Call(f, args) => {
                let mut v = vec![("f", self.expr(f)), ("args", self.exprs(args)), ("exp", exp)];
                // direct callee key if the function is a path
                if let Path(qp) = &f.kind {
                    let r = self.tr.qpath_res(qp, f.hir_id);
                    if let Res::Def(_, did) = r {
                        // resolve assoc fn through type-dependent defs too
                        let _ = did;
                    }
                }
                v.push(("ty", self.ty_of(e)));
                mk("call", v)
            }
            MethodCall(seg, recv, args, _sp) => {
                let k = self.tr.type_dependent_def_id(e.hir_id).map(|d| key(self.tcx, d));
                mk(
                    "mcall",
                    vec![
                        ("m", J::s(seg.ident.name.as_str())),
                        ("key", J::opt_s(k)),
                        ("recv", self.expr(recv)),
                        ("rty", self.ty_of(recv)),
                        ("radt", self.adt_of(recv)),
                        ("args", self.exprs(args)),
                        ("exp", exp),
                    ],
                )
            }
            Use(x, _) => self.expr(x),
            Tup(es) => mk("tup", vec![("items", self.exprs(es))]),
            Binary(op, l, r) => mk(
                "binary",
                vec![
                    ("op", J::s(format!("{:?}", op.node))),
                    ("l", self.expr(l)),
                    ("r", self.expr(r)),
                    ("lty", self.ty_of(l)),
                    ("exp", exp),
                ],
            ),
            Unary(op, x) => mk("unary", vec![("op", J::s(format!("{:?}", op))), ("x", self.expr(x))]),
            Lit(l) => mk("lit", vec![("text", J::s(format!("{:?}", l.node)))]),
            Cast(x, _t) => mk("cast", vec![("x", self.expr(x)), ("from", self.ty_of(x)), ("to", self.ty_of(e))]),
            Type(x, _) => self.expr(x),
            DropTemps(x) => self.expr(x),
            Let(l) => mk("letexpr", vec![("pat", self.pat(l.pat)), ("init", self.expr(l.init)), ("sty", self.ty_of(l.init))]),
            If(c, t, el) => mk(
                "if",
                vec![
                    ("c", self.expr(c)),
                    ("t", self.expr(t)),
                    ("else", match el {
                        Some(x) => self.expr(x),
                        None => J::Null,
                    }),
                ],
            ),
            Loop(b, _label, src, _) => mk("loop", vec![("src", J::s(format!("{:?}", src))), ("body", self.block(b))]),
            Match(scrut, arms, src) => {
                let armsj: Vec<J> = arms
                    .iter()
                    .map(|a| {
                        J::obj(vec![
                            ("ln", self.ln(a.span)),
                            ("pat", self.pat(a.pat)),
                            ("guard", match a.guard {
                                Some(g) => self.expr(g),
                                None => J::Null,
                            }),
                            ("body", self.expr(a.body)),
                        ])
                    })
                    .collect();
                mk(
                    "match",
                    vec![
                        ("src", J::s(format!("{:?}", src).split('(').next().unwrap_or("").to_string())),
                        ("scrut", self.expr(scrut)),
                        ("sty", self.ty_of(scrut)),
                        ("arms", J::Arr(armsj)),
                        ("exp", exp),
                    ],
                )
            }
            Closure(c) => {
                let body = self.tcx.hir_body(c.body);
                let params: Vec<J> = body.params.iter().map(|p| self.pat(p.pat)).collect();
                mk(
                    "closure",
                    vec![
                        ("key", J::s(key(self.tcx, c.def_id.to_def_id()))),
                        ("params", J::Arr(params)),
                        ("body", self.expr(body.value)),
                    ],
                )
            }
            Block(b, _) => self.block(b),
            Assign(l, r, _) => mk("assign", vec![("l", self.expr(l)), ("r", self.expr(r))]),
            AssignOp(op, l, r) => mk(
                "assignop",
                vec![("op", J::s(format!("{:?}", op.node))), ("l", self.expr(l)), ("r", self.expr(r)), ("lty", self.ty_of(l))],
            ),
            Field(x, ident) => mk(
                "field",
                vec![("x", self.expr(x)), ("name", J::s(ident.name.as_str())), ("xadt", self.adt_of(x))],
            ),
            Index(x, i, _) => mk("index", vec![("x", self.expr(x)), ("i", self.expr(i)), ("xty", self.ty_of(x)), ("exp", exp)]),
            Path(qp) => {
                let mut v = self.qpath(qp, e.hir_id);
                // assoc fn / method paths resolved through typeck
                if let Some(d) = self.tr.type_dependent_def_id(e.hir_id) {
                    v.push(("tdkey", J::s(key(self.tcx, d))));
                }
                mk("path", v)
            }
            AddrOf(_, m, x) => mk("ref", vec![("mut", J::Bool(m.is_mut())), ("x", self.expr(x))]),
            Break(_, x) => mk(
                "break",
                vec![("x", match x {
                    Some(x) => self.expr(x),
                    None => J::Null,
                })],
            ),
            Continue(_) => mk("continue", vec![]),
            Ret(x) => mk(
                "ret",
                vec![("x", match x {
                    Some(x) => self.expr(x),
                    None => J::Null,
                })],
            ),
            Become(x) => mk("become", vec![("x", self.expr(x))]),
            Struct(qp, fields, base) => {
                let mut v = self.qpath(qp, e.hir_id);
                let fs: Vec<J> = fields
                    .iter()
                    .map(|f| J::obj(vec![("name", J::s(f.ident.name.as_str())), ("x", self.expr(f.expr))]))
                    .collect();
                v.push(("fields", J::Arr(fs)));
                v.push(("base", match base {
                    hir::StructTailExpr::Base(b) => self.expr(b),
                    _ => J::Null,
                }));
                mk("struct", v)
            }
            Repeat(x, _) => mk("repeat", vec![("x", self.expr(x))]),
            Yield(x, _) => mk("yield", vec![("x", self.expr(x))]),
            _ => mk("other", vec![]),
        }
    }
}
