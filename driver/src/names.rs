// Stable naming of definitions and types, and the adt / impl / const facts.
use crate::j::J;
use rustc_hir::def::DefKind;
use rustc_middle::ty::print::{with_no_trimmed_paths, with_no_visible_paths, with_resolve_crate_name};
use rustc_middle::ty::{self, Ty, TyCtxt};
use rustc_span::def_id::DefId;
use rustc_span::Span;

/// Remove generic argument lists from a printed path:
///   executor::Executor::<E>::retain           -> executor::Executor::retain
///   <std::vec::Vec<T, A> as std::ops::Index<I>>::index -> <std::vec::Vec as std::ops::Index>::index
pub fn strip_generics(s: &str) -> String {
    let cs: Vec<char> = s.chars().collect();
    let mut out = String::new();
    // stack of bool: true = structural '<' (kept), false = generic list (dropped)
    let mut stack: Vec<bool> = Vec::new();
    let mut i = 0;
    let dropping = |st: &Vec<bool>| st.iter().any(|k| !*k);
    while i < cs.len() {
        let c = cs[i];
        if c == '<' {
            let prev = if i == 0 { None } else { Some(cs[i - 1]) };
            let structural = match prev {
                None => true,
                Some(p) => !(p.is_alphanumeric() || p == '_' || p == ':' || p == '>'),
            };
            if structural && !dropping(&stack) {
                stack.push(true);
                out.push(c);
            } else {
                if !dropping(&stack) {
                    // remove a trailing "::" that introduced the turbofish
                    if out.ends_with("::") {
                        out.truncate(out.len() - 2);
                    }
                }
                stack.push(false);
            }
        } else if c == '>' && i > 0 && cs[i - 1] == '-' {
            if !dropping(&stack) {
                out.push(c);
            }
        } else if c == '>' {
            match stack.pop() {
                Some(true) => out.push(c),
                Some(false) => {}
                None => out.push(c),
            }
        } else if !dropping(&stack) {
            out.push(c);
        }
        i += 1;
    }
    out
}

pub fn path<'tcx>(tcx: TyCtxt<'tcx>, did: DefId) -> String {
    with_no_visible_paths!(with_resolve_crate_name!(with_no_trimmed_paths!(tcx.def_path_str(did))))
}

pub fn key<'tcx>(tcx: TyCtxt<'tcx>, did: DefId) -> String {
    strip_generics(&path(tcx, did))
}

pub fn ty_str<'tcx>(ty: Ty<'tcx>) -> String {
    with_no_visible_paths!(with_resolve_crate_name!(with_no_trimmed_paths!(format!("{}", ty))))
}

/// ADT key of a type after peeling references / Box-like pointers are NOT peeled.
pub fn ty_adt_key<'tcx>(tcx: TyCtxt<'tcx>, ty: Ty<'tcx>) -> Option<String> {
    let t = ty.peel_refs();
    match t.kind() {
        ty::Adt(def, _) => Some(key(tcx, def.did())),
        _ => None,
    }
}

/// All ADT keys mentioned anywhere inside a type.
pub fn ty_mentions<'tcx>(tcx: TyCtxt<'tcx>, ty: Ty<'tcx>) -> Vec<String> {
    let mut v: Vec<String> = Vec::new();
    for arg in ty.walk() {
        if let Some(t) = arg.as_type() {
            if let ty::Adt(def, _) = t.kind() {
                let k = key(tcx, def.did());
                if !v.contains(&k) {
                    v.push(k);
                }
            }
        }
    }
    v
}

pub fn loc<'tcx>(tcx: TyCtxt<'tcx>, span: Span) -> (String, usize, usize) {
    let sp = span.source_callsite();
    let sm = tcx.sess.source_map();
    let l = sm.lookup_char_pos(sp.lo());
    let name = format!("{}", l.file.name.prefer_local_unconditionally());
    (name, l.line, l.col.0 + 1)
}

pub fn span_j<'tcx>(tcx: TyCtxt<'tcx>, span: Span) -> J {
    let (_f, l, c) = loc(tcx, span);
    J::Arr(vec![J::n(l as i64), J::n(c as i64), J::Bool(span.from_expansion())])
}

fn attrs_j<'tcx>(tcx: TyCtxt<'tcx>, did: DefId) -> J {
    // Inert attributes (serde(...), etc.) rendered from source text of their spans.
    let mut v = Vec::new();
    if let Some(ldid) = did.as_local() {
        let hir_id = tcx.local_def_id_to_hir_id(ldid);
        for a in tcx.hir_attrs(hir_id) {
            if let rustc_hir::Attribute::Unparsed(item) = a {
                if let Ok(snip) = tcx.sess.source_map().span_to_snippet(item.span) {
                    v.push(J::s(snip));
                }
            }
        }
    }
    J::Arr(v)
}

pub fn adt_fact<'tcx>(tcx: TyCtxt<'tcx>, did: DefId) -> J {
    let adt = tcx.adt_def(did);
    let mut variants = Vec::new();
    for (vidx, v) in adt.variants().iter_enumerated() {
        let mut fields = Vec::new();
        for (fidx, f) in v.fields.iter_enumerated() {
            let fty = tcx.type_of(f.did).instantiate_identity().skip_norm_wip();
            fields.push(J::obj(vec![
                ("i", J::n(fidx.as_usize() as i64)),
                ("name", J::s(f.name.as_str())),
                ("ty", J::s(ty_str(fty))),
                ("mentions", J::Arr(ty_mentions(tcx, fty).into_iter().map(J::Str).collect())),
                ("vis", J::s(format!("{:?}", f.vis))),
                ("attrs", attrs_j(tcx, f.did)),
            ]));
        }
        let discr = if adt.is_enum() {
            J::big(adt.discriminant_for_variant(tcx, vidx).val as i128)
        } else {
            J::Null
        };
        variants.push(J::obj(vec![
            ("i", J::n(vidx.as_usize() as i64)),
            ("name", J::s(v.name.as_str())),
            ("discr", discr),
            ("ctor", J::s(format!("{:?}", v.ctor_kind()))),
            ("fields", J::Arr(fields)),
            ("attrs", attrs_j(tcx, v.def_id)),
        ]));
    }
    let (file, line, _) = loc(tcx, tcx.def_span(did));
    // full item source (for inert helper attributes such as #[serde(..)] on variants and fields)
    let src = did
        .as_local()
        .map(|l| {
            let hid = tcx.local_def_id_to_hir_id(l);
            tcx.sess.source_map().span_to_snippet(tcx.hir_span_with_body(hid)).unwrap_or_default()
        })
        .unwrap_or_default();
    let serde_attrs: Vec<J> = src
        .lines()
        .map(|l| l.trim())
        .filter(|l| l.starts_with("#[serde") || l.starts_with("#![serde"))
        .map(|l| J::s(l))
        .collect();
    J::obj(vec![
        ("k", J::s("adt")),
        ("serde_attrs", J::Arr(serde_attrs)),
        ("key", J::s(key(tcx, did))),
        ("kind", J::s(if adt.is_enum() { "enum" } else if adt.is_struct() { "struct" } else { "union" })),
        ("vis", J::s(format!("{:?}", tcx.visibility(did)))),
        ("file", J::s(file)),
        ("line", J::n(line as i64)),
        ("attrs", attrs_j(tcx, did)),
        ("variants", J::Arr(variants)),
    ])
}

pub fn impl_trait_key<'tcx>(tcx: TyCtxt<'tcx>, impl_did: DefId) -> Option<String> {
    if let DefKind::Impl { of_trait: true } = tcx.def_kind(impl_did) {
        let tr = tcx.impl_trait_ref(impl_did).instantiate_identity().skip_norm_wip();
        Some(key(tcx, tr.def_id))
    } else {
        None
    }
}

pub fn impl_self_adt<'tcx>(tcx: TyCtxt<'tcx>, impl_did: DefId) -> Option<String> {
    let st = tcx.type_of(impl_did).instantiate_identity().skip_norm_wip();
    ty_adt_key(tcx, st)
}

pub fn impl_desc<'tcx>(tcx: TyCtxt<'tcx>, impl_did: DefId) -> String {
    let st = tcx.type_of(impl_did).instantiate_identity().skip_norm_wip();
    match impl_trait_key(tcx, impl_did) {
        Some(t) => format!("impl {} for {}", t, ty_str(st)),
        None => format!("impl {}", ty_str(st)),
    }
}

pub fn impl_fact<'tcx>(tcx: TyCtxt<'tcx>, did: DefId) -> J {
    let st = tcx.type_of(did).instantiate_identity().skip_norm_wip();
    let (file, line, _) = loc(tcx, tcx.def_span(did));
    let mut items = Vec::new();
    for it in tcx.associated_items(did).in_definition_order() {
        items.push(J::s(it.name().as_str()));
    }
    J::obj(vec![
        ("k", J::s("impl")),
        ("crate", J::s(tcx.crate_name(did.krate).as_str())),
        ("trait", J::opt_s(impl_trait_key(tcx, did))),
        ("self_ty", J::s(ty_str(st))),
        ("self_adt", J::opt_s(ty_adt_key(tcx, st))),
        ("derived", J::Bool(tcx.is_automatically_derived(did))),
        ("items", J::Arr(items)),
        ("file", J::s(file)),
        ("line", J::n(line as i64)),
    ])
}

pub fn const_fact<'tcx>(tcx: TyCtxt<'tcx>, did: DefId) -> J {
    let t = tcx.type_of(did).instantiate_identity().skip_norm_wip();
    let (file, line, _) = loc(tcx, tcx.def_span(did));
    let snippet = tcx
        .sess
        .source_map()
        .span_to_snippet(tcx.def_span(did))
        .unwrap_or_default();
    // value text: source snippet of the whole item (cheap and sufficient for small consts)
    let full = did
        .as_local()
        .map(|l| {
            let hid = tcx.local_def_id_to_hir_id(l);
            tcx.sess.source_map().span_to_snippet(tcx.hir_span(hid)).unwrap_or_default()
        })
        .unwrap_or_default();
    J::obj(vec![
        ("k", J::s("const")),
        ("key", J::s(key(tcx, did))),
        ("ty", J::s(ty_str(t))),
        ("head", J::s(snippet)),
        ("src", J::s(if full.len() < 400 { full } else { String::new() })),
        ("file", J::s(file)),
        ("line", J::n(line as i64)),
    ])
}

pub fn printed<T>(f: impl FnOnce() -> T) -> T {
    with_no_visible_paths!(with_resolve_crate_name!(with_no_trimmed_paths!(f())))
}
