// qvfacts — rustc_private fact extractor for the quiver verification rules.
//
// Injected with RUSTC_WORKSPACE_WRAPPER under `cargo +nightly check --workspace`.
// For every workspace crate it writes ONE file  $QVFACTS_OUT/<crate>.<pid>.jsonl
// (single write per process) with one JSON object per line:
//   {"k":"crate",...}  {"k":"adt",...}  {"k":"impl",...}  {"k":"fn",...} (MIR + HIR of a body)
//
// Zero Cargo dependencies; JSON is emitted by hand (module `j`).
#![feature(rustc_private)]
#![allow(clippy::all)]

extern crate rustc_abi;
extern crate rustc_ast;
extern crate rustc_driver;
extern crate rustc_hir;
extern crate rustc_interface;
extern crate rustc_middle;
extern crate rustc_session;
extern crate rustc_span;

mod hirx;
mod j;
mod mirx;
mod names;

use j::J;
use rustc_hir::def::DefKind;
use rustc_middle::ty::TyCtxt;
use rustc_span::def_id::LOCAL_CRATE;
use std::io::Write;

struct Cb;

impl rustc_driver::Callbacks for Cb {
    fn after_analysis<'tcx>(
        &mut self,
        _c: &rustc_interface::interface::Compiler,
        tcx: TyCtxt<'tcx>,
    ) -> rustc_driver::Compilation {
        emit(tcx);
        rustc_driver::Compilation::Continue
    }
}

fn emit<'tcx>(tcx: TyCtxt<'tcx>) {
    let out_dir = match std::env::var("QVFACTS_OUT") {
        Ok(d) => d,
        Err(_) => return,
    };
    let krate = tcx.crate_name(LOCAL_CRATE).to_string();
    if krate.starts_with("build_script") {
        return;
    }
    let mut lines: Vec<String> = Vec::new();
    let crate_types: Vec<J> = tcx
        .crate_types()
        .iter()
        .map(|t| J::s(format!("{:?}", t)))
        .collect();
    lines.push(
        J::obj(vec![
            ("k", J::s("crate")),
            ("name", J::s(&krate)),
            ("types", J::Arr(crate_types)),
            ("is_test", J::Bool(tcx.sess.is_test_crate())),
        ])
        .to_string(),
    );

    // ADTs, impls, consts
    for id in tcx.hir_free_items() {
        let did = id.owner_id.to_def_id();
        match tcx.def_kind(did) {
            DefKind::Struct | DefKind::Enum | DefKind::Union => {
                lines.push(names::adt_fact(tcx, did).to_string());
            }
            DefKind::Impl { .. } => {
                lines.push(names::impl_fact(tcx, did).to_string());
            }
            DefKind::Const { .. } | DefKind::Static { .. } => {
                lines.push(names::const_fact(tcx, did).to_string());
            }
            _ => {}
        }
    }

    // bodies
    for ldid in tcx.hir_body_owners() {
        let did = ldid.to_def_id();
        let kind = tcx.def_kind(did);
        let is_fn = matches!(kind, DefKind::Fn | DefKind::AssocFn | DefKind::Closure);
        if !is_fn {
            continue;
        }
        let mut fields: Vec<(&str, J)> = Vec::new();
        fields.push(("k", J::s("fn")));
        fields.push(("crate", J::s(&krate)));
        fields.push(("key", J::s(names::key(tcx, did))));
        fields.push(("path", J::s(names::path(tcx, did))));
        fields.push(("kind", J::s(format!("{:?}", kind))));
        let span = tcx.def_span(did);
        let (file, line, _col) = names::loc(tcx, span);
        fields.push(("file", J::s(file)));
        fields.push(("line", J::n(line as i64)));
        fields.push(("from_expansion", J::Bool(span.from_expansion())));
        if matches!(kind, DefKind::Fn | DefKind::AssocFn) {
            fields.push(("vis", J::s(format!("{:?}", tcx.visibility(did)))));
            let parent = tcx.parent(did);
            if let DefKind::Impl { .. } = tcx.def_kind(parent) {
                fields.push(("impl", J::s(names::impl_desc(tcx, parent))));
                if let Some(tr) = names::impl_trait_key(tcx, parent) {
                    fields.push(("impl_trait", J::s(tr)));
                }
                if let Some(a) = names::impl_self_adt(tcx, parent) {
                    fields.push(("self_adt", J::s(a)));
                }
            }
            let attrs_derived = tcx.is_automatically_derived(parent);
            fields.push(("derived", J::Bool(attrs_derived)));
        }
        fields.push(("mir", mirx::body_fact(tcx, ldid)));
        fields.push(("hir", hirx::body_fact(tcx, ldid)));
        lines.push(J::obj(fields).to_string());
    }

    let path = format!("{}/{}.{}.jsonl", out_dir, krate, std::process::id());
    let mut buf = lines.join("\n");
    buf.push('\n');
    let mut f = std::fs::File::create(&path).expect("qvfacts: cannot create facts file");
    f.write_all(buf.as_bytes()).expect("qvfacts: write failed");
}

fn main() {
    let mut args: Vec<String> = std::env::args().collect();
    // RUSTC_WORKSPACE_WRAPPER passes the real rustc path as argv[1].
    if args.len() > 1 && (args[1].ends_with("rustc") || args[1].contains("/rustc")) {
        args.remove(1);
    }
    rustc_driver::run_compiler(&args, &mut Cb);
}
