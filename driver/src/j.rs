// Minimal JSON value + serializer (no dependencies).
use std::fmt;

pub enum J {
    Null,
    Bool(bool),
    Num(i128),
    Str(String),
    Arr(Vec<J>),
    Obj(Vec<(String, J)>),
}

impl J {
    pub fn s<S: AsRef<str>>(s: S) -> J {
        J::Str(s.as_ref().to_string())
    }
    pub fn n(n: i64) -> J {
        J::Num(n as i128)
    }
    pub fn big(n: i128) -> J {
        J::Num(n)
    }
    pub fn obj(v: Vec<(&str, J)>) -> J {
        J::Obj(v.into_iter().map(|(k, v)| (k.to_string(), v)).collect())
    }
    pub fn opt_s(o: Option<String>) -> J {
        match o {
            Some(s) => J::Str(s),
            None => J::Null,
        }
    }
}

fn esc(s: &str, out: &mut String) {
    out.push('"');
    for c in s.chars() {
        match c {
            '"' => out.push_str("\\\""),
            '\\' => out.push_str("\\\\"),
            '\n' => out.push_str("\\n"),
            '\r' => out.push_str("\\r"),
            '\t' => out.push_str("\\t"),
            c if (c as u32) < 0x20 => out.push_str(&format!("\\u{:04x}", c as u32)),
            c => out.push(c),
        }
    }
    out.push('"');
}

impl J {
    pub fn write(&self, out: &mut String) {
        match self {
            J::Null => out.push_str("null"),
            J::Bool(b) => out.push_str(if *b { "true" } else { "false" }),
            J::Num(n) => out.push_str(&n.to_string()),
            J::Str(s) => esc(s, out),
            J::Arr(v) => {
                out.push('[');
                for (i, x) in v.iter().enumerate() {
                    if i > 0 {
                        out.push(',');
                    }
                    x.write(out);
                }
                out.push(']');
            }
            J::Obj(v) => {
                out.push('{');
                for (i, (k, x)) in v.iter().enumerate() {
                    if i > 0 {
                        out.push(',');
                    }
                    esc(k, out);
                    out.push(':');
                    x.write(out);
                }
                out.push('}');
            }
        }
    }
}

impl fmt::Display for J {
    fn fmt(&self, f: &mut fmt::Formatter<'_>) -> fmt::Result {
        let mut s = String::new();
        self.write(&mut s);
        f.write_str(&s)
    }
}
