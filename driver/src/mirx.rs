// MIR facts: locals, blocks, statements, terminators (resolved callees, places with field owners).
use crate::j::J;
use crate::names::{key, path, span_j, ty_adt_key, ty_str};
use rustc_hir::def::DefKind;
use rustc_middle::mir::*;
use rustc_middle::ty::{self, Instance, Ty, TyCtxt, TypingEnv};
use rustc_span::def_id::LocalDefId;

pub fn body_fact<'tcx>(tcx: TyCtxt<'tcx>, ldid: LocalDefId) -> J {
    let did = ldid.to_def_id();
    if !tcx.is_mir_available(did) {
        return J::Null;
    }
    let body: &Body<'tcx> = tcx.optimized_mir(did);
    let mut o = one_body(tcx, body, ldid);
    // promoted constants
    let proms = tcx.promoted_mir(did);
    let mut pv = Vec::new();
    for p in proms.iter() {
        pv.push(one_body(tcx, p, ldid));
    }
    if let J::Obj(ref mut v) = o {
        v.push(("promoted".to_string(), J::Arr(pv)));
    }
    o
}

fn one_body<'tcx>(tcx: TyCtxt<'tcx>, body: &Body<'tcx>, owner: LocalDefId) -> J {
    let mut locals = Vec::new();
    // debug-info names
    let mut names: Vec<Option<String>> = vec![None; body.local_decls.len()];
    let mut upvar_names: Vec<J> = Vec::new();
    for vdi in body.var_debug_info.iter() {
        if let VarDebugInfoContents::Place(p) = &vdi.value {
            if p.projection.is_empty() {
                let i = p.local.as_usize();
                if names[i].is_none() {
                    names[i] = Some(vdi.name.to_string());
                }
            } else {
                // closure upvars: (*_1).N or _1.N
                upvar_names.push(J::obj(vec![
                    ("name", J::s(vdi.name.as_str())),
                    ("place", place_j(tcx, body, p)),
                ]));
            }
        }
    }
    for (i, d) in body.local_decls.iter_enumerated() {
        locals.push(J::obj(vec![
            ("i", J::n(i.as_usize() as i64)),
            ("ty", J::s(ty_str(d.ty))),
            ("adt", J::opt_s(ty_adt_key(tcx, d.ty))),
            ("name", J::opt_s(names[i.as_usize()].clone())),
            ("mut", J::Bool(d.mutability.is_mut())),
        ]));
    }
    let mut blocks = Vec::new();
    for (_bb, data) in body.basic_blocks.iter_enumerated() {
        let mut stmts = Vec::new();
        for st in data.statements.iter() {
            match &st.kind {
                StatementKind::Assign(b) => {
                    let (pl, rv) = &**b;
                    stmts.push(J::obj(vec![
                        ("k", J::s("assign")),
                        ("p", place_j(tcx, body, pl)),
                        ("rv", rvalue_j(tcx, body, rv)),
                        ("sp", span_j(tcx, st.source_info.span)),
                    ]));
                }
                StatementKind::SetDiscriminant { place, variant_index } => {
                    stmts.push(J::obj(vec![
                        ("k", J::s("setdiscr")),
                        ("p", place_j(tcx, body, place)),
                        ("v", J::n(variant_index.as_usize() as i64)),
                        ("sp", span_j(tcx, st.source_info.span)),
                    ]));
                }
                _ => {}
            }
        }
        let term = data.terminator();
        blocks.push(J::obj(vec![
            ("stmts", J::Arr(stmts)),
            ("term", term_j(tcx, body, term, owner)),
            ("cleanup", J::Bool(data.is_cleanup)),
        ]));
    }
    J::obj(vec![
        ("argc", J::n(body.arg_count as i64)),
        ("locals", J::Arr(locals)),
        ("upvars", J::Arr(upvar_names)),
        ("blocks", J::Arr(blocks)),
    ])
}

fn field_name_owner<'tcx>(
    tcx: TyCtxt<'tcx>,
    base_ty: Ty<'tcx>,
    variant: Option<rustc_abi::VariantIdx>,
    f: rustc_abi::FieldIdx,
) -> (String, Option<String>, Option<String>) {
    match base_ty.kind() {
        ty::Adt(def, _) => {
            let vidx = variant.unwrap_or(rustc_abi::FIRST_VARIANT);
            if vidx.as_usize() < def.variants().len() {
                let v = def.variant(vidx);
                if f.as_usize() < v.fields.len() {
                    let name = v.fields[f].name.to_string();
                    let vn = if def.is_enum() { Some(v.name.to_string()) } else { None };
                    return (name, Some(key(tcx, def.did())), vn);
                }
            }
            (f.as_usize().to_string(), Some(key(tcx, def.did())), None)
        }
        ty::Closure(did, _) => (f.as_usize().to_string(), Some(format!("closure:{}", key(tcx, *did))), None),
        _ => (f.as_usize().to_string(), None, None),
    }
}

pub fn place_j<'tcx>(tcx: TyCtxt<'tcx>, body: &Body<'tcx>, p: &Place<'tcx>) -> J {
    let mut proj = Vec::new();
    let mut pty = rustc_middle::mir::PlaceTy::from_ty(body.local_decls[p.local].ty);
    for elem in p.projection.iter() {
        match elem {
            ProjectionElem::Deref => proj.push(J::Arr(vec![J::s("*")])),
            ProjectionElem::Field(f, _) => {
                let (name, owner, vn) = field_name_owner(tcx, pty.ty, pty.variant_index, f);
                proj.push(J::Arr(vec![
                    J::s("f"),
                    J::s(name),
                    J::opt_s(owner),
                    J::opt_s(vn),
                    J::n(f.as_usize() as i64),
                ]));
            }
            ProjectionElem::Downcast(name, vidx) => {
                let n = match name {
                    Some(s) => s.to_string(),
                    None => vidx.as_usize().to_string(),
                };
                proj.push(J::Arr(vec![J::s("d"), J::s(n), J::n(vidx.as_usize() as i64)]));
            }
            ProjectionElem::Index(l) => proj.push(J::Arr(vec![J::s("i"), J::n(l.as_usize() as i64)])),
            ProjectionElem::ConstantIndex { offset, from_end, .. } => {
                proj.push(J::Arr(vec![J::s("c"), J::n(offset as i64), J::Bool(from_end)]))
            }
            ProjectionElem::Subslice { from, to, from_end } => {
                proj.push(J::Arr(vec![J::s("s"), J::n(from as i64), J::n(to as i64), J::Bool(from_end)]))
            }
            _ => proj.push(J::Arr(vec![J::s("o")])),
        }
        pty = pty.projection_ty(tcx, elem);
    }
    J::obj(vec![("l", J::n(p.local.as_usize() as i64)), ("pr", J::Arr(proj))])
}

fn const_j<'tcx>(tcx: TyCtxt<'tcx>, c: &ConstOperand<'tcx>) -> J {
    let ty = c.const_.ty();
    let mut fields = vec![("c", J::s("const")), ("ty", J::s(ty_str(ty)))];
    match ty.kind() {
        ty::FnDef(did, _args) => {
            fields.push(("fn", J::s(key(tcx, *did))));
        }
        ty::Closure(did, _) => {
            fields.push(("closure", J::s(key(tcx, *did))));
        }
        _ => {}
    }
    // scalar value if cheaply available
    let mut text = crate::names::printed(|| format!("{}", c.const_));
    if text.len() > 200 {
        text.truncate(200);
    }
    fields.push(("text", J::s(text)));
    if ty.is_integral() || ty.is_bool() || ty.is_char() {
        if let Some(sc) = c.const_.try_eval_scalar_int(tcx, TypingEnv::fully_monomorphized()) {
            let size = sc.size();
            let v: i128 = if ty.is_signed() {
                sc.to_int(size)
            } else {
                let u = sc.to_uint(size);
                if u > i128::MAX as u128 { i128::MAX } else { u as i128 }
            };
            fields.push(("val", J::big(v)));
        }
    }
    // promoted reference?
    if let Const::Unevaluated(uv, _) = c.const_ {
        if let Some(p) = uv.promoted {
            fields.push(("promoted", J::n(p.as_usize() as i64)));
        } else {
            fields.push(("def", J::s(key(tcx, uv.def))));
        }
    }
    J::obj(fields)
}

pub fn operand_j<'tcx>(tcx: TyCtxt<'tcx>, body: &Body<'tcx>, op: &Operand<'tcx>) -> J {
    match op {
        Operand::Copy(p) => J::obj(vec![("c", J::s("copy")), ("p", place_j(tcx, body, p))]),
        Operand::Move(p) => J::obj(vec![("c", J::s("move")), ("p", place_j(tcx, body, p))]),
        Operand::Constant(c) => const_j(tcx, c),
        #[allow(unreachable_patterns)]
        _ => J::obj(vec![("c", J::s("other"))]),
    }
}

fn rvalue_j<'tcx>(tcx: TyCtxt<'tcx>, body: &Body<'tcx>, rv: &Rvalue<'tcx>) -> J {
    match rv {
        Rvalue::Use(op, ..) => J::obj(vec![("k", J::s("use")), ("op", operand_j(tcx, body, op))]),
        Rvalue::Ref(_, bk, p) => J::obj(vec![
            ("k", J::s("ref")),
            ("mut", J::Bool(matches!(bk, BorrowKind::Mut { .. }))),
            ("p", place_j(tcx, body, p)),
        ]),
        Rvalue::RawPtr(_, p) => J::obj(vec![("k", J::s("rawptr")), ("p", place_j(tcx, body, p))]),
        Rvalue::Cast(ck, op, ty) => J::obj(vec![
            ("k", J::s("cast")),
            ("ck", J::s(format!("{:?}", ck))),
            ("op", operand_j(tcx, body, op)),
            ("from", J::s(ty_str(op.ty(&body.local_decls, tcx)))),
            ("to", J::s(ty_str(*ty))),
        ]),
        Rvalue::BinaryOp(op, b) => {
            let (l, r) = &**b;
            J::obj(vec![
                ("k", J::s("bin")),
                ("op", J::s(format!("{:?}", op))),
                ("l", operand_j(tcx, body, l)),
                ("r", operand_j(tcx, body, r)),
                ("lty", J::s(ty_str(l.ty(&body.local_decls, tcx)))),
            ])
        }
        Rvalue::UnaryOp(op, x) => J::obj(vec![
            ("k", J::s("un")),
            ("op", J::s(format!("{:?}", op))),
            ("x", operand_j(tcx, body, x)),
        ]),
        Rvalue::Discriminant(p) => {
            let pty = p.ty(&body.local_decls, tcx).ty;
            J::obj(vec![
                ("k", J::s("discr")),
                ("p", place_j(tcx, body, p)),
                ("adt", J::opt_s(ty_adt_key(tcx, pty))),
            ])
        }
        Rvalue::Aggregate(kind, ops) => {
            let opsj: Vec<J> = ops.iter().map(|o| operand_j(tcx, body, o)).collect();
            match &**kind {
                AggregateKind::Adt(did, vidx, _args, _, _) => {
                    let def = tcx.adt_def(*did);
                    let v = def.variant(*vidx);
                    let fnames: Vec<J> = v.fields.iter().map(|f| J::s(f.name.as_str())).collect();
                    J::obj(vec![
                        ("k", J::s("agg")),
                        ("kind", J::s("adt")),
                        ("adt", J::s(key(tcx, *did))),
                        ("variant", J::s(v.name.as_str())),
                        ("fields", J::Arr(fnames)),
                        ("ops", J::Arr(opsj)),
                    ])
                }
                AggregateKind::Tuple => J::obj(vec![("k", J::s("agg")), ("kind", J::s("tuple")), ("ops", J::Arr(opsj))]),
                AggregateKind::Array(_) => J::obj(vec![("k", J::s("agg")), ("kind", J::s("array")), ("ops", J::Arr(opsj))]),
                AggregateKind::Closure(did, _) => J::obj(vec![
                    ("k", J::s("agg")),
                    ("kind", J::s("closure")),
                    ("closure", J::s(key(tcx, *did))),
                    ("ops", J::Arr(opsj)),
                ]),
                _ => J::obj(vec![("k", J::s("agg")), ("kind", J::s("other")), ("ops", J::Arr(opsj))]),
            }
        }
        Rvalue::Repeat(op, _) => J::obj(vec![("k", J::s("repeat")), ("op", operand_j(tcx, body, op))]),
        Rvalue::CopyForDeref(p) => J::obj(vec![
            ("k", J::s("use")),
            ("op", J::obj(vec![("c", J::s("copy")), ("p", place_j(tcx, body, p))])),
        ]),
        _ => J::obj(vec![("k", J::s("other")), ("text", J::s(format!("{:?}", rv)))]),
    }
}

fn assert_kind<'tcx>(tcx: TyCtxt<'tcx>, body: &Body<'tcx>, msg: &AssertMessage<'tcx>) -> (String, Vec<J>) {
    match msg {
        AssertKind::BoundsCheck { len, index } => (
            "bounds".to_string(),
            vec![operand_j(tcx, body, len), operand_j(tcx, body, index)],
        ),
        AssertKind::Overflow(op, a, b) => (
            format!("overflow:{:?}", op),
            vec![operand_j(tcx, body, a), operand_j(tcx, body, b)],
        ),
        AssertKind::OverflowNeg(a) => ("overflow:Neg".to_string(), vec![operand_j(tcx, body, a)]),
        AssertKind::DivisionByZero(a) => ("divzero".to_string(), vec![operand_j(tcx, body, a)]),
        AssertKind::RemainderByZero(a) => ("remzero".to_string(), vec![operand_j(tcx, body, a)]),
        other => (format!("other:{:?}", std::mem::discriminant(other)), vec![]),
    }
}

fn term_j<'tcx>(tcx: TyCtxt<'tcx>, body: &Body<'tcx>, term: &Terminator<'tcx>, owner: LocalDefId) -> J {
    let sp = span_j(tcx, term.source_info.span);
    match &term.kind {
        TerminatorKind::Goto { target } => J::obj(vec![("k", J::s("goto")), ("t", J::n(target.as_usize() as i64))]),
        TerminatorKind::SwitchInt { discr, targets } => {
            let mut ts = Vec::new();
            for (v, bb) in targets.iter() {
                let vv: i128 = if v > i128::MAX as u128 { -1 } else { v as i128 };
                ts.push(J::Arr(vec![J::big(vv), J::n(bb.as_usize() as i64)]));
            }
            J::obj(vec![
                ("k", J::s("switch")),
                ("op", operand_j(tcx, body, discr)),
                ("ty", J::s(ty_str(discr.ty(&body.local_decls, tcx)))),
                ("targets", J::Arr(ts)),
                ("otherwise", J::n(targets.otherwise().as_usize() as i64)),
                ("sp", sp),
            ])
        }
        TerminatorKind::Return => J::obj(vec![("k", J::s("return")), ("sp", sp)]),
        TerminatorKind::Unreachable => J::obj(vec![("k", J::s("unreachable"))]),
        TerminatorKind::UnwindResume | TerminatorKind::UnwindTerminate(_) => J::obj(vec![("k", J::s("resume"))]),
        TerminatorKind::Drop { place, target, .. } => J::obj(vec![
            ("k", J::s("drop")),
            ("p", place_j(tcx, body, place)),
            ("t", J::n(target.as_usize() as i64)),
            ("sp", sp),
        ]),
        TerminatorKind::Assert { cond, expected, msg, target, .. } => {
            let (kind, ops) = assert_kind(tcx, body, msg);
            J::obj(vec![
                ("k", J::s("assert")),
                ("cond", operand_j(tcx, body, cond)),
                ("expected", J::Bool(*expected)),
                ("msg", J::s(kind)),
                ("ops", J::Arr(ops)),
                ("t", J::n(target.as_usize() as i64)),
                ("sp", sp),
            ])
        }
        TerminatorKind::Call { func, args, destination, target, .. } => {
            let mut f: Vec<(&str, J)> = vec![("k", J::s("call"))];
            let fty = func.ty(&body.local_decls, tcx);
            match fty.kind() {
                ty::FnDef(did, gargs) => {
                    f.push(("callee", J::s(key(tcx, *did))));
                    f.push(("callee_path", J::s(path(tcx, *did))));
                    f.push(("gargs", J::s(crate::names::printed(|| format!("{:?}", gargs)))));
                    // trait method?
                    if let Some(tr) = tcx.trait_of_assoc(*did) {
                        f.push(("trait", J::s(key(tcx, tr))));
                        if let Some(self_ty) = gargs.types().next() {
                            f.push(("self_ty", J::s(ty_str(self_ty))));
                            f.push(("self_adt", J::opt_s(ty_adt_key(tcx, self_ty))));
                        }
                        // resolve to impl if possible
                        let env = TypingEnv::post_analysis(tcx, owner.to_def_id());
                        if let Ok(Some(inst)) = Instance::try_resolve(tcx, env, *did, gargs) {
                            let rdid = inst.def_id();
                            if rdid != *did {
                                f.push(("resolved", J::s(key(tcx, rdid))));
                                f.push(("resolved_local", J::Bool(rdid.is_local())));
                            }
                        }
                    } else {
                        // inherent method: self type = type of parent impl
                        let parent = tcx.parent(*did);
                        if let DefKind::Impl { .. } = tcx.def_kind(parent) {
                            let st = tcx.type_of(parent).instantiate(tcx, gargs).skip_norm_wip();
                            f.push(("self_ty", J::s(ty_str(st))));
                            f.push(("self_adt", J::opt_s(ty_adt_key(tcx, st))));
                        }
                    }
                    f.push(("local", J::Bool(did.is_local())));
                }
                _ => {
                    f.push(("callee", J::Null));
                    f.push(("fn_op", operand_j(tcx, body, func)));
                    f.push(("fn_ty", J::s(ty_str(fty))));
                }
            }
            let a: Vec<J> = args.iter().map(|s| operand_j(tcx, body, &s.node)).collect();
            f.push(("args", J::Arr(a)));
            f.push(("dest", place_j(tcx, body, destination)));
            f.push(("t", match target {
                Some(t) => J::n(t.as_usize() as i64),
                None => J::Null,
            }));
            f.push(("sp", sp));
            J::obj(f)
        }
        TerminatorKind::TailCall { .. } => J::obj(vec![("k", J::s("tailcall")), ("sp", sp)]),
        TerminatorKind::Yield { .. } | TerminatorKind::CoroutineDrop => J::obj(vec![("k", J::s("coroutine"))]),
        TerminatorKind::FalseEdge { real_target, .. } => {
            J::obj(vec![("k", J::s("goto")), ("t", J::n(real_target.as_usize() as i64))])
        }
        TerminatorKind::FalseUnwind { real_target, .. } => {
            J::obj(vec![("k", J::s("goto")), ("t", J::n(real_target.as_usize() as i64))])
        }
        TerminatorKind::InlineAsm { .. } => J::obj(vec![("k", J::s("asm"))]),
    }
}
