#!/usr/bin/env python3
"""qv — static-analysis checks for the quiver properties.

  python3 qv.py check C06 [--tier quick|thorough] [--no-cache]
  python3 qv.py extract            # (re)build the driver and extract facts for /repo's current tree
  python3 qv.py replay <file>      # print a recorded violation
  python3 qv.py selftest C06       # thorough tier only: seeded one-instance mutants on a scratch copy

exit 0: every obligation discharged (known findings are printed, not failed)
exit 1: at least one violated obligation; prints  VIOLATION property=<id> replay=<path>
exit 2: CHECK-ERROR — the check cannot decide (missing anchor, count below floor, tree does not compile)
"""
import argparse
import importlib
import json
import os
import sys
import time
import traceback

sys.path.insert(0, os.path.dirname(os.path.abspath(__file__)))

from qvlib import core, extract  # noqa: E402
from qvlib.extract import CheckError  # noqa: E402
from qvlib.facts import Facts  # noqa: E402

CLAIMED = ["C01", "C02", "C04", "C05", "C06", "C07", "C08", "C09", "C10", "C11", "C12", "C13", "C14", "C15", "C16", "C18"]


def run_check(prop, tier, no_cache=False, repo=None, quiet=False):
    seed = int(os.environ.get("VERIF_SEED", "0") or 0)
    t0 = time.time()
    try:
        if prop not in CLAIMED:
            raise CheckError("property %s is not claimed (see MANIFEST.json not_applicable)" % prop)
        fdir = extract.extract(repo=repo, no_cache=no_cache or (tier == "thorough" and os.environ.get("QV_REUSE") != "1"))
        mod = importlib.import_module("rules." + prop.lower())
        facts = Facts(fdir, crates=getattr(mod, "CRATES", None))
        ctx = core.Ctx(prop, tier, facts, seed)
        explanation, level_rule = mod.run(ctx)
        rc = ctx.finish(explanation, level_rule)
        if tier == "thorough" and rc == 0 and os.environ.get("QV_NO_SELFTEST") != "1":
            from qvlib import selftest
            rc = selftest.run(prop, ctx)
        return rc
    except CheckError as e:
        msg = str(e)
        print("CHECK-ERROR property=%s: %s" % (prop, msg))
        core.write_error_evidence(prop, tier, seed, msg, round(time.time() - t0, 3))
        return 2
    except Exception:
        msg = traceback.format_exc()
        print("CHECK-ERROR property=%s: internal error\n%s" % (prop, msg))
        core.write_error_evidence(prop, tier, seed, "internal error: " + msg[-1500:], round(time.time() - t0, 3))
        return 2


def main():
    ap = argparse.ArgumentParser()
    sub = ap.add_subparsers(dest="cmd", required=True)
    c = sub.add_parser("check")
    c.add_argument("prop")
    c.add_argument("--tier", default=os.environ.get("VERIF_TIER") or "quick", choices=["quick", "thorough"])
    c.add_argument("--no-cache", action="store_true")
    c.add_argument("--repo", default=None)
    sub.add_parser("extract")
    r = sub.add_parser("replay")
    r.add_argument("file")
    a = sub.add_parser("all")
    a.add_argument("--tier", default="quick")
    a.add_argument("--repo", default=None)
    args = ap.parse_args()
    if args.cmd == "check":
        sys.exit(run_check(args.prop.upper(), args.tier, args.no_cache, args.repo))
    if args.cmd == "extract":
        try:
            extract.build_driver()
            d = extract.extract(no_cache=True)
            print("facts:", d, json.load(open(os.path.join(d, "COMPLETE.json"))))
        except CheckError as e:
            print("CHECK-ERROR:", e)
            sys.exit(2)
        return
    if args.cmd == "replay":
        o = json.load(open(args.file))
        v = o["violation"]
        print("property %s  rule %s\n  %s\n  site: %s\n  at:   %s\n  why:  %s" % (
            o["property"], v["rule"], o.get("rule_text"), v["site"], v.get("loc"), v["why"]))
        if v.get("detail") is not None:
            print("  detail:", json.dumps(v["detail"], indent=1)[:4000])
        return
    if args.cmd == "all":
        worst = 0
        for p in CLAIMED:
            rc = run_check(p, args.tier, False, args.repo)
            worst = max(worst, rc)
        sys.exit(worst)


if __name__ == "__main__":
    main()
