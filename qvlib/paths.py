"""Path-sensitive-lite exploration over MIR CFGs, canonical places, value-flow closure."""
from collections import defaultdict

from .facts import op_local, op_place, place_str

IDENTITY_CALLS = (
    "Deref::deref", "DerefMut::deref_mut", "AsRef::as_ref", "AsMut::as_mut", "Borrow::borrow", "BorrowMut::borrow_mut",
    "Option::as_ref", "Option::as_mut", "Option::as_deref", "Option::as_deref_mut", "Into::into", "From::from",
)


COLLECTION_INSERT = ("Vec::push", "VecDeque::push_back", "VecDeque::push_front", "Vec::insert", "Vec::extend", "Extend::extend", "Vec::append")


def callee_in(callee, names):
    """callee key equals one of names or ends with ::<name>"""
    if not callee:
        return False
    for n in names:
        if callee == n or callee.endswith("::" + n):
            return True
    return False


def call_matches(t, names):
    return callee_in(t.get("callee"), names) or callee_in(t.get("resolved"), names)


def proj_canon(pr):
    out = []
    for e in pr:
        if e[0] == "*":
            continue
        if e[0] == "f":
            out.append(("f", e[1], e[2]))
        elif e[0] == "d":
            out.append(("d", e[1]))
        elif e[0] == "i":
            out.append(("i",))
        elif e[0] == "c":
            out.append(("c", e[1]))
        else:
            out.append(("o",))
    return tuple(out)


class Flow:
    """Def-use helpers for one Body."""

    def __init__(self, body, through_named=False):
        self.b = body
        self.defs = body.defs()
        self._canon = {}
        self.through_named = through_named
        # single-definition tuple aggregates: T -> [operand local or None]; lets `x = T.i` flow from the i-th operand only
        self.tuples = {}
        for l, ds in self.defs.items():
            if len(ds) == 1 and ds[0][1] != "term":
                rv = ds[0][2]["rv"]
                if rv["k"] == "agg" and (rv.get("kind") == "tuple" or (rv.get("kind") == "adt" and rv.get("variant") == (rv.get("adt") or "").split("::")[-1])):
                    # tuples and plain struct literals (variant name == type name): operands in field order
                    self.tuples[l] = [(op_place(o) or {}).get("l") if not (op_place(o) or {}).get("pr") else None for o in rv["ops"]]

    def src_locals(self, rv):
        """source locals of an rvalue, field-sensitive for projections of locally built tuples"""
        k = rv["k"]
        p = None
        if k in ("use", "cast", "repeat"):
            p = op_place(rv["op"])
        elif k in ("ref", "rawptr", "discr"):
            p = rv["p"]
        if p is not None:
            base = p["l"]
            if base not in self.tuples and p["pr"] and p["pr"][0][0] == "*":
                # a field read through a reference to a locally built tuple / struct: `(*r).f` with `r = &t`
                c = self.canon_local(base)
                if not c[1] and c[0] in self.tuples:
                    base = c[0]
            if base in self.tuples:
                fs = [e for e in p["pr"] if e[0] != "*"]
                if fs and fs[0][0] == "f":
                    idx = fs[0][4] if len(fs[0]) > 4 else None
                    ops = self.tuples[base]
                    if idx is not None and idx < len(ops) and ops[idx] is not None:
                        return [ops[idx]]
        return rv_source_locals(rv)

    # -------------------------------------------------------------- canonical places
    def canon_local(self, l, depth=0):
        """(root local, projection tuple) after following single-definition temporaries through copies/refs."""
        if l in self._canon:
            return self._canon[l]
        res = (l, ())
        if depth < 12 and l > self.b.mir["argc"] and (self.through_named or not self.b.local_name(l)):
            ds = self.defs.get(l, [])
            if len(ds) == 1:
                _bi, si, d = ds[0]
                if si != "term":
                    rv = d["rv"]
                    src = None
                    if rv["k"] == "use":
                        src = op_place(rv["op"])
                    elif rv["k"] in ("ref", "rawptr"):
                        src = rv["p"]
                    elif rv["k"] == "cast" and rv.get("ck", "").startswith("PtrToPtr"):
                        src = op_place(rv["op"])
                    if src is not None:
                        res = self.canon_place(src, depth + 1)
                else:
                    if callee_in(d.get("callee"), IDENTITY_CALLS) and d["args"]:
                        src = op_place(d["args"][0])
                        if src is not None:
                            res = self.canon_place(src, depth + 1)
        self._canon[l] = res
        return res

    def canon_place(self, p, depth=0):
        root, pr0 = self.canon_local(p["l"], depth)
        return (root, pr0 + proj_canon(p["pr"]))

    def canon_op(self, o):
        p = op_place(o)
        if p is None:
            return None
        return self.canon_place(p)

    def canon_str(self, c):
        if c is None:
            return "?"
        root, pr = c
        s = self.b.local_name(root) or "_%d" % root
        for e in pr:
            if e[0] == "f":
                s += "." + e[1]
            elif e[0] == "d":
                s += " as " + e[1]
            elif e[0] == "i":
                s += "[_]"
            elif e[0] == "c":
                s += "[%d]" % e[1]
        return s

    def field_path(self, c):
        """names of field projections of a canonical place"""
        return [e[1] for e in c[1] if e[0] == "f"]

    def ends_with_field(self, c, owner_suffix, field):
        fs = [e for e in c[1] if e[0] == "f"]
        return bool(fs) and fs[-1][1] == field and (fs[-1][2] or "").endswith(owner_suffix)

    def mentions_field(self, c, owner_suffix, field):
        return any(e[0] == "f" and e[1] == field and (e[2] or "").endswith(owner_suffix) for e in c[1])

    # -------------------------------------------------------------- forward value flow
    def forward(self, seeds, through_calls=None, max_iter=50):
        """Set of locals that (may) hold the value (or a part / a container) of the seed locals.
        Flows through copies, moves, refs, field projections (both ways: part-of), aggregates,
        casts, and the adaptor calls in `through_calls` (callee key -> True)."""
        through = tuple(IDENTITY_CALLS) + tuple(through_calls or ())
        seen = set(seeds)
        changed = True
        it = 0
        while changed and it < max_iter:
            changed = False
            it += 1
            for bi, si, s in self.b.stmts():
                if s["k"] != "assign":
                    continue
                dst = s["p"]["l"]
                rv = s["rv"]
                srcs = self.src_locals(rv)
                if dst not in seen and any(x in seen for x in srcs):
                    seen.add(dst)
                    changed = True
            for bi, t in self.b.calls():
                dst = t["dest"]["l"]
                if call_matches(t, COLLECTION_INSERT) and len(t["args"]) >= 2:
                    if any((op_place(a) or {}).get("l") in seen for a in t["args"][1:]):
                        c = self.canon_op(t["args"][0])
                        if c is not None and c[0] not in seen:
                            seen.add(c[0])
                            changed = True
                if dst in seen:
                    continue
                if call_matches(t, through):
                    if any((op_place(a) or {}).get("l") in seen for a in t["args"]):
                        seen.add(dst)
                        changed = True
        return seen

    def backward(self, seeds, through_calls=None, max_iter=50):
        """Set of locals the seed locals' values may come from."""
        through = tuple(IDENTITY_CALLS) + tuple(through_calls or ())
        seen = set(seeds)
        changed = True
        it = 0
        while changed and it < max_iter:
            changed = False
            it += 1
            for _bi, t in self.b.calls():
                if call_matches(t, COLLECTION_INSERT) and len(t["args"]) >= 2:
                    c = self.canon_op(t["args"][0])
                    if c is not None and c[0] in seen:
                        for a in t["args"][1:]:
                            p = op_place(a)
                            if p and p["l"] not in seen:
                                seen.add(p["l"])
                                changed = True
            for l in list(seen):
                for _bi, si, d in self.defs.get(l, []):
                    if si == "term":
                        if call_matches(d, through):
                            for a in d["args"]:
                                p = op_place(a)
                                if p and p["l"] not in seen:
                                    seen.add(p["l"])
                                    changed = True
                    else:
                        for x in self.src_locals(d["rv"]):
                            if x not in seen:
                                seen.add(x)
                                changed = True
        return seen

    def slice_reads(self, l, through_calls=None):
        """(fields, downcasts, consts, callees) read anywhere in the backward slice of local l:
        fields = {(owner adt, field)}, downcasts = {variant}, consts = [const operands], callees = {callee key of non-through calls}."""
        through = tuple(IDENTITY_CALLS) + tuple(through_calls or ())
        locs = self.backward({l}, through_calls=through_calls)
        fields, downs, consts, callees = set(), set(), [], set()

        def place(p):
            for e in p["pr"]:
                if e[0] == "f":
                    fields.add((e[2], e[1]))
                elif e[0] == "d":
                    downs.add(e[1])

        def operand(o):
            if not o:
                return
            if o.get("c") == "const":
                consts.append(o)
            elif o.get("p"):
                place(o["p"])
        for x in locs:
            for _bi, si, d in self.defs.get(x, []):
                if si == "term":
                    if not call_matches(d, through):
                        callees.add(d.get("callee") or "indirect")
                    else:
                        for a in d["args"]:
                            operand(a)
                else:
                    rv = d["rv"]
                    if rv["k"] in ("ref", "rawptr", "discr"):
                        place(rv["p"])
                    for key in ("op", "l", "r", "x"):
                        if isinstance(rv.get(key), dict):
                            operand(rv[key])
                    for o in rv.get("ops", []) or []:
                        operand(o)
        return fields, downs, consts, callees

    def sources(self, l, through_calls=None, stop_at_agg=False):
        """Terminal definitions reached by the backward slice of local l:
        list of ('arg', local) | ('call', block, term) | ('const', op) | ('rv', block, stmt)"""
        through = tuple(IDENTITY_CALLS) + tuple(through_calls or ())
        out = []
        seen = set()
        work = [l]
        while work:
            x = work.pop()
            if x in seen:
                continue
            seen.add(x)
            if 0 < x <= self.b.mir["argc"]:
                out.append(("arg", x))
                continue
            ds = self.defs.get(x, [])
            if not ds:
                out.append(("undef", x))
            for bi, si, d in ds:
                if si == "term":
                    if call_matches(d, through):
                        for a in d["args"]:
                            p = op_place(a)
                            if p:
                                work.append(p["l"])
                            elif a.get("c") == "const":
                                out.append(("const", a))
                    else:
                        out.append(("call", bi, d))
                else:
                    rv = d["rv"]
                    srcs = self.src_locals(rv)
                    consts = rv_const_ops(rv)
                    if stop_at_agg and rv["k"] == "agg":
                        out.append(("rv", bi, d))
                    elif rv["k"] in ("use", "ref", "cast", "agg", "rawptr", "repeat"):
                        work.extend(srcs)
                        for c in consts:
                            out.append(("const", c))
                        if not srcs and not consts:
                            out.append(("rv", bi, d))
                    else:
                        out.append(("rv", bi, d))
        return out


def rv_source_locals(rv):
    k = rv["k"]
    out = []
    if k in ("use", "cast", "repeat"):
        p = op_place(rv["op"])
        if p:
            out.append(p["l"])
    elif k in ("ref", "rawptr", "discr"):
        out.append(rv["p"]["l"])
    elif k == "agg":
        for o in rv["ops"]:
            p = op_place(o)
            if p:
                out.append(p["l"])
    elif k == "bin":
        for o in (rv["l"], rv["r"]):
            p = op_place(o)
            if p:
                out.append(p["l"])
    elif k == "un":
        p = op_place(rv["x"])
        if p:
            out.append(p["l"])
    return out


def rv_const_ops(rv):
    k = rv["k"]
    ops = []
    if k in ("use", "cast", "repeat"):
        ops = [rv["op"]]
    elif k == "agg":
        ops = rv["ops"]
    elif k == "bin":
        ops = [rv["l"], rv["r"]]
    elif k == "un":
        ops = [rv["x"]]
    return [o for o in ops if o.get("c") == "const"]


# ---------------------------------------------------------------------- Ok / Err return classification
def err_blocks(body):
    """Blocks that write the return place as an error: `_0 = from_residual(..)` or `_0 = Err(..)` / `_0 = Break(..)`."""
    out = set()
    # the return places: the function's own, and that of every helper inlined into it (an error return of an inlined helper is an error path of
    # the call that was there; the caller either propagates it or handles it on a path that, before inlining, did not see the helper's inside)
    rets = {0} | {l["i"] for l in body.locals if l.get("inl_ret")}
    for bi, t in body.calls():
        if t["dest"]["l"] in rets and not t["dest"]["pr"] and (t.get("callee") or "").endswith("FromResidual::from_residual"):
            out.add(bi)
    for bi, si, s in body.stmts():
        if s["k"] == "assign" and s["p"]["l"] in rets and not s["p"]["pr"]:
            rv = s["rv"]
            if rv["k"] == "agg" and rv.get("kind") == "adt" and rv.get("variant") in ("Err",):
                out.add(bi)
    return out


def diverging_blocks(body):
    """Blocks ending in a call that never returns (panic!, unreachable!, …) or `unreachable`."""
    out = set()
    for i, b in enumerate(body.blocks):
        if b.get("cleanup"):
            continue
        t = b["term"]
        if t["k"] == "call" and t.get("t") is None:
            out.add(i)
        if t["k"] == "unreachable":
            out.add(i)
    return out


# ---------------------------------------------------------------------- exploration with constant threading
KNOWN_DISCR = {"None": 0, "Some": 1, "Ok": 0, "Err": 1, "Continue": 0, "Break": 1}


def explore(body, starts, avoid=(), stop=(), env=None, exempt_edges=(), want="return", targets=(), limit=200000, force=None, flow=None, track=None):
    """Depth-first search over (block, known-constant locals).

    starts        : iterable of blocks entered at their top (or (block, env) pairs)
    avoid         : blocks that may not be entered (the 'event' we want on every path)
    stop          : blocks at which a path is considered fine (e.g. error returns)
    exempt_edges  : (from, to) edges not followed
    want          : 'return' -> find a path to a Return terminator; 'target' -> find a path to a block in `targets`
    Returns a witness path (list of blocks) or None.
    Bool/int locals assigned constants are threaded through switches so that
    `tmp = true; if tmp {..}` and drop-flag diamonds do not create infeasible paths.
    """
    avoid = set(avoid)
    stop = set(stop)
    exempt_edges = set(exempt_edges)
    targets = set(targets)
    switch_locals = set()
    for b in body.blocks:
        t = b["term"]
        if t["k"] == "switch":
            l = op_local(t["op"])
            if l is not None:
                switch_locals.add(l)
    # copy sources of switch locals matter too
    interesting = set(switch_locals)
    for _ in range(3):
        for _bi, _si, s in body.stmts():
            if s["k"] == "assign" and not s["p"]["pr"] and s["p"]["l"] in interesting:
                rv = s["rv"]
                if rv["k"] == "use":
                    l = op_local(rv["op"])
                    if l is not None:
                        interesting.add(l)
                elif rv["k"] == "un":
                    l = op_local(rv["x"])
                    if l is not None:
                        interesting.add(l)
    if track is not None:
        track = set(track)
    stack = []
    for s in starts:
        if isinstance(s, tuple):
            stack.append((s[0], frozenset((s[1] or {}).items()), (s[0],)))
        else:
            stack.append((s, frozenset((env or {}).items()), (s,)))
    seen = set()
    steps = 0
    while stack:
        bi, fenv, path = stack.pop()
        if bi in avoid:
            continue
        if (bi, fenv) in seen:
            continue
        seen.add((bi, fenv))
        steps += 1
        if steps > limit:
            return path  # give up conservatively: report
        if want == "target" and bi in targets:
            return list(path)
        if bi in stop:
            continue
        blk = body.blocks[bi]
        if blk.get("cleanup"):
            continue
        e = dict(fenv)
        for si_, s in enumerate(blk["stmts"]):
            if s["k"] != "assign":
                continue
            if s["p"]["pr"]:
                continue
            l = s["p"]["l"]
            rv = s["rv"]
            val = None
            if force and (bi, si_) in force:
                e[l] = force[(bi, si_)]
                interesting.add(l)
                continue
            if track is not None and l not in track:
                if rv["k"] == "discr" and rv["p"]["l"] in track:
                    track.add(l)
                elif rv["k"] == "use" and op_local(rv["op"]) in track:
                    track.add(l)
                else:
                    e.pop(l, None)
                    e.pop(("d", l), None)
                    continue
            if rv["k"] == "agg" and rv.get("kind") == "adt" and rv.get("variant") in KNOWN_DISCR and (
                    rv["adt"].endswith("option::Option") or rv["adt"].endswith("result::Result") or rv["adt"].endswith("ControlFlow")):
                e[("d", l)] = KNOWN_DISCR[rv["variant"]]
                e.pop(l, None)
                continue
            if rv["k"] == "discr" and not [x for x in rv["p"]["pr"] if x[0] != "*"]:
                src = rv["p"]["l"]
                if flow is not None and ("d", src) not in e:
                    src = flow.canon_local(src)[0] if not flow.canon_local(src)[1] else src
                if ("d", src) in e:
                    e[l] = e[("d", src)]
                    interesting.add(l)
                    continue
            if rv["k"] == "use":
                o = rv["op"]
                if o.get("c") == "const" and "val" in o:
                    val = o["val"]
                else:
                    m = op_local(o)
                    if m is not None and m in e:
                        val = e[m]
                    if m is not None and ("d", m) in e:
                        e[("d", l)] = e[("d", m)]
                    else:
                        e.pop(("d", l), None)
            elif rv["k"] == "un" and rv["op"] == "Not":
                m = op_local(rv["x"])
                if m is not None and m in e and e[m] in (0, 1):
                    val = 1 - e[m]
            if val is not None and l in interesting:
                e[l] = val
            else:
                e.pop(l, None)
        t = blk["term"]
        k = t["k"]
        if k == "return":
            if want == "return":
                return list(path)
            continue
        if k == "call":
            d = t["dest"]
            cal = t.get("callee") or ""
            # `?` on a value whose variant is known: Some/Ok -> Continue, None/Err -> Break
            br = None
            if cal.endswith("Try::branch") and t["args"] and not d["pr"]:
                a0 = op_place(t["args"][0])
                if a0 is not None and not a0["pr"]:
                    src = a0["l"]
                    if ("d", src) not in e and flow is not None and not flow.canon_local(src)[1]:
                        src = flow.canon_local(src)[0]
                    if ("d", src) in e:
                        ty = body.local_ty(a0["l"]) or ""
                        if "option::Option<" in ty:
                            br = 0 if e[("d", src)] == 1 else 1
                        elif "result::Result<" in ty:
                            br = 0 if e[("d", src)] == 0 else 1
            e.pop(d["l"], None)
            e.pop(("d", d["l"]), None)
            if br is not None:
                e[("d", d["l"])] = br
            if force and ("d", d["l"]) in force and not d["pr"]:
                e[("d", d["l"])] = force[("d", d["l"])]
            if flow is not None and t["args"] and (cal.endswith("Option::is_none") or cal.endswith("Option::is_some")):
                c0 = flow.canon_op(t["args"][0])
                if c0 is not None and not c0[1] and ("d", c0[0]) in e and not d["pr"]:
                    isn = e[("d", c0[0])] == 0
                    e[d["l"]] = int(isn if cal.endswith("is_none") else not isn)
                    interesting.add(d["l"])
        succs = body.succ[bi]
        if k == "switch":
            l = op_local(t["op"])
            if force and l in force:
                e[l] = force[l]
            if l is not None and l in e:
                v = e[l]
                tgt = None
                for val, bb in t["targets"]:
                    if val == v:
                        tgt = bb
                        break
                if tgt is None:
                    tgt = t["otherwise"]
                succs = [tgt]
        fe = frozenset(e.items())
        for s in succs:
            if (bi, s) in exempt_edges:
                continue
            stack.append((s, fe, path + (s,)))
    return None


def path_desc(body, path, maxn=14):
    if path is None:
        return None
    items = ["bb%d@%s" % (b, body.loc(b).split(":")[-1]) for b in path]
    if len(items) > maxn:
        items = items[: maxn // 2] + ["…"] + items[-maxn // 2:]
    return " -> ".join(items)


def result_switch_edges(body, flow, local, truthy=True):
    """Edges (from, to) of switches on `local` (or copies of it) that correspond to the value being
    true (non-zero) when truthy=True, or false (zero) otherwise."""
    derived = {local}
    for _ in range(4):
        for _bi, _si, s in body.stmts():
            if s["k"] == "assign" and not s["p"]["pr"] and s["rv"]["k"] == "use":
                m = op_local(s["rv"]["op"])
                if m in derived:
                    derived.add(s["p"]["l"])
    edges = []
    for bi, b in enumerate(body.blocks):
        t = b["term"]
        if t["k"] != "switch":
            continue
        l = op_local(t["op"])
        if l not in derived:
            continue
        zero_t = None
        for v, bb in t["targets"]:
            if v == 0:
                zero_t = bb
        for v, bb in body.switch_edges(bi):
            is_false = (v == 0)
            if truthy and not is_false:
                edges.append((bi, bb))
            if not truthy and is_false:
                edges.append((bi, bb))
    return edges, derived


def agg_sites(body, adt_suffix, variant=None):
    """[(block, stmt index, stmt)] constructing ADT (suffix match) [variant]."""
    out = []
    for bi, si, s in body.stmts():
        if s["k"] == "assign" and s["rv"]["k"] == "agg" and s["rv"].get("kind") == "adt":
            rv = s["rv"]
            if (rv["adt"] == adt_suffix or rv["adt"].endswith("::" + adt_suffix)) and (variant is None or rv["variant"] == variant):
                out.append((bi, si, s))
    return out


def consumer_calls(body, flow, local):
    """Calls that take the value of `local` (followed through moves/copies) as an argument: [(block, term, arg index)]."""
    fw = flow.forward({local})
    out = []
    for bi, t in body.calls():
        for ai, a in enumerate(t["args"]):
            p = op_place(a)
            if p and p["l"] in fw:
                out.append((bi, t, ai))
    return out


def discr_switches(body, local):
    """Switch blocks on the discriminant of `local` (any projection rooted at it is ignored: only the bare local).
    Returns [(block, {value: target}, otherwise)]."""
    dl = set()
    for _bi, _si, s in body.stmts():
        if s["k"] == "assign" and s["rv"]["k"] == "discr" and s["rv"]["p"]["l"] == local and not [e for e in s["rv"]["p"]["pr"] if e[0] != "*"]:
            dl.add(s["p"]["l"])
    out = []
    for bi, b in enumerate(body.blocks):
        t = b["term"]
        if t["k"] == "switch" and op_local(t["op"]) in dl:
            out.append((bi, {v: bb for v, bb in t["targets"]}, t["otherwise"]))
    return out


def edges_except(body, sw, keep_value):
    """All out-edges of switch (block, map, otherwise) except the one taken for `keep_value`."""
    bi, m, other = sw
    keep = m.get(keep_value, other)
    return [(bi, bb) for _v, bb in body.switch_edges(bi) if bb != keep]


def edge_for(body, sw, value):
    bi, m, other = sw
    return (bi, m.get(value, other))


def option_none_edges(body, locals_):
    """Edges taken when an Option-typed place rooted at one of `locals_` is None (every edge of a switch on its discriminant except Some)."""
    dl = {}
    for _bi, _si, s in body.stmts():
        if s["k"] == "assign" and s["rv"]["k"] == "discr" and s["rv"]["p"]["l"] in locals_ and (s["rv"].get("adt") or "").endswith("option::Option"):
            dl[s["p"]["l"]] = True
    out = []
    for bi, b in enumerate(body.blocks):
        t = b["term"]
        if t["k"] == "switch" and op_local(t["op"]) in dl:
            some = [bb for v, bb in t["targets"] if v == 1]
            for _v, bb in body.switch_edges(bi):
                if bb not in some:
                    out.append((bi, bb))
    return out


def lookup_fail_edges(body, flow, dest_local):
    """Edges taken when the lookup whose result is `dest_local` found nothing: None edges of the Option, and the Break edge of a
    `?` applied (through ok_or / ok_or_else) directly to it."""
    grp = flow.forward({dest_local}, through_calls=("Option::ok_or", "Option::ok_or_else", "Try::branch", "Option::as_mut", "Option::as_ref"))
    out = option_none_edges(body, grp)
    dl = set()
    for _bi, _si, s in body.stmts():
        if s["k"] == "assign" and s["rv"]["k"] == "discr" and s["rv"]["p"]["l"] in grp and (s["rv"].get("adt") or "").endswith("ControlFlow"):
            dl.add(s["p"]["l"])
    for bi, b in enumerate(body.blocks):
        t = b["term"]
        if t["k"] == "switch" and op_local(t["op"]) in dl:
            cont = [bb for v, bb in t["targets"] if v == 0]
            for _v, bb in body.switch_edges(bi):
                if bb not in cont:
                    out.append((bi, bb))
    return out
