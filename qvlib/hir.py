"""Helpers over the resolved HIR expression trees emitted by qvfacts."""

ALL = "*"


def children(n):
    """Direct child expression nodes of an expression node (dict with 'e') — patterns are not descended."""
    if n is None:
        return
    for k, v in n.items():
        if k in ("pat", "params"):
            continue
        if isinstance(v, dict):
            if "e" in v:
                yield v
            elif k in ("pat",):
                continue
        elif isinstance(v, list):
            for x in v:
                if isinstance(x, dict):
                    if "e" in x:
                        yield x
                    else:
                        # arms {pat, guard, body}, struct fields {name, x}
                        for kk, vv in x.items():
                            if isinstance(vv, dict) and "e" in vv:
                                yield vv


def walk(n):
    """Pre-order walk over all expression nodes."""
    if n is None:
        return
    stack = [n]
    while stack:
        x = stack.pop()
        yield x
        cs = list(children(x))
        stack.extend(reversed(cs))


def find(n, pred):
    return [x for x in walk(n) if pred(x)]


def body_of(fn):
    h = fn.get("hir")
    return h["body"] if h else None


def matches(n, src=None):
    return [x for x in walk(n) if x["e"] == "match" and (src is None or x.get("src") == src)]


def calls(n):
    """(kind, key, node) for every call / method call with a resolved key."""
    out = []
    for x in walk(n):
        if x["e"] == "mcall":
            out.append(("mcall", x.get("key"), x))
        elif x["e"] == "call":
            f = x["f"]
            key = None
            if f["e"] == "path":
                key = f.get("tdkey") or f.get("key")
                if f.get("res") == "ctor":
                    key = "ctor:%s::%s" % (f.get("adt"), f.get("variant"))
            out.append(("call", key, x))
    return out


def call_keys(n):
    return [k for _kind, k, _x in calls(n) if k]


def ctors(n):
    """(adt, variant, node) for every constructor use: tuple-variant call, struct literal, unit-variant path."""
    out = []
    for x in walk(n):
        if x["e"] == "path" and x.get("res") == "ctor":
            out.append((x.get("adt"), x.get("variant"), x))
        elif x["e"] == "struct" and x.get("res") == "ctor":
            out.append((x.get("adt"), x.get("variant"), x))
    return out


def method_names(n):
    return [x["m"] for x in walk(n) if x["e"] == "mcall"]


def bool_lits(n):
    return [x["text"] == "Bool(true)" for x in walk(n) if x["e"] == "lit" and x.get("text", "").startswith("Bool(")]


def local_names(n):
    return [x["name"] for x in walk(n) if x["e"] == "path" and x.get("res") == "local"]


# ------------------------------------------------------------------ patterns
def pat_head(p, adt):
    """Set of variant names of `adt` the pattern's head can match, or ALL."""
    if p is None:
        return ALL
    k = p["p"]
    if k in ("wild",):
        return ALL
    if k == "bind":
        return pat_head(p["sub"], adt) if p.get("sub") else ALL
    if k in ("tstruct", "struct", "path"):
        if p.get("res") == "ctor" and p.get("adt") == adt:
            return {p.get("variant")}
        return ALL  # a constant or another type: cannot tell -> conservative
    if k == "or":
        out = set()
        for a in p["alts"]:
            h = pat_head(a, adt)
            if h == ALL:
                return ALL
            out |= h
        return out
    if k == "guard":
        return pat_head(p["sub"], adt)
    return ALL


def pat_irrefutable_inside(p):
    """True if the sub-patterns below the head cannot fail (only bindings / wildcards)."""
    k = p["p"]
    if k in ("wild", "bind"):
        return p.get("sub") is None or pat_irrefutable_inside(p["sub"])
    if k in ("tstruct",):
        return all(is_catch_all(s) for s in p["subs"])
    if k == "struct":
        return all(is_catch_all(f["pat"]) for f in p["fields"])
    if k == "path":
        return True
    if k == "or":
        return all(pat_irrefutable_inside(a) for a in p["alts"])
    if k == "tuple":
        return all(is_catch_all(s) for s in p["subs"])
    return False


def is_catch_all(p):
    k = p["p"]
    if k == "wild":
        return True
    if k == "bind":
        return p.get("sub") is None or is_catch_all(p["sub"])
    if k == "tuple":
        return all(is_catch_all(s) for s in p["subs"])
    return False


def tuple_subs(p, n):
    """sub-patterns of an n-tuple pattern; a catch-all expands to n wildcards; or-patterns return a list of rows."""
    k = p["p"]
    if k == "tuple":
        return [p["subs"]]
    if k == "or":
        rows = []
        for a in p["alts"]:
            rows += tuple_subs(a, n)
        return rows
    if k == "bind" and p.get("sub"):
        return tuple_subs(p["sub"], n)
    if is_catch_all(p):
        return [[{"p": "wild"}] * n]
    return [[{"p": "wild"}] * n]


def pat_bindings(p, path=()):
    """[(name, path)] of bindings in a pattern; path = tuple of (variant, index-or-field)."""
    out = []
    if p is None:
        return out
    k = p["p"]
    if k == "bind":
        out.append((p["name"], path))
        if p.get("sub"):
            out += pat_bindings(p["sub"], path)
    elif k == "tstruct":
        for i, s in enumerate(p["subs"]):
            out += pat_bindings(s, path + ((p.get("variant"), i),))
    elif k == "struct":
        for f in p["fields"]:
            out += pat_bindings(f["pat"], path + ((p.get("variant"), f["name"]),))
    elif k == "tuple":
        for i, s in enumerate(p["subs"]):
            out += pat_bindings(s, path + (("tuple", i),))
    elif k == "or":
        for a in p["alts"]:
            out += pat_bindings(a, path)
    elif k == "guard":
        out += pat_bindings(p["sub"], path)
    elif k == "slice":
        for s in p["before"] + p["after"]:
            out += pat_bindings(s, path + (("slice", 0),))
    return out


def arms_for_variant(match, adt, variant):
    """Arms (in order) that may match a scrutinee whose head is `variant`; stops after the first
    unguarded arm whose inside is irrefutable. Returns [(arm index, arm, definite?)]."""
    out = []
    for i, a in enumerate(match["arms"]):
        h = pat_head(a["pat"], adt)
        if h == ALL or variant in h:
            definite = a.get("guard") is None and (is_catch_all(a["pat"]) or pat_irrefutable_inside(a["pat"]))
            out.append((i, a, definite))
            if definite:
                break
    return out


def arms_for_pair(match, adt_a, adt_b, va, vb):
    """Same as arms_for_variant for a `match (a, b)` over a pair of enums."""
    out = []
    for i, a in enumerate(match["arms"]):
        hit = False
        definite = False
        for row in tuple_subs(a["pat"], 2):
            if len(row) != 2:
                hit = True
                continue
            ha = pat_head(row[0], adt_a)
            hb = pat_head(row[1], adt_b)
            if (ha == ALL or va in ha) and (hb == ALL or vb in hb):
                hit = True
                inner_ok = all(is_catch_all(r) or pat_irrefutable_inside(r) for r in row)
                if a.get("guard") is None and inner_ok:
                    definite = True
        if hit:
            out.append((i, a, definite))
            if definite:
                break
    return out
