"""Helpers over the resolved HIR expression trees emitted by qvfacts."""

ALL = "*"


def children(n):
    """Direct child expression nodes of an expression node (dict with 'e') — patterns are not descended."""
    if n is None:
        return
    for k, v in n.items():
        if k in ("pat", "params"):
            continue
        if isinstance(v, dict):
            if "e" in v:
                yield v
            elif k in ("pat",):
                continue
        elif isinstance(v, list):
            for x in v:
                if isinstance(x, dict):
                    if "e" in x:
                        yield x
                    else:
                        # arms {pat, guard, body}, struct fields {name, x}
                        for kk, vv in x.items():
                            if isinstance(vv, dict) and "e" in vv:
                                yield vv


def walk(n):
    """Pre-order walk over all expression nodes."""
    if n is None:
        return
    stack = [n]
    while stack:
        x = stack.pop()
        yield x
        cs = list(children(x))
        stack.extend(reversed(cs))


def find(n, pred):
    return [x for x in walk(n) if pred(x)]


def body_of(fn):
    h = fn.get("hir")
    return h["body"] if h else None


def _callee_key(x):
    if x.get("e") == "mcall":
        return x.get("key")
    if x.get("e") == "call":
        f = x.get("f") or {}
        if f.get("e") == "path" and f.get("res") != "ctor":
            return f.get("tdkey") or f.get("key")
    return None


def splice(F, node, chain=()):
    """copy of an HIR tree in which every call to a TRANSPARENT (new, not yet reviewed) function is replaced by an `inlined` node holding the call's
    argument expressions and the callee's own body (parameters are not substituted: rules look at constructors, callees and match shapes)."""
    if isinstance(node, list):
        return [splice(F, v, chain) for v in node]
    if not isinstance(node, dict):
        return node
    out = {k: splice(F, v, chain) for k, v in node.items()}
    g = _callee_key(node) if "e" in node else None
    if g and g in F.new_fns and g not in chain and len(chain) < 5:
        gf = F.fns.get(g)
        gb = body_of(gf) if gf else None
        if gb is not None:
            args = out.get("args") or []
            if node.get("e") == "mcall" and out.get("recv") is not None:
                args = [out["recv"]] + list(args)
            return {"e": "inlined", "key": g, "ln": node.get("ln"), "ty": node.get("ty"), "args": args, "body": splice(F, gb, chain + (g,)),
                    "file": gf.get("file")}
    return out


def matches(n, src=None):
    return [x for x in walk(n) if x["e"] == "match" and (src is None or x.get("src") == src)]


def calls(n):
    """(kind, key, node) for every call / method call with a resolved key."""
    out = []
    for x in walk(n):
        if x["e"] == "mcall":
            out.append(("mcall", x.get("key"), x))
        elif x["e"] == "call":
            f = x["f"]
            key = None
            if f["e"] == "path":
                key = f.get("tdkey") or f.get("key")
                if f.get("res") == "ctor":
                    key = "ctor:%s::%s" % (f.get("adt"), f.get("variant"))
            out.append(("call", key, x))
    return out


def call_keys(n):
    return [k for _kind, k, _x in calls(n) if k]


def ctors(n):
    """(adt, variant, node) for every constructor use: tuple-variant call, struct literal, unit-variant path."""
    out = []
    for x in walk(n):
        if x["e"] == "path" and x.get("res") == "ctor":
            out.append((x.get("adt"), x.get("variant"), x))
        elif x["e"] == "struct" and x.get("res") == "ctor":
            out.append((x.get("adt"), x.get("variant"), x))
    return out


def quantifiers(n, pred=None):
    """the quantifier structure of an expression, outermost first: one entry per Iterator::all / Iterator::any call and per explicit loop that contains
    a call satisfying `pred` (default: any call): 'all' (a loop left early only by `return false`), 'any' (only by `return true`), or 'unknown'
    (a loop whose exits are not literal-bool returns: flags, breaks, computed values — the shape cannot be classified syntactically)."""
    out = []
    for x in walk(n):
        if x["e"] == "mcall" and x.get("m") in ("all", "any"):
            out.append(x["m"])
        elif x["e"] == "loop":
            inner_calls = [c for c in walk(x) if c["e"] in ("call", "mcall", "inlined") and (pred is None or pred(c))]
            if not inner_calls:
                continue
            vals = set()
            other = False
            nbreak = 0
            flags = 0
            for r in walk(x):
                if r["e"] == "ret":
                    v = r.get("x")
                    if v is not None and v["e"] == "lit" and v.get("text") in ("Bool(true)", "Bool(false)"):
                        vals.add(v["text"] == "Bool(true)")
                    else:
                        other = True
                elif r["e"] == "break":
                    nbreak += 1
                    if r.get("x") is not None:
                        other = True
                elif r["e"] == "assign" or r["e"] == "assignop":
                    # a flag set inside the loop (`found = true; break`) decides the result outside it: not classifiable here
                    tgt = r.get("l") or r.get("lhs") or {}
                    if tgt.get("e") == "path" and tgt.get("res") == "local":
                        flags += 1
            # the desugared `for` has exactly one value-less break (iterator exhausted)
            if nbreak > (1 if "ForLoop" in (x.get("src") or "") else 0):
                other = True
            if other or not vals or len(vals) > 1:
                out.append("unknown")
            else:
                out.append("any" if True in vals else "all")
    return out


def method_names(n):
    return [x["m"] for x in walk(n) if x["e"] == "mcall"]


def bool_lits(n):
    return [x["text"] == "Bool(true)" for x in walk(n) if x["e"] == "lit" and x.get("text", "").startswith("Bool(")]


def local_names(n):
    return [x["name"] for x in walk(n) if x["e"] == "path" and x.get("res") == "local"]


# ------------------------------------------------------------------ patterns
def pat_head(p, adt):
    """Set of variant names of `adt` the pattern's head can match, or ALL."""
    if p is None:
        return ALL
    k = p["p"]
    if k in ("wild",):
        return ALL
    if k == "bind":
        return pat_head(p["sub"], adt) if p.get("sub") else ALL
    if k in ("tstruct", "struct", "path"):
        if p.get("res") == "ctor" and p.get("adt") == adt:
            return {p.get("variant")}
        return ALL  # a constant or another type: cannot tell -> conservative
    if k == "or":
        out = set()
        for a in p["alts"]:
            h = pat_head(a, adt)
            if h == ALL:
                return ALL
            out |= h
        return out
    if k == "guard":
        return pat_head(p["sub"], adt)
    return ALL


def pat_irrefutable_inside(p):
    """True if the sub-patterns below the head cannot fail (only bindings / wildcards)."""
    k = p["p"]
    if k in ("wild", "bind"):
        return p.get("sub") is None or pat_irrefutable_inside(p["sub"])
    if k in ("tstruct",):
        return all(is_catch_all(s) for s in p["subs"])
    if k == "struct":
        return all(is_catch_all(f["pat"]) for f in p["fields"])
    if k == "path":
        return True
    if k == "or":
        return all(pat_irrefutable_inside(a) for a in p["alts"])
    if k == "tuple":
        return all(is_catch_all(s) for s in p["subs"])
    return False


def is_catch_all(p):
    k = p["p"]
    if k == "wild":
        return True
    if k == "bind":
        return p.get("sub") is None or is_catch_all(p["sub"])
    if k == "tuple":
        return all(is_catch_all(s) for s in p["subs"])
    return False


def tuple_subs(p, n):
    """sub-patterns of an n-tuple pattern; a catch-all expands to n wildcards; or-patterns return a list of rows."""
    k = p["p"]
    if k == "tuple":
        return [p["subs"]]
    if k == "or":
        rows = []
        for a in p["alts"]:
            rows += tuple_subs(a, n)
        return rows
    if k == "bind" and p.get("sub"):
        return tuple_subs(p["sub"], n)
    if is_catch_all(p):
        return [[{"p": "wild"}] * n]
    return [[{"p": "wild"}] * n]


def pat_bindings(p, path=()):
    """[(name, path)] of bindings in a pattern; path = tuple of (variant, index-or-field)."""
    out = []
    if p is None:
        return out
    k = p["p"]
    if k == "bind":
        out.append((p["name"], path))
        if p.get("sub"):
            out += pat_bindings(p["sub"], path)
    elif k == "tstruct":
        for i, s in enumerate(p["subs"]):
            out += pat_bindings(s, path + ((p.get("variant"), i),))
    elif k == "struct":
        for f in p["fields"]:
            out += pat_bindings(f["pat"], path + ((p.get("variant"), f["name"]),))
    elif k == "tuple":
        for i, s in enumerate(p["subs"]):
            out += pat_bindings(s, path + (("tuple", i),))
    elif k == "or":
        for a in p["alts"]:
            out += pat_bindings(a, path)
    elif k == "guard":
        out += pat_bindings(p["sub"], path)
    elif k == "slice":
        for s in p["before"] + p["after"]:
            out += pat_bindings(s, path + (("slice", 0),))
    return out


def arms_for_variant(match, adt, variant):
    """Arms (in order) that may match a scrutinee whose head is `variant`; stops after the first
    unguarded arm whose inside is irrefutable. Returns [(arm index, arm, definite?)]."""
    out = []
    for i, a in enumerate(match["arms"]):
        h = pat_head(a["pat"], adt)
        if h == ALL or variant in h:
            definite = a.get("guard") is None and (is_catch_all(a["pat"]) or pat_irrefutable_inside(a["pat"]))
            out.append((i, a, definite))
            if definite:
                break
    return out


def arms_for_pair(match, adt_a, adt_b, va, vb):
    """Same as arms_for_variant for a `match (a, b)` over a pair of enums."""
    out = []
    for i, a in enumerate(match["arms"]):
        hit = False
        definite = False
        for row in tuple_subs(a["pat"], 2):
            if len(row) != 2:
                hit = True
                continue
            ha = pat_head(row[0], adt_a)
            hb = pat_head(row[1], adt_b)
            if (ha == ALL or va in ha) and (hb == ALL or vb in hb):
                hit = True
                inner_ok = all(is_catch_all(r) or pat_irrefutable_inside(r) for r in row)
                if a.get("guard") is None and inner_ok:
                    definite = True
        if hit:
            out.append((i, a, definite))
            if definite:
                break
    return out
