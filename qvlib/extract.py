"""Fact extraction: run the qvfacts rustc driver over /repo's current working tree (cached by content hash)."""
import fcntl
import hashlib
import json
import os
import shutil
import subprocess
import sys
import time

VERIF = os.path.dirname(os.path.dirname(os.path.abspath(__file__)))
REPO = os.environ.get("QV_REPO", "/repo")
CACHE = os.environ.get("QV_CACHE", os.path.join(VERIF, ".cache"))
DRIVER_DIR = os.path.join(VERIF, "driver")
DRIVER_BIN = os.path.join(DRIVER_DIR, "target", "debug", "qvfacts")

ANCHORED_CRATES = ["quiver_core", "quiver_compiler", "quiver_environment", "quiver_io", "quiv"]
HASH_SUFFIXES = (".rs", ".toml", ".lock", ".qv")
SKIP_DIRS = {"target", ".git", "node_modules", "tree-sitter"}


class CheckError(Exception):
    """The check cannot decide (missing anchor, extraction failure, count below floor)."""


def repo_hash(repo=None):
    repo = repo or REPO
    h = hashlib.sha256()
    files = []
    for root, dirs, fs in os.walk(repo):
        dirs[:] = sorted(d for d in dirs if d not in SKIP_DIRS)
        for f in sorted(fs):
            if f.endswith(HASH_SUFFIXES):
                files.append(os.path.join(root, f))
    for p in files:
        h.update(os.path.relpath(p, repo).encode())
        h.update(b"\0")
        try:
            with open(p, "rb") as fh:
                h.update(fh.read())
        except OSError:
            h.update(b"<unreadable>")
        h.update(b"\0")
    # the driver itself is part of the key
    for root, dirs, fs in os.walk(os.path.join(DRIVER_DIR, "src")):
        for f in sorted(fs):
            with open(os.path.join(root, f), "rb") as fh:
                h.update(fh.read())
    return h.hexdigest()[:24], len(files)


def nightly_sysroot():
    out = subprocess.run(["rustc", "+nightly", "--print", "sysroot"], capture_output=True, text=True, cwd=DRIVER_DIR)
    if out.returncode != 0:
        raise CheckError("nightly toolchain not available: " + out.stderr.strip())
    return out.stdout.strip()


def build_driver(log=sys.stderr):
    srcs = []
    for root, _d, fs in os.walk(os.path.join(DRIVER_DIR, "src")):
        srcs += [os.path.join(root, f) for f in fs]
    srcs.append(os.path.join(DRIVER_DIR, "Cargo.toml"))
    if os.path.exists(DRIVER_BIN):
        bt = os.path.getmtime(DRIVER_BIN)
        if all(os.path.getmtime(s) <= bt for s in srcs):
            return
    env = dict(os.environ, CARGO_NET_OFFLINE="true")
    env.pop("RUSTC_WORKSPACE_WRAPPER", None)
    r = subprocess.run(["cargo", "build", "--offline"], cwd=DRIVER_DIR, env=env, capture_output=True, text=True)
    if r.returncode != 0:
        raise CheckError("driver build failed:\n" + r.stderr[-4000:])


def extract(repo=None, no_cache=False, log=sys.stderr, target_dir=None):
    """Return the directory holding <crate>.jsonl facts for the repo's current working tree."""
    repo = repo or REPO
    os.makedirs(os.path.join(CACHE, "facts"), exist_ok=True)
    lock_path = os.path.join(CACHE, "extract.lock")
    with open(lock_path, "w") as lock:
        fcntl.flock(lock, fcntl.LOCK_EX)
        hsh, nfiles = repo_hash(repo)
        out = os.path.join(CACHE, "facts", hsh)
        marker = os.path.join(out, "COMPLETE.json")
        if os.path.exists(marker) and not no_cache:
            return out
        t0 = time.time()
        build_driver(log)
        if os.path.exists(out):
            shutil.rmtree(out)
        tmp = out + ".tmp"
        if os.path.exists(tmp):
            shutil.rmtree(tmp)
        os.makedirs(tmp)
        tdir = target_dir or os.path.join(CACHE, "target")
        os.makedirs(tdir, exist_ok=True)
        # cargo's freshness cache would skip the wrapper for unchanged members: drop their fingerprints
        fp = os.path.join(tdir, "debug", ".fingerprint")
        if os.path.isdir(fp):
            for d in os.listdir(fp):
                if d.startswith("quiver-") or d.startswith("quiv-"):
                    shutil.rmtree(os.path.join(fp, d), ignore_errors=True)
        sysroot = nightly_sysroot()
        env = dict(os.environ)
        env.update(
            LD_LIBRARY_PATH=os.path.join(sysroot, "lib") + ":" + env.get("LD_LIBRARY_PATH", ""),
            RUSTFLAGS="-Zmir-opt-level=0 -Awarnings",
            CARGO_NET_OFFLINE="true",
            RUSTC_WORKSPACE_WRAPPER=DRIVER_BIN,
            QVFACTS_OUT=tmp,
            CARGO_TARGET_DIR=tdir,
        )
        env.pop("RUSTC_WRAPPER", None)
        r = subprocess.run(
            ["cargo", "+nightly", "check", "--offline", "--workspace"],
            cwd=repo, env=env, capture_output=True, text=True,
        )
        if r.returncode != 0:
            raise CheckError("cargo check of /repo failed (tree does not compile?):\n" + r.stderr[-6000:])
        # one file per crate: rename <crate>.<pid>.jsonl -> <crate>.jsonl (keep the largest if several)
        by_crate = {}
        for f in os.listdir(tmp):
            if f.endswith(".jsonl"):
                crate = f.split(".")[0]
                by_crate.setdefault(crate, []).append(f)
        for crate, fs in by_crate.items():
            fs.sort(key=lambda f: os.path.getsize(os.path.join(tmp, f)), reverse=True)
            os.rename(os.path.join(tmp, fs[0]), os.path.join(tmp, crate + ".jsonl"))
            for extra in fs[1:]:
                os.remove(os.path.join(tmp, extra))
        missing = [c for c in ANCHORED_CRATES if not os.path.exists(os.path.join(tmp, c + ".jsonl"))]
        if missing:
            raise CheckError("no facts emitted for crates %s (wrapper skipped?)\n%s" % (missing, r.stderr[-2000:]))
        with open(os.path.join(tmp, "COMPLETE.json"), "w") as fh:
            json.dump({"hash": hsh, "files_hashed": nfiles, "crates": sorted(by_crate), "extract_s": round(time.time() - t0, 2),
                       "repo": repo}, fh)
        os.rename(tmp, out)
        # keep the cache small: retain the 6 most recent fact sets
        root = os.path.join(CACHE, "facts")
        sets = sorted((d for d in os.listdir(root) if not d.endswith(".tmp")),
                      key=lambda d: os.path.getmtime(os.path.join(root, d)), reverse=True)
        for old in sets[6:]:
            shutil.rmtree(os.path.join(root, old), ignore_errors=True)
        return out
