"""Rule context: obligations, known findings, evidence and replay files, exit codes."""
import json
import os
import sys
import time

from .extract import VERIF, CheckError

EVIDENCE_DIR = os.environ.get("QV_EVIDENCE_DIR") or os.path.join(VERIF, "evidence")
REPLAY_DIR = os.path.join(EVIDENCE_DIR, "replay")
KNOWN = os.path.join(VERIF, "known_findings.json")

ASSUMPTIONS = [
    "nightly rustc's HIR/MIR (-Zmir-opt-level=0) of /repo's working tree faithfully represents what the pinned stable toolchain builds",
    "std, num-bigint, serde and io-uring behave as documented (BigInt / and % panic on zero; Vec/slice indexing panics out of range)",
    "host target only; cfg(test) code is not analysed (unit tests poke roots raw on purpose)",
    "event counters (frame.counter, next_ref, ids) do not overflow usize/u64 in practice",
    "a check decides the named structural clauses only, never the runtime behaviour itself",
]


class Ctx:
    def __init__(self, prop, tier, facts, seed=0):
        self.prop = prop
        self.tier = tier
        self.facts = facts
        self.seed = seed
        self.obs = []          # obligations
        self.rules = {}        # rule id -> description
        self.floors = []       # (rule, name, count, floor)
        self.notes = []
        self.extra = {}
        self.t0 = time.time()
        self.known = load_known()
        self.errors = []       # CheckErrors raised by individual rules (the other rules still run)

    def run_rules(self, fns):
        """Run each rule function; a rule that cannot decide (CheckError) or crashes does not stop the others."""
        import traceback
        for f in fns:
            try:
                gone = self._refers_to_gone(f)
                if gone:
                    raise CheckError("the reviewed function(s) %s that this rule refers to no longer exist (removed, or inlined into a caller): the rule "
                                     "cannot tell their former code from the caller's own — cannot decide" % gone)
                f(self)
            except CheckError as e:
                self.errors.append("%s: %s" % (getattr(f, "__name__", "rule"), e))
            except Exception:
                self.errors.append("%s: internal error: %s" % (getattr(f, "__name__", "rule"), traceback.format_exc()[-600:]))

    def _refers_to_gone(self, f):
        """names of reviewed workspace functions that disappeared from the tree (not merely renamed) and are mentioned in the source of rule `f` or of
        the module-level helpers / imported rules it calls."""
        gone = getattr(self.facts, "gone_fns", None)
        if not gone:
            return []
        import inspect
        import sys
        try:
            mod = sys.modules.get(f.__module__)
            src = inspect.getsource(f)
            seen = {f.__name__}
            work = [(mod, src)]
            text = src
            depth = 0
            while work and depth < 40:
                depth += 1
                m, sc = work.pop()
                import re
                for name in set(re.findall(r"\b([A-Za-z_][A-Za-z0-9_]*)\s*\(", sc)) | set(re.findall(r"\b(c\d\d)\.([A-Za-z_][A-Za-z0-9_]*)", sc) and []):
                    g = getattr(m, name, None)
                    if g is not None and inspect.isfunction(g) and g.__module__.startswith("rules") and g.__name__ not in seen:
                        seen.add(g.__name__)
                        s2 = inspect.getsource(g)
                        text += s2
                        work.append((sys.modules.get(g.__module__), s2))
                for modname, name in re.findall(r"\b(c\d\d|census)\.([A-Za-z_][A-Za-z0-9_]*)", sc):
                    try:
                        import importlib
                        m2 = sys.modules.get("rules." + modname) or importlib.import_module("rules." + modname)
                    except Exception:
                        m2 = None
                    g = getattr(m2, name, None) if m2 else None
                    if g is not None and inspect.isfunction(g) and (g.__module__, g.__name__) not in seen:
                        seen.add((g.__module__, g.__name__))
                        s2 = inspect.getsource(g)
                        text += s2
                        work.append((m2, s2))
            # module-level string constants the rule may use (EXEC, ENV, W, ...) are expanded by looking for the last two path segments
            out = []
            optional = set(getattr(mod, "OPTIONAL_FNS", ()) or ())     # alternative APIs a rule accepts: their absence is not a vanished anchor
            for k in sorted(gone):
                tail2 = "::".join(k.split("::")[-2:])
                if tail2 in optional:
                    continue
                tail1 = k.split("::")[-1]
                if tail2 in text or ('"::%s"' % tail1) in text:
                    out.append(tail2)
            return out
        except Exception:
            return []

    # ---- declaring rules / obligations
    def rule(self, rid, text):
        self.rules[rid] = text

    def ob(self, rule, site, status, why, loc=None, detail=None):
        """status: ok | exception | violated.  site: stable key without line numbers."""
        assert status in ("ok", "exception", "violated"), status
        o = {"rule": rule, "site": site, "status": status, "why": why}
        if loc:
            o["loc"] = loc
        if detail is not None:
            o["detail"] = detail
        if status == "violated":
            kf = self.match_known(rule, site)
            if kf is not None:
                o["status"] = "known-finding"
                o["finding"] = kf
        self.obs.append(o)
        return o

    def ok(self, rule, site, why, loc=None, detail=None):
        return self.ob(rule, site, "ok", why, loc, detail)

    def exception(self, rule, site, why, loc=None, detail=None):
        return self.ob(rule, site, "exception", why, loc, detail)

    def violated(self, rule, site, why, loc=None, detail=None):
        return self.ob(rule, site, "violated", why, loc, detail)

    def check(self, cond, rule, site, why_ok, why_bad=None, loc=None, detail=None):
        if cond:
            return self.ok(rule, site, why_ok, loc, detail)
        return self.violated(rule, site, why_bad or ("NOT: " + why_ok), loc, detail)

    def floor(self, rule, name, count, floor):
        """Fail closed when a rule matched fewer instances than were confirmed by reading."""
        self.floors.append({"rule": rule, "what": name, "count": count, "floor": floor})
        if count < floor:
            raise CheckError("%s: %s matched %d instance(s), below the confirmed floor %d — anchor drifted, cannot decide"
                             % (rule, name, count, floor))

    def note(self, s):
        self.notes.append(s)

    # ---- known findings
    def match_known(self, rule, site):
        for f in self.known.get("findings", []):
            if f.get("property") == self.prop and f.get("rule") == rule and f.get("site") == site:
                return f
        return None

    # ---- finishing
    def finish(self, explanation, level_rule):
        viol = [o for o in self.obs if o["status"] == "violated"]
        kf = [o for o in self.obs if o["status"] == "known-finding"]
        okc = [o for o in self.obs if o["status"] == "ok"]
        exc = [o for o in self.obs if o["status"] == "exception"]
        wall = round(time.time() - self.t0, 3)
        os.makedirs(EVIDENCE_DIR, exist_ok=True)
        per_rule = {}
        for o in self.obs:
            r = per_rule.setdefault(o["rule"], {"obligations": 0, "ok": 0, "exception": 0, "known-finding": 0, "violated": 0})
            r["obligations"] += 1
            r[o["status"]] += 1
        for rid, text in self.rules.items():
            per_rule.setdefault(rid, {"obligations": 0, "ok": 0, "exception": 0, "known-finding": 0, "violated": 0})["text"] = text
        # samples: a spread of obligations across rules, and every non-ok one
        samples = []
        seen_rules = {}
        for o in self.obs:
            c = seen_rules.get(o["rule"], 0)
            if o["status"] != "ok" or c < 3:
                samples.append(o)
                seen_rules[o["rule"]] = c + 1
        samples = samples[:80]
        distinct = len({(o["rule"], o["site"]) for o in self.obs})
        fmeta = self.facts.meta if self.facts else {}
        cov = {
            "explanation": explanation,
            "obligations": len(self.obs),
            "discharged": len(okc) + len(exc),
            "exceptions_reviewed": len(exc),
            "known_findings": len(kf),
            "violated": len(viol),
            "evaluations": len(self.obs),
            "distinct_nontrivial": distinct,
            "rule": level_rule,
            "samples": samples,
            "per_rule": per_rule,
            "floors": self.floors,
            "analysed": {
                "repo_hash": fmeta.get("hash"),
                "source_files_hashed": fmeta.get("files_hashed"),
                "crates": {c: v.get("fn_count") for c, v in (self.facts.crates.items() if self.facts else [])},
                "functions": len(self.facts.fns) if self.facts else 0,
            },
            "checker_cmd": "python3 qv.py check %s --tier %s" % (self.prop, self.tier),
            "trusted_base": ["rustc nightly front end (HIR/MIR)", "qvfacts driver", "qvlib rule evaluator", "reviewed tables under rules/tables"],
            "notes": self.notes,
        }
        cov.update(self.extra)
        if self.errors:
            cov["check_errors"] = self.errors
            cov["explanation"] = ("CHECK-ERROR in %d rule(s) — those rules could not decide: %s || " % (len(self.errors), " | ".join(e[:200] for e in self.errors))) + cov["explanation"]
        ev = {
            "property_id": self.prop,
            "tier": self.tier,
            "seed": self.seed,
            "level": "other",
            "coverage": cov,
            "assumptions": ASSUMPTIONS,
            "wall_s": wall,
            "violations": len(viol),
        }
        with open(os.path.join(EVIDENCE_DIR, self.prop + ".json"), "w") as fh:
            json.dump(ev, fh, indent=1)
        for o in kf:
            print("KNOWN-FINDING: property=%s %s at %s — %s" % (self.prop, o["rule"], o["site"], o["finding"].get("what", o["why"])))
        print("%s %s: %d obligations, %d ok, %d reviewed exceptions, %d known findings, %d violated (%.1fs)"
              % (self.prop, self.tier, len(self.obs), len(okc), len(exc), len(kf), len(viol), wall))
        for e in self.errors:
            print("CHECK-ERROR property=%s: %s" % (self.prop, e[:600]))
        if viol:
            os.makedirs(REPLAY_DIR, exist_ok=True)
            for n, o in enumerate(viol):
                p = os.path.join(REPLAY_DIR, "%s-%d.json" % (self.prop, n))
                with open(p, "w") as fh:
                    json.dump({"property": self.prop, "violation": o, "rule_text": self.rules.get(o["rule"]),
                               "repo_hash": fmeta.get("hash")}, fh, indent=1)
                print("  violated: %s | %s | %s | %s" % (o["rule"], o["site"], o.get("loc", ""), o["why"]))
                print("VIOLATION property=%s replay=%s" % (self.prop, p))
            return 1
        if self.errors:
            return 2
        return 0


def load_known():
    if os.path.exists(KNOWN):
        with open(KNOWN) as fh:
            return json.load(fh)
    return {"findings": [], "fixed": []}


def write_error_evidence(prop, tier, seed, msg, wall):
    os.makedirs(EVIDENCE_DIR, exist_ok=True)
    ev = {
        "property_id": prop, "tier": tier, "seed": seed, "level": "other",
        "coverage": {"explanation": "CHECK-ERROR: the check could not decide: " + msg, "obligations": 0, "discharged": 0},
        "assumptions": ASSUMPTIONS, "wall_s": wall, "violations": 0,
    }
    with open(os.path.join(EVIDENCE_DIR, prop + ".json"), "w") as fh:
        json.dump(ev, fh, indent=1)
