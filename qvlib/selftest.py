"""Thorough tier: seeded one-instance mutants. Each /verif/selftest/<PROP>/<name>.patch is applied to a scratch copy of /repo
(mktemp, outside /repo and /verif), the tree is re-extracted, and the property's rules must report the expected rule on it."""
import importlib
import json
import os
import shutil
import subprocess
import tempfile
import time

from . import core, extract
from .extract import VERIF, CheckError
from .facts import Facts

SELFTEST = os.path.join(VERIF, "selftest")


def mutants_for(prop):
    d = os.path.join(SELFTEST, prop)
    if not os.path.isdir(d):
        return []
    out = []
    for f in sorted(os.listdir(d)):
        if f.endswith(".patch"):
            meta = {}
            mp = os.path.join(d, f[:-6] + ".json")
            if os.path.exists(mp):
                meta = json.load(open(mp))
            out.append((f[:-6], os.path.join(d, f), meta))
    return out


def run_on_copy(prop, patch, repo=None):
    """returns (status, violated obligations) where status in applied|stale|nocompile"""
    repo = repo or extract.REPO
    tmp = tempfile.mkdtemp(prefix="qvself.")
    try:
        dst = os.path.join(tmp, "repo")
        shutil.copytree(repo, dst, ignore=shutil.ignore_patterns("target", ".git"))
        r = subprocess.run(["patch", "-p1", "--no-backup-if-mismatch", "-i", patch], cwd=dst, capture_output=True, text=True)
        if r.returncode != 0:
            return "stale", []
        try:
            fdir = extract.extract(repo=dst)
        except CheckError:
            return "nocompile", []
        mod = importlib.import_module("rules." + prop.lower())
        facts = Facts(fdir, crates=getattr(mod, "CRATES", None))
        ctx = core.Ctx(prop, "thorough", facts, 0)
        try:
            mod.run(ctx)
        except CheckError as e:
            return "check-error", [{"rule": "CHECK-ERROR", "site": str(e)[:200], "why": str(e)[:200]}]
        return "applied", [o for o in ctx.obs if o["status"] == "violated"]
    finally:
        shutil.rmtree(tmp, ignore_errors=True)


def run(prop, ctx):
    """Called after a clean thorough run; appends the self-test outcome to the evidence file and returns the exit code."""
    t0 = time.time()
    results = []
    rc = 0
    for name, patch, meta in mutants_for(prop):
        status, viol = run_on_copy(prop, patch)
        expect = meta.get("expect_rule")
        hit = [v for v in viol if (expect is None or v["rule"] == expect) and (not meta.get("expect_site") or meta["expect_site"] in v["site"])]
        detected = status == "applied" and bool(hit)
        results.append({"mutant": name, "status": status, "expect_rule": expect, "detected": detected,
                        "reported": [{"rule": v["rule"], "site": v["site"]} for v in viol[:4]], "what": meta.get("what")})
        if status == "stale":
            print("SELFTEST-STALE %s/%s: patch no longer applies (context drift) — not counted as a pass" % (prop, name))
        elif status == "nocompile":
            print("SELFTEST-NOCOMPILE %s/%s: mutant does not type-check" % (prop, name))
        elif not detected:
            print("SELFTEST-MISSED %s/%s: expected %s, reported %s" % (prop, name, expect, [(v["rule"], v["site"]) for v in viol[:3]]))
            rc = 2
        else:
            print("selftest %s/%s: detected by %s at %s" % (prop, name, hit[0]["rule"], hit[0]["site"]))
    ev_path = os.path.join(core.EVIDENCE_DIR, prop + ".json")
    ev = json.load(open(ev_path))
    ev["coverage"]["selftest"] = {
        "mutants": len(results), "applied": sum(1 for r in results if r["status"] == "applied"),
        "detected": sum(1 for r in results if r["detected"]), "stale": sum(1 for r in results if r["status"] == "stale"),
        "results": results, "wall_s": round(time.time() - t0, 1),
        "rule": "each mutant breaks exactly one rule instance in a scratch copy that still type-checks; the rule must name that instance",
    }
    ev["wall_s"] = round(ev["wall_s"] + time.time() - t0, 2)
    json.dump(ev, open(ev_path, "w"), indent=1)
    if rc:
        print("CHECK-ERROR property=%s: a rule missed its own seeded instance (thorough self-test)" % prop)
    return rc
