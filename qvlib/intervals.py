"""A small interval abstract interpreter over MIR integer locals (intra-procedural, forward, with branch refinement).

Abstract state: local -> (lo, hi) with None for unbounded sides beyond the type range. Only bare integer locals, the two
fields of checked-arithmetic result tuples, and the payloads of Option/Result/ControlFlow-typed locals are tracked.
Unknown operations yield the full range of the destination type (sound over-approximation)."""
import re

from .facts import op_local, op_place

INF = float("inf")
MAX_BINARY_SIZE = 16 * 1024 * 1024
LEN_BOUND = 2 * MAX_BINARY_SIZE   # assumption (backed by R-C12-3/R-C12-5): binaries on the heap are <= MAX_BINARY_SIZE, intermediate ropes <= 2x

INT_RANGES = {
    "u8": (0, 2 ** 8 - 1), "u16": (0, 2 ** 16 - 1), "u32": (0, 2 ** 32 - 1), "u64": (0, 2 ** 64 - 1), "u128": (0, 2 ** 128 - 1), "usize": (0, 2 ** 64 - 1),
    "i8": (-2 ** 7, 2 ** 7 - 1), "i16": (-2 ** 15, 2 ** 15 - 1), "i32": (-2 ** 31, 2 ** 31 - 1), "i64": (-2 ** 63, 2 ** 63 - 1), "i128": (-2 ** 127, 2 ** 127 - 1),
    "isize": (-2 ** 63, 2 ** 63 - 1), "bool": (0, 1),
}
BITS = {"u8": 8, "u16": 16, "u32": 32, "u64": 64, "u128": 128, "usize": 64, "i8": 8, "i16": 16, "i32": 32, "i64": 64, "i128": 128, "isize": 64}


def ty_range(ty):
    return INT_RANGES.get(ty)


def payload_ty(ty):
    """integer payload type of Option<T> / Result<T,_> / ControlFlow<_, T> / &T / (T, bool)"""
    m = re.match(r"^&(?:mut )?(\w+)$", ty)
    if m and m.group(1) in INT_RANGES:
        return m.group(1)
    m = re.match(r"^core::option::Option<&?(\w+)>$", ty)
    if m and m.group(1) in INT_RANGES:
        return m.group(1)
    m = re.match(r"^core::result::Result<(\w+), ", ty)
    if m and m.group(1) in INT_RANGES:
        return m.group(1)
    m = re.match(r"^core::ops::control_flow::ControlFlow<.*, (\w+)>$", ty)
    if m and m.group(1) in INT_RANGES:
        return m.group(1)
    m = re.match(r"^\((\w+), bool\)$", ty)
    if m and m.group(1) in INT_RANGES:
        return m.group(1)
    return None


def join(a, b):
    if a is None:
        return b
    if b is None:
        return a
    return (min(a[0], b[0]), max(a[1], b[1]))


def meet(a, b):
    lo, hi = max(a[0], b[0]), min(a[1], b[1])
    if lo > hi:
        return None  # unreachable
    return (lo, hi)


def clip(iv, rng):
    if iv is None:
        return rng
    if iv[0] < rng[0] or iv[1] > rng[1]:
        return rng
    return iv


class Intervals:
    def __init__(self, body, promoted=None, param_ranges=None, len_bound=LEN_BOUND, call_summaries=None):
        self.b = body
        self.len_bound = len_bound
        self.param_ranges = param_ranges or {}
        self.call_summaries = call_summaries or {}
        self.state_in = {}      # block -> {key: interval}
        self.cmp = {}           # bool local -> (op, lhs operand, rhs operand)   (flow-insensitive: single def)
        self.copies = {}        # local -> local it is a plain copy of (single def)
        self.ranges = {}        # local holding a RangeInclusive/Range -> (lo interval, hi interval, inclusive)
        self.contains = {}      # bool local -> (range local or promoted const, tested local)
        self.sink_facts = []    # filled by run(): (block, kind, detail, ok)
        self.promoted = body.mir.get("promoted") or []
        self.b_defs = body.defs()
        self._prep()

    # ------------------------------------------------------------------ preparation
    def _prep(self):
        b = self.b
        defs = b.defs()
        for l, ds in defs.items():
            if len(ds) != 1 or ds[0][1] == "term":
                continue
            s = ds[0][2]
            rv = s["rv"]
            if s["p"]["pr"]:
                continue
            if rv["k"] == "bin" and rv["op"] in ("Lt", "Le", "Gt", "Ge", "Eq", "Ne"):
                self.cmp[l] = (rv["op"], rv["l"], rv["r"])
            if rv["k"] == "use":
                m = op_local(rv["op"])
                if m is not None and len(defs.get(m, [])) <= 1:
                    self.copies[l] = m
            if rv["k"] == "ref" and all(e[0] == "*" for e in rv["p"]["pr"]) and len(defs.get(rv["p"]["l"], [])) <= 1:
                self.copies[l] = rv["p"]["l"]          # &x : treat as alias of x for reads
            if rv["k"] == "un" and rv["op"] == "Not":
                m = op_local(rv["x"])
                if m is not None:
                    self.cmp[l] = ("Not", rv["x"], None)
        self.members = {}
        for l in list(self.copies):
            self.members.setdefault(self.root(l), set()).add(l)
        for bi, t in b.calls():
            c = t.get("callee") or ""
            if c.endswith("RangeInclusive::contains") or c.endswith("Range::contains"):
                if not t["dest"]["pr"]:
                    self.contains[t["dest"]["l"]] = (t["args"][0], t["args"][1], c.endswith("RangeInclusive::contains"))

    def set_class(self, st, l, nv):
        r = self.root(l)
        st[l] = nv
        st[r] = nv
        for m in self.members.get(r, ()):
            st[m] = nv

    def root(self, l):
        seen = set()
        while l in self.copies and l not in seen:
            seen.add(l)
            l = self.copies[l]
        return l

    def promoted_range(self, op):
        """(lo, hi) of a constant RangeInclusive/Range referenced through a promoted constant"""
        p = op_place(op)
        if op.get("c") == "const" and "promoted" in op:
            idx = op["promoted"]
        elif p is not None:
            # local initialised from a promoted const: `_x = const promoted[k]` then `&(*_x)`
            l = self.root(p["l"])
            ds = self.b.defs().get(l, [])
            idx = None
            for _bi, si, s in ds:
                if si != "term" and s["rv"]["k"] == "use" and s["rv"]["op"].get("c") == "const" and "promoted" in s["rv"]["op"]:
                    idx = s["rv"]["op"]["promoted"]
            if idx is None:
                return None
        else:
            return None
        if idx >= len(self.promoted):
            return None
        pm = self.promoted[idx]
        vals = []
        for blk in pm["blocks"]:
            for s in blk["stmts"]:
                if s["k"] == "assign" and s["rv"]["k"] == "agg":
                    for o in s["rv"]["ops"]:
                        if o.get("c") == "const" and "val" in o:
                            vals.append(o["val"])
            t = blk["term"]
            if t["k"] == "call" and (t.get("callee") or "").endswith("RangeInclusive::new"):
                for o in t["args"]:
                    if o.get("c") == "const" and "val" in o:
                        vals.append(o["val"])
        if len(vals) >= 2:
            return (vals[0], vals[1])
        return None

    # ------------------------------------------------------------------ evaluation helpers
    def local_range(self, l):
        ty = self.b.local_ty(l)
        r = ty_range(ty)
        if r:
            return r
        pt = payload_ty(ty)
        if pt:
            return INT_RANGES[pt]
        return None

    def get(self, st, l):
        if l in st:
            return st[l]
        r = self.root(l)
        if r in st:
            return st[r]
        return self.local_range(l)

    def eval_op(self, st, o):
        if o is None:
            return None
        if o.get("c") == "const":
            if "val" in o:
                return (o["val"], o["val"])
            r = ty_range(o.get("ty", ""))
            return r
        p = op_place(o)
        if p is None:
            return None
        if not p["pr"]:
            return self.get(st, p["l"])
        # payload projections: (x as Some).0 / (x as Ok).0 / (x as Continue).0 / x.0 of a checked op / *x
        fs = [e for e in p["pr"] if e[0] == "f"]
        ds = [e for e in p["pr"] if e[0] == "d"]
        if all(e[0] in ("*",) for e in p["pr"]):
            return self.get(st, p["l"])
        if len(fs) == 1 and fs[0][1] == "0":
            key = ("pay", p["l"])
            if key in st:
                return st[key]
            r = self.root(p["l"])
            if ("pay", r) in st:
                return st[("pay", r)]
            pt = payload_ty(self.b.local_ty(p["l"]))
            return INT_RANGES.get(pt)
        return None

    def binop(self, op, a, b, ty):
        rng = ty_range(ty) or (-INF, INF)
        if a is None or b is None:
            return rng, False
        op0 = op.replace("WithOverflow", "").replace("Unchecked", "")
        res = None
        if op0 == "Add":
            res = (a[0] + b[0], a[1] + b[1])
        elif op0 == "Sub":
            res = (a[0] - b[1], a[1] - b[0])
        elif op0 == "Mul":
            c = [a[0] * b[0], a[0] * b[1], a[1] * b[0], a[1] * b[1]]
            res = (min(c), max(c))
        elif op0 == "Div":
            if b[0] > 0 and a[0] >= 0:
                res = (a[0] // b[1], a[1] // b[0])
            elif b[0] > 0:
                res = (min(a[0], -abs(a[0])), max(a[1], abs(a[1])))
        elif op0 == "Rem":
            if b[0] > 0 and a[0] >= 0:
                res = (0, min(a[1], b[1] - 1))
            elif b[0] > 0:
                res = (-(b[1] - 1), b[1] - 1)
        elif op0 == "Shl":
            if a[0] >= 0 and 0 <= b[0] and b[1] < 200:
                res = (a[0] << int(b[0]), a[1] << int(b[1]))
        elif op0 == "Shr":
            if a[0] >= 0 and 0 <= b[0] and b[1] < 200:
                res = (a[0] >> int(b[1]), a[1] >> int(b[0]))
        elif op0 == "BitAnd":
            if a[0] >= 0 and b[0] >= 0:
                res = (0, min(a[1], b[1]))
            elif b[0] >= 0:
                res = (0, b[1])
            elif a[0] >= 0:
                res = (0, a[1])
        elif op0 in ("BitOr", "BitXor"):
            if a[0] >= 0 and b[0] >= 0:
                m = max(a[1], b[1])
                bits = int(m).bit_length() if m != INF else None
                if bits is not None:
                    res = (0, (1 << bits) - 1)
        elif op0 in ("Lt", "Le", "Gt", "Ge", "Eq", "Ne"):
            return (0, 1), True
        if res is None:
            return rng, False
        fits = res[0] >= rng[0] and res[1] <= rng[1]
        return (res if fits else rng), fits

    # ------------------------------------------------------------------ refinement on branch edges
    def refine_cmp(self, st, op, lo, ro, truth):
        """refine intervals of the operands of `lo op ro` knowing its truth value; returns False if the edge is infeasible"""
        if op == "Not":
            l = op_local(lo)
            if l is not None and l in self.cmp:
                o2, a2, b2 = self.cmp[l]
                return self.refine_cmp(st, o2, a2, b2, not truth)
            if l is not None and l in self.contains:
                return self.refine_contains(st, l, not truth)
            return True
        if not truth:
            op = {"Lt": "Ge", "Le": "Gt", "Gt": "Le", "Ge": "Lt", "Eq": "Ne", "Ne": "Eq"}[op]
        a = self.eval_op(st, lo)
        b = self.eval_op(st, ro)
        if a is None or b is None:
            return True
        na, nb = a, b
        if op == "Lt":
            na = meet(a, (-INF, b[1] - 1))
            nb = meet(b, (a[0] + 1, INF))
        elif op == "Le":
            na = meet(a, (-INF, b[1]))
            nb = meet(b, (a[0], INF))
        elif op == "Gt":
            na = meet(a, (b[0] + 1, INF))
            nb = meet(b, (-INF, a[1] - 1))
        elif op == "Ge":
            na = meet(a, (b[0], INF))
            nb = meet(b, (-INF, a[1]))
        elif op == "Eq":
            na = nb = meet(a, b)
        elif op == "Ne":
            if b[0] == b[1] and a[0] == b[0] and a[0] != a[1]:
                na = (a[0] + 1, a[1])
            elif b[0] == b[1] and a[1] == b[0] and a[0] != a[1]:
                na = (a[0], a[1] - 1)
            elif a[0] == a[1] == b[0] == b[1]:
                return False
        if na is None or nb is None:
            return False
        pa, pb = op_place(lo), op_place(ro)
        if pa is not None and pb is not None and not pa["pr"] and not pb["pr"]:
            ra, rb = self.root(pa["l"]), self.root(pb["l"])
            # a compared temporary that is a live copy of a (mutable) variable stands for that variable too
            As = {ra} | ({self.root(st[("cpy", pa["l"])])} if ("cpy", pa["l"]) in st else set())
            Bs = {rb} | ({self.root(st[("cpy", pb["l"])])} if ("cpy", pb["l"]) in st else set())
            for xa in As:
                for xb in Bs:
                    if op in ("Ge", "Gt"):
                        st[("rel", xa, xb)] = True      # a >= b
                    elif op in ("Le", "Lt"):
                        st[("rel", xb, xa)] = True
                    elif op == "Eq":
                        st[("rel", xa, xb)] = True
                        st[("rel", xb, xa)] = True
        for o, nv in ((lo, na), (ro, nb)):
            p = op_place(o)
            if p is not None and all(e[0] == "*" for e in p["pr"]):
                self.set_class(st, p["l"], nv)
                if not p["pr"] and ("cpy", p["l"]) in st:
                    self.set_class(st, st[("cpy", p["l"])], nv)
        return True

    def refine_contains(self, st, bl, truth):
        rng_op, x_op, incl = self.contains[bl]
        pr = self.promoted_range(rng_op)
        xp = op_place(x_op)
        if pr is None or xp is None:
            return True
        lo, hi = pr
        if not incl:
            hi -= 1
        x = self.root(xp["l"])
        cur = self.get(st, x)
        if cur is None:
            return True
        if truth:
            nv = meet(cur, (lo, hi))
            if nv is None:
                return False
            self.set_class(st, xp["l"], nv)
        else:
            # outside the range: cannot represent a hole; refine only at the ends
            if cur[0] >= lo and cur[1] <= hi:
                return False
        return True

    # ------------------------------------------------------------------ call transfer
    def call(self, st, t):
        """abstract result of a call: (interval of the dest local or None, interval of the dest's payload or None)"""
        c = t.get("callee") or ""
        m = c.split("::")[-1]
        dty = self.b.local_ty(t["dest"]["l"])
        rng = ty_range(dty)
        args = [self.eval_op(st, a) for a in t["args"]]
        if m in ("into_iter", "rev", "by_ref", "iter") and t["args"] and not t["dest"]["pr"]:
            p = op_place(t["args"][0])
            if p is not None:
                r = self.ranges.get(p["l"]) or self.ranges.get(self.root(p["l"]))
                if r:
                    self.ranges[t["dest"]["l"]] = r
        if c in self.call_summaries and m not in ("len",):
            v, pz = self.call_summaries[c]
            if v is not None or pz is not None:
                return (clip(v, rng) if (v is not None and rng) else None), pz
        if m == "len" and rng and ("BinaryData" in c or "Vec" in c or "slice" in c or "VecDeque" in c or "Rc" in c or "str" in c):
            return (0, self.len_bound), None
        if m in ("min",) and len(args) == 2 and all(args) and rng:
            return (min(args[0][0], args[1][0]), min(args[0][1], args[1][1])), None
        if m in ("max",) and len(args) == 2 and all(args) and rng:
            return (max(args[0][0], args[1][0]), max(args[0][1], args[1][1])), None
        if m == "clamp" and len(args) == 3 and all(args) and rng:
            return (max(args[0][0], args[1][0]), min(args[0][1], args[2][1])), None
        if m in ("saturating_add", "saturating_sub", "saturating_mul", "wrapping_add", "wrapping_sub", "wrapping_mul", "wrapping_shl", "wrapping_shr", "wrapping_neg") and rng:
            if m.startswith("saturating") and all(args) and len(args) == 2:
                op = {"add": "Add", "sub": "Sub", "mul": "Mul"}[m.split("_")[1]]
                a, b = args
                if op == "Add":
                    res = (a[0] + b[0], a[1] + b[1])
                elif op == "Sub":
                    res = (a[0] - b[1], a[1] - b[0])
                else:
                    cs = [a[0] * b[0], a[0] * b[1], a[1] * b[0], a[1] * b[1]]
                    res = (min(cs), max(cs))
                return (max(res[0], rng[0]), min(res[1], rng[1])) if res[0] <= rng[1] and res[1] >= rng[0] else rng, None
            return rng, None
        if m in ("checked_add", "checked_sub", "checked_mul", "checked_div", "checked_shl", "checked_shr", "checked_rem", "checked_neg", "checked_pow"):
            pt = payload_ty(dty)
            return None, INT_RANGES.get(pt)
        if m in ("unsigned_abs", "abs") and args and args[0]:
            a = args[0]
            hi = max(abs(a[0]), abs(a[1]))
            lo = 0 if a[0] <= 0 <= a[1] else min(abs(a[0]), abs(a[1]))
            return clip((lo, hi), rng) if rng else None, None
        if m in ("count_ones", "count_zeros", "leading_zeros", "trailing_zeros", "leading_ones", "trailing_ones") and args:
            aty = self.b.local_ty(op_place(t["args"][0])["l"]) if op_place(t["args"][0]) else ""
            return (0, BITS.get(aty.lstrip("&"), 128)), None
        if m == "div_ceil" and len(args) == 2 and all(args) and args[1][0] > 0 and args[0][0] >= 0:
            return (-(-args[0][0] // args[1][1]), -(-args[0][1] // args[1][0])), None
        if m in ("rem_euclid",) and len(args) == 2 and all(args) and args[1][0] > 0:
            return (0, args[1][1] - 1), None
        if m == "from" and rng and args and args[0]:
            return clip(args[0], rng), None
        if m in ("unwrap", "expect", "unwrap_or", "unwrap_or_default", "unwrap_unchecked") and t["args"]:
            p = op_place(t["args"][0])
            if p is not None:
                pay = st.get(("pay", p["l"])) or st.get(("pay", self.root(p["l"])))
                if pay and rng:
                    if m == "unwrap_or" and len(args) > 1 and args[1]:
                        pay = join(pay, args[1])
                    return clip(pay, rng), None
            return rng, None
        if m in ("branch", "ok_or", "ok_or_else", "ok", "map_err", "copied", "cloned", "into_iter", "as_ref") and t["args"]:
            p = op_place(t["args"][0])
            if p is not None:
                pay = st.get(("pay", p["l"])) or st.get(("pay", self.root(p["l"])))
                if pay:
                    return None, pay
            pt = payload_ty(dty)
            return None, INT_RANGES.get(pt)
        if m == "next" and t["args"]:
            # iterator over a Range<usize>: payload in [start, end-1]
            p = op_place(t["args"][0])
            if p is not None:
                r = self.ranges.get(self.root(p["l"])) or self.ranges.get(p["l"])
                if r:
                    lo, hi, incl = r
                    if lo and hi:
                        return None, (lo[0], hi[1] if incl else hi[1] - 1)
            pt = payload_ty(dty)
            return None, INT_RANGES.get(pt)
        if rng:
            return rng, None
        pt = payload_ty(dty)
        return None, INT_RANGES.get(pt)

    # ------------------------------------------------------------------ fixpoint
    def run(self, max_iter=60):
        b = self.b
        n = b.n
        init = {}
        for l in b.locals:
            i = l["i"]
            if 0 < i <= b.mir["argc"]:
                if i in self.param_ranges:
                    init[i] = self.param_ranges[i]
        self.state_in = {0: init}
        work = [0]
        visits = {}
        self.range_facts = {}      # (block, stmt) -> (start interval, end interval) of a constructed Range
        self.ret_payloads = []     # payload intervals of `_0 = Ok(x) / Some(x)`
        self.ret_values = []
        self.assert_facts = {}     # block -> (msg, fits?, operand intervals)
        self.cast_facts = {}       # (block, stmt) -> (from, to, interval, fits?)
        self.call_arg_facts = {}   # block -> [arg intervals]
        while work:
            bi = work.pop(0)
            visits[bi] = visits.get(bi, 0) + 1
            st = dict(self.state_in.get(bi, {}))
            blk = b.blocks[bi]
            if blk.get("cleanup"):
                continue
            widen = visits[bi] > 8
            for si, s in enumerate(blk["stmts"]):
                if s["k"] != "assign":
                    continue
                rv = s["rv"]
                p = s["p"]
                val = None
                pay = None
                if rv["k"] == "use":
                    val = self.eval_op(st, rv["op"])
                    src = op_place(rv["op"])
                    if src is not None and not src["pr"]:
                        k2 = ("pay", src["l"])
                        if k2 in st:
                            pay = st[k2]
                        if src["l"] in self.ranges and not p["pr"]:
                            self.ranges[p["l"]] = self.ranges[src["l"]]
                elif rv["k"] == "ref":
                    val = self.eval_op(st, {"c": "copy", "p": rv["p"]})
                    if not rv["p"]["pr"] and rv["p"]["l"] in self.ranges and not p["pr"]:
                        self.ranges[p["l"]] = self.ranges[rv["p"]["l"]]
                elif rv["k"] == "cast":
                    a = self.eval_op(st, rv["op"])
                    rng = ty_range(rv["to"])
                    if rng and rv["ck"].startswith("IntToInt"):
                        frng = ty_range(rv["from"]) or (-INF, INF)
                        a2 = a if a is not None else frng
                        fits = a2[0] >= rng[0] and a2[1] <= rng[1]
                        self.cast_facts[(bi, si)] = (rv["from"], rv["to"], a2, fits)
                        val = a2 if fits else rng
                    elif rng:
                        val = rng
                elif rv["k"] == "bin":
                    a = self.eval_op(st, rv["l"])
                    c = self.eval_op(st, rv["r"])
                    ty = rv.get("lty", "")
                    res, fits = self.binop(rv["op"], a, c, ty)
                    if rv["op"].startswith("Sub") and not fits and ty_range(ty) and ty_range(ty)[0] == 0:
                        pa, pb = op_place(rv["l"]), op_place(rv["r"])
                        if pa is not None and pb is not None and not pa["pr"] and not pb["pr"]:
                            if st.get(("rel", self.root(pa["l"]), self.root(pb["l"]))):
                                fits = True
                                res = (0, a[1] if a else ty_range(ty)[1])
                    if "WithOverflow" in rv["op"]:
                        pay = res
                        st[("ovf", p["l"])] = fits
                        st[("ovfops", p["l"])] = (a, c)
                    elif rv["op"] in ("Lt", "Le", "Gt", "Ge", "Eq", "Ne"):
                        val = (0, 1)
                    else:
                        val = res
                elif rv["k"] == "un":
                    a = self.eval_op(st, rv["x"])
                    if rv["op"] == "Neg" and a:
                        val = (-a[1], -a[0])
                    elif rv["op"] == "Not" and self.local_range(p["l"]) == (0, 1):
                        val = (0, 1)
                elif rv["k"] == "agg":
                    if rv.get("kind") == "adt" and rv.get("variant") in ("Some", "Ok", "Continue") and rv["ops"]:
                        pay = self.eval_op(st, rv["ops"][0])
                        if p["l"] == 0 and not p["pr"]:
                            self.ret_payloads.append(pay)
                    if rv.get("kind") == "adt" and (rv.get("adt") or "").endswith("ops::range::Range") and len(rv["ops"]) == 2 and not p["pr"]:
                        self.ranges[p["l"]] = (self.eval_op(st, rv["ops"][0]), self.eval_op(st, rv["ops"][1]), False)
                        prev = self.range_facts.get((bi, si))
                        cur = (self.eval_op(st, rv["ops"][0]), self.eval_op(st, rv["ops"][1]))
                        if prev is not None and prev[1] is not None and cur[1] is not None:
                            cur = (cur[0], join(prev[1], cur[1]))
                        self.range_facts[(bi, si)] = cur
                    if rv.get("kind") == "tuple" and len(rv["ops"]) >= 1:
                        pay = self.eval_op(st, rv["ops"][0])
                if not p["pr"]:
                    l = p["l"]
                    # `l` gets a new value: relations and copy links that mention its old value are void
                    if len(self.b_defs.get(l, ())) > 1:
                        for key in [k_ for k_ in st if isinstance(k_, tuple) and ((k_[0] == "rel" and l in k_[1:]) or (k_[0] == "cpy" and (k_[1] == l or st[k_] == l)))]:
                            st.pop(key, None)
                    else:
                        st.pop(("cpy", l), None)
                    if rv["k"] == "use" and op_place(rv["op"]) is not None and not op_place(rv["op"])["pr"] and ty_range(b.local_ty(l)):
                        st[("cpy", l)] = op_place(rv["op"])["l"]     # until either side is reassigned, l and the source hold the same value
                    rng = self.local_range(l)
                    if val is not None and rng is not None and ty_range(b.local_ty(l)):
                        st[l] = clip(val, rng)
                    else:
                        st.pop(l, None)
                    if pay is not None:
                        st[("pay", l)] = pay
                    else:
                        st.pop(("pay", l), None)
            t = blk["term"]
            k = t["k"]
            outs = []
            if k == "call":
                self.call_arg_facts[bi] = [self.eval_op(st, a) for a in t["args"]]
                val, pay = self.call(st, t)
                d = t["dest"]
                if not d["pr"]:
                    if val is not None and ty_range(b.local_ty(d["l"])):
                        st[d["l"]] = val
                    else:
                        st.pop(d["l"], None)
                    if pay is not None:
                        st[("pay", d["l"])] = pay
                    else:
                        st.pop(("pay", d["l"]), None)
                if t.get("t") is not None:
                    outs.append((t["t"], st))
            elif k == "assert":
                if t["msg"].startswith("overflow") or t["msg"] in ("divzero", "remzero", "bounds"):
                    ops = [self.eval_op(st, o) for o in t["ops"]]
                    fits = None
                    cl = op_place(t["cond"])
                    if t["msg"].startswith("overflow") and cl is not None:
                        fits = st.get(("ovf", cl["l"]))
                        if fits is None and t["msg"] in ("overflow:Shl", "overflow:Shr") and len(ops) == 2 and ops[1] is not None:
                            aty = None
                            ap = op_place(t["ops"][0])
                            if ap is not None:
                                aty = b.local_ty(ap["l"])
                            elif t["ops"][0].get("c") == "const":
                                aty = t["ops"][0].get("ty")
                            bits = BITS.get(aty or "", 0)
                            fits = bits > 0 and ops[1][0] >= 0 and ops[1][1] < bits
                    elif t["msg"] in ("divzero", "remzero"):
                        # the assert operand is the dividend; the divisor is the operand of the `Eq(divisor, 0)` that feeds the condition
                        dv = None
                        if cl is not None and cl["l"] in self.cmp and self.cmp[cl["l"]][0] == "Eq":
                            dv = self.eval_op(st, self.cmp[cl["l"]][1])
                        ops = [dv]
                        fits = dv is not None and not (dv[0] <= 0 <= dv[1])
                    elif t["msg"] == "bounds" and len(ops) == 2 and all(ops):
                        fits = ops[1][1] < ops[0][0]
                    prev = self.assert_facts.get(bi)
                    self.assert_facts[bi] = (t["msg"], bool(fits) if prev is None else (bool(fits) and prev[1]), ops)
                outs.append((t["t"], st))
            elif k == "switch":
                l = op_local(t["op"])
                edges = [(v, bb) for v, bb in t["targets"]] + [("otherwise", t["otherwise"])]
                vals = [v for v, _bb in t["targets"]]
                for v, bb in edges:
                    st2 = dict(st)
                    feasible = True
                    if l is not None:
                        src = self.root(l)
                        for cand in (l, src):
                            if cand in self.cmp and self.local_range(l) == (0, 1):
                                op, lo_, ro_ = self.cmp[cand]
                                truth = (v != 0) if v != "otherwise" else (0 in vals)
                                if v == "otherwise" and 0 not in vals:
                                    break
                                feasible = self.refine_cmp(st2, op, lo_, ro_, truth)
                                break
                            if cand in self.contains:
                                truth = (v != 0) if v != "otherwise" else (0 in vals)
                                feasible = self.refine_contains(st2, cand, truth)
                                break
                        else:
                            cur = self.get(st2, l)
                            if cur is not None and ty_range(b.local_ty(l)):
                                if v != "otherwise":
                                    nv = meet(cur, (v, v))
                                    if nv is None:
                                        feasible = False
                                    else:
                                        self.set_class(st2, l, nv)
                    if feasible:
                        outs.append((bb, st2))
            elif k in ("goto", "drop"):
                outs.append((t["t"], st))
            for bb, st2 in outs:
                old = self.state_in.get(bb)
                if old is None:
                    self.state_in[bb] = dict(st2)
                    work.append(bb)
                    continue
                new = {}
                changed = False
                for key in set(old) | set(st2):
                    a, c = old.get(key), st2.get(key)
                    if isinstance(key, tuple) and key[0] in ("ovf", "ovfops"):
                        continue
                    if isinstance(key, tuple) and key[0] == "rel":
                        if a and c:
                            new[key] = True
                        elif key in old:
                            changed = True
                        continue
                    if isinstance(key, tuple) and key[0] == "cpy":
                        if a is not None and a == c:
                            new[key] = a
                        elif key in old:
                            changed = True
                        continue
                    if a is None or c is None:
                        # unknown on one side -> unknown
                        if key in old:
                            changed = True
                        continue
                    j = join(a, c)
                    if widen and j != a:
                        rng = None
                        if isinstance(key, int):
                            rng = self.local_range(key)
                        elif key[0] == "pay":
                            rng = INT_RANGES.get(payload_ty(b.local_ty(key[1])) or "", None)
                        rng = rng or (-INF, INF)
                        j = (rng[0] if j[0] < a[0] else j[0], rng[1] if j[1] > a[1] else j[1])
                    new[key] = j
                    if j != a:
                        changed = True
                if changed or set(new) != set(old):
                    self.state_in[bb] = new
                    if visits.get(bb, 0) < max_iter:
                        work.append(bb)
        return self


def return_summary(body, **kw):
    """(interval of the returned integer or None, interval of the returned Ok/Some payload or None, analysis)"""
    iv = Intervals(body, **kw).run()
    val = None
    first = True
    for bi, blk in enumerate(body.blocks):
        if blk.get("cleanup") or blk["term"]["k"] != "return" or bi not in iv.state_in:
            continue
        v = iv.state_in[bi].get(0)
        if first:
            val, first = v, False
        else:
            val = join(val, v) if (val is not None and v is not None) else None
    pay = None
    if iv.ret_payloads and all(x is not None for x in iv.ret_payloads):
        for x in iv.ret_payloads:
            pay = join(pay, x)
    return val, pay, iv
