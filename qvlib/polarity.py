"""Quantifier polarity of a boolean function over the results of a (recursive) call, decided on MIR — independent of whether the code is written
with Iterator::all/any, an early-return loop, a flag + break, or a `settles` variable.

For a call site c (block) inside a loop of `body`, with the call's result forced to r in {false, true} and everything else explored path-sensitively
with full constant propagation of bool / small-int locals (assignments of constants, copies, Not, Eq/Ne of known values, switches on known values):

    again(r)   : can control come back to c (another iteration) before returning?
    returns(r) : the set of values the function can return (True / False / None = unknown) WITHOUT coming back to c or to another call of the same
                 callee first

    forall  <=>  not again(False) and returns(False) == {False}  and  again(True)     (a failing element settles the answer: false)
    exists  <=>  not again(True)  and returns(True)  == {True}   and  again(False)    (a succeeding element settles the answer: true)

For a call site inside a closure handed to Iterator::all / Iterator::any the polarity is the adaptor, provided the closure returns the call's result
unchanged (returns(False) == {False} and returns(True) == {True} on the closure's own MIR); a negating closure flips nothing here: it is reported as
None (not classifiable) and the caller says so.
"""
from qvlib.facts import op_local, op_place
from qvlib.paths import KNOWN_DISCR


def _eval(body, start_block, env0, site, r, stop_calls, limit=120000):
    """explore from the top of `start_block` with the constant environment env0. The FIRST arrival at the call block `site` gets the result r; from
    then on, arriving at `site` again counts as 'again', arriving at another block of `stop_calls` ends the path, and returns are collected.
    (site=None: the result is already in env0 and collection starts at once.)  Returns (again?, other stop calls reached, set of return values)."""
    reached = set()
    rets = set()
    seen = set()
    e0 = dict(env0)
    if site is None:
        e0["#in"] = 1
    stack = [(start_block, frozenset(e0.items()))]
    steps = 0
    while stack:
        bi, fenv = stack.pop()
        if (bi, fenv) in seen:
            continue
        seen.add((bi, fenv))
        steps += 1
        if steps > limit:
            rets.add(None)
            break
        blk = body.blocks[bi]
        if blk.get("cleanup"):
            continue
        e = dict(fenv)
        for s in blk["stmts"]:
            if s["k"] != "assign" or s["p"]["pr"]:
                continue
            l = s["p"]["l"]
            rv = s["rv"]
            val = None
            dval = None
            if rv["k"] == "use":
                o = rv["op"]
                if o.get("c") == "const" and isinstance(o.get("val"), int):
                    val = o["val"]
                else:
                    m = op_local(o)
                    if m is not None:
                        val = e.get(m)
                        dval = e.get(("d", m))
            elif rv["k"] == "un" and rv["op"] == "Not":
                m = op_local(rv["x"])
                if m is not None and e.get(m) in (0, 1):
                    val = 1 - e[m]
            elif rv["k"] == "bin" and rv["op"] in ("Eq", "Ne"):
                vals = []
                for o in (rv["l"], rv["r"]):
                    if o.get("c") == "const" and isinstance(o.get("val"), int):
                        vals.append(o["val"])
                    else:
                        vals.append(e.get(op_local(o)) if op_local(o) is not None else None)
                if vals[0] is not None and vals[1] is not None:
                    val = int((vals[0] == vals[1]) == (rv["op"] == "Eq"))
            elif rv["k"] == "discr" and not [x for x in rv["p"]["pr"] if x[0] != "*"]:
                val = e.get(("d", rv["p"]["l"]))
            elif rv["k"] == "agg" and rv.get("kind") == "adt" and rv.get("variant") in KNOWN_DISCR and (
                    (rv.get("adt") or "").endswith("option::Option") or (rv.get("adt") or "").endswith("result::Result")):
                dval = KNOWN_DISCR[rv["variant"]]
            elif rv["k"] == "agg" and rv.get("kind") == "adt" and not rv.get("ops") and rv.get("vidx") is not None:
                dval = rv.get("vidx")
            if val is not None:
                e[l] = val
            else:
                e.pop(l, None)
            if dval is not None:
                e[("d", l)] = dval
            else:
                e.pop(("d", l), None)
        t = blk["term"]
        k = t["k"]
        if k == "return":
            if e.get("#in"):
                v = e.get(0)
                rets.add(bool(v) if v in (0, 1) else None)
            continue
        if k in ("unreachable", "resume", "abort"):
            continue
        if k == "call":
            d = t["dest"]
            if bi in stop_calls and e.get("#in"):
                reached.add(bi)
                continue
            if not d["pr"]:
                e.pop(d["l"], None)
                e.pop(("d", d["l"]), None)
                if bi == site and not e.get("#in"):
                    e["#in"] = 1
                    e[d["l"]] = r
            if t.get("t") is None:
                continue
            stack.append((t["t"], frozenset(e.items())))
            continue
        if k == "switch":
            l = op_local(t["op"])
            if l is not None and e.get(l) is not None:
                v = e[l]
                tgt = dict((val, bb) for val, bb in t["targets"]).get(v, t["otherwise"])
                stack.append((tgt, frozenset(e.items())))
            else:
                for _v, bb in body.switch_edges(bi):
                    stack.append((bb, frozenset(e.items())))
            continue
        for s2 in body.succ[bi]:
            if not body.blocks[s2].get("cleanup"):
                stack.append((s2, frozenset(e.items())))
    return (site in reached) if site is not None else False, reached - {site}, rets


def site_polarity(body, call_block, same_callee_blocks, env=None, start=0):
    """'all' | 'any' | None for the loop around the call in `call_block`; env: constants known at `start` (e.g. the union mode's discriminant)."""
    t = body.blocks[call_block]["term"]
    if t["k"] != "call" or t.get("t") is None or t["dest"]["pr"]:
        return None, "not a plain call"
    res = {}
    for r in (0, 1):
        res[r] = _eval(body, start, dict(env or {}), call_block, r, set(same_callee_blocks) | {call_block})
    again_f, _o1, ret_f = res[0]
    again_t, _o2, ret_t = res[1]
    detail = "after false: again=%s returns=%s; after true: again=%s returns=%s" % (again_f, sorted(map(str, ret_f)), again_t, sorted(map(str, ret_t)))
    if not again_f and ret_f == {False} and again_t:
        return "all", detail
    if not again_t and ret_t == {True} and again_f:
        return "any", detail
    return None, detail


def closure_identity(cbody, call_block, same_callee_blocks):
    """does the closure return the call's result unchanged?"""
    t = cbody.blocks[call_block]["term"]
    if t["k"] != "call" or t.get("t") is None or t["dest"]["pr"]:
        return False
    out = {}
    for r in (0, 1):
        _again, _other, rets = _eval(cbody, t["t"], {t["dest"]["l"]: r}, None, r, set(same_callee_blocks) - {call_block})
        out[r] = rets
    return out[0] == {False} and out[1] == {True}


def semantic_quantifiers(F, key, callee, lo, hi, env=None):
    """quantifier kinds ('all' / 'any' / 'unknown'), in source order, of the calls to `callee` made between source lines lo..hi of function `key`
    (its closures included), under the constants `env` known at entry (e.g. {("d", mode_local): 0}). Calls that are not inside any quantifier
    (plain conjunctions) contribute nothing."""
    from qvlib.paths import explore
    body = F.body(key)
    out = []
    sites = [bi for bi, t in body.calls() if t.get("callee") == callee]

    def line(b, bi):
        # code of an inlined (new) helper counts at the line of the call it was inlined at
        return b.blocks[bi].get("inl_line") or int(b.loc(bi).split(":")[-1])

    def reachable(bi):
        return explore(body, [(0, dict(env or {}))], want="target", targets=[bi]) is not None
    for c in sites:
        ln = line(body, c)
        if not (lo <= ln <= hi):
            continue
        in_loop = any(body.reaches(s2, c) for s2 in body.succ[c])
        if not in_loop or not reachable(c):
            continue
        kind, _detail = site_polarity(body, c, sites, env)
        out.append((ln, kind or "unknown"))
    # closures that carry the call: directly, or by handing a carrying closure to all/any (nested quantifiers)
    closures = F.closures_of(key)
    carried = {}      # closure key -> blocks in it whose result is "the call's result" (the call itself or an inner adaptor over a carrying closure)
    for ck in closures:
        cb = F.body(ck)
        cs = [bi for bi, t in cb.calls() if t.get("callee") == callee]
        if cs:
            carried[ck] = cs
    adaptor_of = {}   # closure key -> (parent key, adaptor call block, adaptor name)
    changed = True
    while changed:
        changed = False
        for pk in [key] + closures:
            pb = F.body(pk)
            for bi, si, st in pb.stmts():
                ck = st["rv"].get("closure") if st["k"] == "assign" else None
                if ck in carried:
                    cl = st["p"]["l"]
                    for b2, t2 in pb.calls():
                        if any((op_place(a) or {}).get("l") == cl for a in t2["args"]):
                            ent = (pk, b2, (t2.get("callee") or "").split("::")[-1])
                            if ent not in adaptor_of.setdefault(ck, []):
                                adaptor_of[ck].append(ent)
                                changed = True
                            if pk != key and b2 not in carried.setdefault(pk, []):
                                carried[pk].append(b2)
                                changed = True
    inl_lines = {}
    for blk in body.blocks:
        if blk.get("inl") and blk.get("inl_line"):
            inl_lines.setdefault(blk["inl"], set()).add(blk["inl_line"])
    for ck, pk, b2, m in [(ck_, e_[0], e_[1], e_[2]) for ck_, lst_ in adaptor_of.items() for e_ in lst_]:
        pb = F.body(pk)
        ln = line(pb, b2)
        owner = pk.split("::{closure")[0]
        if pk != key and owner != key and owner in inl_lines:
            # a closure of a helper that is inlined into `key`: it counts wherever the helper was inlined
            hits = [x for x in inl_lines[owner] if lo <= x <= hi]
            if not hits:
                continue
            ln = hits[0]
        elif not (lo <= ln <= hi):
            continue
        if pk == key and not reachable(b2):
            continue
        cb = F.body(ck)
        if m in ("all", "any"):
            blocks = carried.get(ck, [])
            ident = closure_identity(cb, blocks[0], blocks) if len(blocks) == 1 else None
            out.append((ln, m if ident else "unknown"))
        else:
            out.append((ln, "unknown"))
    out.sort()
    return [k for _ln, k in out]
