"""Loading and indexing of qvfacts output; MIR body wrapper with CFG utilities."""
import json
import os
from collections import defaultdict

import copy

from .extract import CheckError

KNOWN_FNS = os.path.join(os.path.dirname(os.path.dirname(os.path.abspath(__file__))), "rules", "tables", "known_fns.json")
TERMS_WITH_T = ("goto", "call", "drop", "assert")
MAX_INLINE_BLOCKS = 6000


class Facts:
    def __init__(self, facts_dir, crates=None):
        self.dir = facts_dir
        self.fns = {}      # key -> fn fact
        self.adts = {}     # key -> adt fact
        self.impls = []
        self.consts = {}
        self.crates = {}
        self.meta = json.load(open(os.path.join(facts_dir, "COMPLETE.json")))
        want = crates or [f[:-6] for f in sorted(os.listdir(facts_dir)) if f.endswith(".jsonl")]
        for c in want:
            p = os.path.join(facts_dir, c + ".jsonl")
            if not os.path.exists(p):
                raise CheckError("facts for crate %s missing" % c)
            n = 0
            with open(p) as fh:
                for line in fh:
                    o = json.loads(line)
                    k = o["k"]
                    if k == "fn":
                        # duplicate keys (e.g. macro-generated closures) get an ordinal suffix
                        key = o["key"]
                        if key in self.fns:
                            i = 2
                            while "%s#%d" % (key, i) in self.fns:
                                i += 1
                            key = "%s#%d" % (key, i)
                            o["key"] = key
                        self.fns[key] = o
                        n += 1
                    elif k == "adt":
                        self.adts[o["key"]] = o
                    elif k == "impl":
                        self.impls.append(o)
                    elif k == "const":
                        self.consts[o["key"]] = o
                    elif k == "crate":
                        self.crates[o["name"]] = o
            self.crates.setdefault(c, {})["fn_count"] = n
        self._bodies = {}
        self._raw_bodies = {}
        self._callers = None
        self._eff = {}
        # functions that did not exist when the rules were reviewed are TRANSPARENT: they are inlined into their callers, so that extracting a
        # helper / splitting a function does not move a rule's sites out of the function the rule is anchored in
        self.new_fns = set()
        self.aliases = {}
        self.gone_fns = set()
        if os.environ.get("QV_NO_INLINE") != "1" and os.path.exists(KNOWN_FNS):
            base = json.load(open(KNOWN_FNS))["fns"]
            known = set(base)
            fresh = {k for k, f in self.fns.items() if f.get("mir") and "::{closure" not in k and k not in known and not f.get("derived")}
            gone = {k for k in known if k not in self.fns and k.split("::")[0] in self.crates}
            if fresh and gone and isinstance(base, dict):
                self.aliases = match_renames(self, base, gone, fresh)
                if self.aliases:
                    self._apply_aliases(self.aliases)
            self.new_fns = {k for k, f in self.fns.items() if f.get("mir") and k.split("::{closure")[0] not in known and not f.get("derived")
                            and k.split("::{closure")[0] in self.fns}
            # reviewed functions that are gone for good (not renamed): rules that refer to them cannot decide (core.run_rules)
            self.gone_fns = {k for k in known if k not in self.fns and k.split("::")[0] in self.crates and isinstance(base, dict) and base.get(k)
                             and not k.startswith("<")}
        self.absorbed = set()
        if self.new_fns:
            called = set()
            for key, f in self.fns.items():
                mir = f.get("mir")
                if not mir:
                    continue
                for b in mir["blocks"]:
                    t = b["term"]
                    if t["k"] == "call" and not b.get("cleanup"):
                        for c in (t.get("callee"), t.get("resolved")):
                            if c in self.new_fns and c != key:
                                called.add(c)
            self.absorbed = {k for k in self.new_fns if k.split("::{closure")[0] in called}

    def _apply_aliases(self, aliases):
        """a reviewed function that was merely RENAMED keeps its reviewed name in the facts (keys, callee references, closures), so that every rule
        anchored on it — and every who-may-call list naming it — still applies."""
        pairs = sorted(aliases.items(), key=lambda kv: -len(kv[0]))

        def ren(sv):
            for newk, oldk in pairs:
                if sv == newk:
                    return oldk
                if sv.startswith(newk + "::{closure"):
                    return oldk + sv[len(newk):]
                if ("closure:" + newk) in sv:
                    return sv.replace("closure:" + newk, "closure:" + oldk)
            return sv

        def walk(o):
            if isinstance(o, dict):
                for k, v in o.items():
                    if isinstance(v, str):
                        if "::" in v:
                            o[k] = ren(v)
                    else:
                        walk(v)
            elif isinstance(o, list):
                for i, v in enumerate(o):
                    if isinstance(v, str):
                        if "::" in v:
                            o[i] = ren(v)
                    else:
                        walk(v)
        news = tuple(aliases)
        fns2 = {}
        for k, f in self.fns.items():
            walk(f)
            fns2[f["key"] if any(k == n or k.startswith(n + "::{closure") for n in news) else k] = f
        self.fns = fns2

    # ------------------------------------------------------------------ lookup
    def fn(self, key, required=True):
        f = self.fns.get(key)
        if f is None and required:
            raise CheckError("anchor function not found: %s" % key)
        if f is not None and self.new_fns and key not in self.new_fns:
            return self.effective_fn(key)
        return f

    def adt(self, key, required=True):
        a = self.adts.get(key)
        if a is None and required:
            raise CheckError("anchor type not found: %s" % key)
        return a

    def raw_mode(self):
        """context manager: bodies as written (no transparent inlining) — for censuses that count syntactic sites and reconcile moved ones."""
        F = self

        class _Raw:
            def __enter__(self_):
                self_.saved = (F.new_fns, F.absorbed, F._bodies, F._callers)
                F.new_fns, F.absorbed, F._bodies, F._callers = set(), set(), F._raw_bodies, None
                return F

            def __exit__(self_, *a):
                F._raw_bodies = F._bodies
                F.new_fns, F.absorbed, F._bodies, F._callers = self_.saved
                return False
        return _Raw()

    def body(self, key):
        b = self._bodies.get(key)
        if b is None:
            f = self.effective_fn(key)
            if not f.get("mir"):
                raise CheckError("no MIR for %s" % key)
            b = Body(f)
            self._bodies[key] = b
        return b

    def effective_fn(self, key):
        """the fn fact with every call to a transparent (new) function inlined into its MIR."""
        f = self.fns.get(key)
        if f is None:
            raise CheckError("anchor function not found: %s" % key)
        if not self.new_fns:
            return f
        e = self._eff.get(key)
        if e is None:
            e = f
            if f.get("mir"):
                mir = inline_new(self, f)
                if mir is not None:
                    e = dict(e, mir=mir, inlined=True)
            if f.get("hir") and self.transparent_callees(key):
                from . import hir as _hir
                e = dict(e, hir=dict(f["hir"], body=_hir.splice(self, f["hir"]["body"])), inlined=True)
            self._eff[key] = e
        return e

    def body_with(self, key, inline):
        """the body of `key` with the named workspace callees (and every transparent new function) inlined — for rules that follow a value across
        one specific call boundary."""
        f = self.fns.get(key)
        if f is None or not f.get("mir"):
            raise CheckError("anchor function not found: %s" % key)
        mir = inline_new(self, f, set(self.new_fns) | set(inline))
        return Body(f if mir is None else dict(f, mir=mir, inlined=True))

    def transparent_callees(self, key):
        """new functions reachable from `key` through calls that are inlined (for HIR-level rules: their bodies count as part of `key`)."""
        out = []
        work = [key] + [k for k in self.fns if k.startswith(key + "::{closure")]
        seen = set(work)
        while work:
            k = work.pop()
            f = self.fns.get(k)
            if not f or not f.get("mir"):
                continue
            if k != key and "::{closure" not in k:
                for ck in self.fns:
                    if ck.startswith(k + "::{closure") and ck not in seen:
                        seen.add(ck)
                        work.append(ck)
            for b in f["mir"]["blocks"]:
                t = b["term"]
                if t["k"] == "call" and not b.get("cleanup"):
                    for c in (t.get("callee"), t.get("resolved")):
                        if c in self.new_fns and c not in seen:
                            seen.add(c)
                            out.append(c)
                            work.append(c)
        return out

    def bodies(self, crate=None, pred=None):
        for key, f in self.fns.items():
            if crate and f["crate"] != crate and f["crate"] not in (crate if isinstance(crate, (list, tuple, set)) else ()):
                continue
            if not f.get("mir"):
                continue
            if key in self.absorbed:
                continue      # its sites are analysed inside its callers
            if pred and not pred(f):
                continue
            yield self.body(key)

    def fns_in(self, prefix):
        return [k for k in self.fns if k.startswith(prefix)]

    def closures_of(self, key):
        out = [k for k in self.fns if k.startswith(key + "::{closure")]
        for g in (self.transparent_callees(key) if self.new_fns else ()):
            if "::{closure" not in g:
                out += [k for k in self.fns if k.startswith(g + "::{closure")]
        return out

    def with_closures(self, key):
        return [key] + self.closures_of(key)

    def closure_builders(self, ck):
        """bodies that may build closure `ck` (its owner, the owner's other closures, and — for a closure of a transparent helper — the callers it is
        inlined into)"""
        owner = ck.rsplit("::{closure", 1)[0]
        cands = [owner] + [k for k in self.with_closures(owner.split("::{closure")[0]) if k != owner]
        if self.new_fns and owner.split("::{closure")[0] in self.new_fns:
            cands += [k2 for k in self.fns if "::{closure" not in k and k not in self.new_fns and owner.split("::{closure")[0] in self.transparent_callees(k)
                      for k2 in self.with_closures(k)]
        return [k for k in cands if k in self.fns and self.fns[k].get("mir")]

    def closure_use(self, ck):
        """(body, block, call terminator, argument position) of the call that closure `ck` is handed to (an iterator / Option adaptor), or None"""
        for pk in self.closure_builders(ck):
            pb = self.body(pk)
            for _bi, _si, st in pb.stmts():
                if st["k"] == "assign" and st["rv"].get("closure") == ck:
                    cl = st["p"]["l"]
                    for b2, t2 in pb.calls():
                        for ai, a in enumerate(t2["args"]):
                            if (op_place(a) or {}).get("l") == cl and not (op_place(a) or {}).get("pr"):
                                return pb, b2, t2, ai
        return None

    def captured(self, ck, place):
        """`place` (a MIR place of closure `ck`) reads a captured variable: -> (body that builds the closure, operand captured there), else None.
        Name-free: the i-th field of the closure environment (_1) is the i-th operand of the closure aggregate in the builder."""
        if "::{closure" not in ck or place is None or place.get("l") != 1:
            return None
        fs = [e for e in place["pr"] if e[0] == "f"]
        if not fs or len(fs[0]) < 5 or fs[0][4] is None:
            return None
        idx = fs[0][4]
        owner = ck.rsplit("::{closure", 1)[0]
        cands = [owner] + [k for k in self.with_closures(owner.split("::{closure")[0]) if k != owner]
        # a closure of a transparent (new) helper is built inside whatever the helper was inlined into
        if self.new_fns and owner.split("::{closure")[0] in self.new_fns:
            cands += [k for k in self.fns if "::{closure" not in k and k not in self.new_fns and owner.split("::{closure")[0] in self.transparent_callees(k)]
        for pk in cands:
            if pk not in self.fns or not self.fns[pk].get("mir"):
                continue
            pb = self.body(pk)
            for _bi, _si, st in pb.stmts():
                if st["k"] == "assign" and st["rv"].get("closure") == ck:
                    ops = st["rv"].get("ops") or []
                    if idx < len(ops):
                        return pb, ops[idx]
        return None

    def variants(self, adt_key):
        return [v["name"] for v in self.adt(adt_key)["variants"]]

    def variant_fields(self, adt_key, variant=None):
        a = self.adt(adt_key)
        for v in a["variants"]:
            if variant is None or v["name"] == variant:
                return v["fields"]
        raise CheckError("variant %s::%s not found" % (adt_key, variant))

    # ------------------------------------------------------------------ call graph
    def callers(self):
        """callee key -> list of (caller key, block index)."""
        if self._callers is None:
            cs = defaultdict(list)
            for key, f in self.fns.items():
                if not f.get("mir") or key in self.absorbed:
                    continue
                mir = self.effective_fn(key)["mir"]
                for bi, b in enumerate(mir["blocks"]):
                    if b.get("cleanup"):
                        continue
                    t = b["term"]
                    if t["k"] == "call" and t.get("callee"):
                        cs[t["callee"]].append((key, bi))
                        if t.get("resolved"):
                            cs[t["resolved"]].append((key, bi))
            self._callers = cs
        return self._callers

    def callers_of(self, callee):
        return self.callers().get(callee, [])

    def reach(self, roots, boundary=lambda k: False, follow_fnptr=True):
        """Transitive local callees (incl. closures constructed and fn items reified) of the root functions."""
        seen = set()
        work = [r for r in roots if r in self.fns]
        while work:
            k = work.pop()
            if k in seen:
                continue
            seen.add(k)
            if boundary(k) and k not in roots:
                continue
            f = self.fns[k]
            mir = f.get("mir")
            if not mir:
                continue
            for callee in mir_refs(mir, follow_fnptr):
                if callee in self.fns and callee not in seen:
                    work.append(callee)
        return seen - self.absorbed if self.absorbed else seen


def fn_signature(f):
    """what identifies a function apart from its name: parameter and return types, and the set of things it calls."""
    mir = f["mir"]
    callees = set()
    for b in mir["blocks"]:
        t = b["term"]
        if t["k"] == "call" and not b.get("cleanup") and t.get("callee"):
            callees.add("::".join(t["callee"].split("::")[-2:]))
    return {"argc": mir["argc"], "params": [l["ty"] for l in mir["locals"][1:mir["argc"] + 1]], "ret": mir["locals"][0]["ty"], "callees": sorted(callees)[:60],
            "blocks": len(mir["blocks"])}


def match_renames(F, base, gone, fresh):
    """{new key: reviewed key} for reviewed functions that disappeared while a new function of the same crate with (nearly) the same signature and
    callee set appeared: a rename / move. Conservative: best match must be clearly better than the runner-up."""
    out = {}
    taken = set()
    for old in sorted(gone):
        sig = base.get(old) or {}
        if not sig:
            continue
        best = []
        for k in fresh:
            if k in taken or k.split("::")[0] != old.split("::")[0]:
                continue
            s2 = fn_signature(F.fns[k])
            if abs(s2["argc"] - sig["argc"]) > 1:
                continue
            a, b = set(sig["callees"]), set(s2["callees"])
            own = "::".join(old.split("::")[-2:])
            b = {("::".join(old.split("::")[-2:]) if x == "::".join(k.split("::")[-2:]) else x) for x in b}   # self-recursion under the new name
            jac = len(a & b) / float(len(a | b)) if (a | b) else (1.0 if abs(s2["blocks"] - sig["blocks"]) <= 2 else 0.0)
            pa, pb = sorted(sig["params"]), sorted(s2["params"])
            ptypes = len(set(pa) & set(pb)) / float(max(len(set(pa) | set(pb)), 1)) if (pa or pb) else 1.0
            score = 0.6 * jac + 0.25 * ptypes + 0.15 * (1.0 if s2["ret"] == sig["ret"] else 0.0)
            best.append((score, k))
        best.sort(reverse=True)
        if best and best[0][0] >= 0.7 and (len(best) == 1 or best[0][0] - best[1][0] >= 0.15):
            out[best[0][1]] = old
            taken.add(best[0][1])
    return out


def _renum(o, loff, boff, poff):
    """deep copy of a MIR JSON fragment with locals, blocks and promoted indices shifted."""
    if isinstance(o, dict):
        if "l" in o and "pr" in o and isinstance(o["l"], int):
            pr = []
            for e in o["pr"]:
                if isinstance(e, list) and e and e[0] == "i":
                    pr.append(["i", e[1] + loff])
                else:
                    pr.append(copy.deepcopy(e))
            out = {"l": o["l"] + loff, "pr": pr}
            for k, v in o.items():
                if k not in ("l", "pr"):
                    out[k] = _renum(v, loff, boff, poff)
            return out
        out = {}
        k_ = o.get("k")
        for k, v in o.items():
            if k == "t" and k_ in TERMS_WITH_T and isinstance(v, int):
                out[k] = v + boff
            elif k == "targets" and k_ == "switch":
                out[k] = [[val, bb + boff] for val, bb in v]
            elif k == "otherwise" and k_ == "switch":
                out[k] = v + boff
            elif k == "promoted" and isinstance(v, int) and o.get("c") == "const":
                out[k] = v + poff
            else:
                out[k] = _renum(v, loff, boff, poff)
        return out
    if isinstance(o, list):
        return [_renum(v, loff, boff, poff) for v in o]
    return o


def inline_new(F, f, transparent=None):
    """MIR of `f` with calls to transparent functions spliced in (None when there is nothing to inline)."""
    mir = f["mir"]
    NEW = F.new_fns if transparent is None else transparent
    if not any(b["term"]["k"] == "call" and not b.get("cleanup") and ((b["term"].get("callee") in NEW) or (b["term"].get("resolved") in NEW))
               for b in mir["blocks"]):
        return None
    mir = copy.deepcopy(mir)
    mir.setdefault("promoted", [])
    chain = {}     # block index -> tuple of callee keys on the inlining chain that produced it
    changed = True
    while changed and len(mir["blocks"]) < MAX_INLINE_BLOCKS:
        changed = False
        for bi in range(len(mir["blocks"])):
            b = mir["blocks"][bi]
            t = b["term"]
            if t["k"] != "call" or b.get("cleanup"):
                continue
            g = t.get("callee") if t.get("callee") in NEW else (t.get("resolved") if t.get("resolved") in NEW else None)
            if g is None or g == f["key"] or g in chain.get(bi, ()) or len(chain.get(bi, ())) >= 5:
                continue
            gf = F.fns[g]
            gm = gf.get("mir")
            if not gm or len(t["args"]) != gm["argc"]:
                continue
            loff = len(mir["locals"])
            boff = len(mir["blocks"])
            poff = len(mir["promoted"])
            for l in gm["locals"]:
                nl = dict(l)
                nl["i"] = l["i"] + loff
                nl["inl"] = g
                if l["i"] == 0:
                    nl["inl_ret"] = True
                if 0 < l["i"] <= gm["argc"]:
                    nl["name"] = None      # a parameter of an inlined helper is a plain copy of the argument, not a variable of its own
                mir["locals"].append(nl)
            mir["promoted"] += copy.deepcopy(gm.get("promoted") or [])
            sp = t.get("sp")
            for j, a in enumerate(t["args"]):
                b["stmts"].append({"k": "assign", "p": {"l": loff + 1 + j, "pr": []}, "rv": {"k": "use", "op": a}, "sp": sp, "inl_arg": g})
            dest, tgt = t["dest"], t.get("t")
            b["term"] = {"k": "goto", "t": boff, "sp": sp, "inl_call": g}
            for gb in gm["blocks"]:
                nb = _renum(gb, loff, boff, poff)
                nb["file"] = gf["file"]
                nb["inl"] = g
                nb["inl_line"] = b.get("inl_line") or (sp[0] if sp else None)     # line of the OUTERMOST call this code was inlined at
                if nb["term"]["k"] == "return" and not nb.get("cleanup"):
                    nb["stmts"].append({"k": "assign", "p": copy.deepcopy(dest), "rv": {"k": "use", "op": {"c": "move", "p": {"l": loff, "pr": []}}},
                                        "sp": nb["term"].get("sp"), "inl_ret": g})
                    nb["term"] = {"k": "goto", "t": tgt, "sp": nb["term"].get("sp")} if tgt is not None else {"k": "unreachable"}
                chain[len(mir["blocks"])] = chain.get(bi, ()) + (g,)
                mir["blocks"].append(nb)
            changed = True
    return mir


def mir_refs(mir, follow_fnptr=True):
    """Every function/closure key referenced by a MIR body (calls, closure aggregates, fn-item constants)."""
    out = set()

    def op(o):
        if o and o.get("c") == "const":
            if follow_fnptr and o.get("fn"):
                out.add(o["fn"])
            if o.get("closure"):
                out.add(o["closure"])

    for b in mir["blocks"]:
        if b.get("cleanup"):
            continue
        for s in b["stmts"]:
            rv = s.get("rv")
            if not rv:
                continue
            if rv["k"] == "agg":
                if rv.get("closure"):
                    out.add(rv["closure"])
                for o in rv["ops"]:
                    op(o)
            elif rv["k"] in ("use", "cast"):
                op(rv.get("op"))
        t = b["term"]
        if t["k"] == "call":
            if t.get("callee"):
                out.add(t["callee"])
                if t.get("resolved"):
                    out.add(t["resolved"])
            for a in t["args"]:
                op(a)
    return out


# ---------------------------------------------------------------------- places / operands
def place_str(p, body=None):
    s = "_%d" % p["l"]
    if body is not None:
        nm = body.local_name(p["l"])
        if nm:
            s = nm
    for e in p["pr"]:
        if e[0] == "*":
            s = "(*%s)" % s
        elif e[0] == "f":
            s = "%s.%s" % (s, e[1])
        elif e[0] == "d":
            s = "(%s as %s)" % (s, e[1])
        elif e[0] == "i":
            s = "%s[_%d]" % (s, e[1])
        elif e[0] == "c":
            s = "%s[%d]" % (s, e[1])
        else:
            s = "%s[..]" % s
    return s


def place_fields(p):
    """[(owner adt, field name, variant)] for every field projection, outermost last."""
    return [(e[2], e[1], e[3]) for e in p["pr"] if e[0] == "f"]


def op_place(o):
    if o and o.get("c") in ("copy", "move"):
        return o["p"]
    return None


def op_local(o):
    """local index if the operand is a bare local (no projection)."""
    p = op_place(o)
    if p is not None and not p["pr"]:
        return p["l"]
    return None


def op_str(o, body=None):
    if o is None:
        return "?"
    if o.get("c") == "const":
        return o.get("fn") or o.get("text", "const")
    if o.get("p"):
        return place_str(o["p"], body)
    return "?"


class Body:
    """A MIR body with CFG helpers. Cleanup (unwind) blocks are ignored."""

    def __init__(self, fn):
        self.fn = fn
        self.key = fn["key"]
        self.file = fn["file"]
        self.mir = fn["mir"]
        self.blocks = self.mir["blocks"]
        self.locals = self.mir["locals"]
        self.n = len(self.blocks)
        self.succ = [self._succ(b) for b in self.blocks]
        self.pred = [[] for _ in range(self.n)]
        for i, ss in enumerate(self.succ):
            for s in ss:
                self.pred[s].append(i)
        self._dom = None
        self._pdom = None
        self._defs = None

    def _succ(self, b):
        if b.get("cleanup"):
            return []
        t = b["term"]
        k = t["k"]
        if k == "goto":
            return [t["t"]]
        if k == "switch":
            out = []
            for _v, bb in t["targets"]:
                if bb not in out:
                    out.append(bb)
            if t["otherwise"] not in out:
                out.append(t["otherwise"])
            # unreachable otherwise-blocks stay (harmless)
            return out
        if k in ("call", "drop", "assert"):
            return [t["t"]] if t.get("t") is not None else []
        return []

    # --- parameters by type (robust against renames)
    def params(self):
        return [l for l in self.locals if 0 < l["i"] <= self.mir["argc"]]

    def param_by_type(self, pred, nth=0, what="parameter"):
        """index of the nth parameter whose type satisfies pred (a substring or a callable)."""
        f = pred if callable(pred) else (lambda ty: pred in ty)
        hits = [l["i"] for l in self.params() if f(l["ty"])]
        if len(hits) <= nth:
            raise CheckError("%s: no %s of the expected type (%s)" % (self.key, what, pred if not callable(pred) else "predicate"))
        return hits[nth]

    # --- naming
    def local_name(self, i):
        return self.locals[i].get("name")

    def local_ty(self, i):
        return self.locals[i]["ty"]

    def loc(self, bi, si=None):
        b = self.blocks[bi]
        if si is not None and si < len(b["stmts"]):
            sp = b["stmts"][si].get("sp")
        else:
            sp = b["term"].get("sp")
            if sp is None and b["stmts"]:
                sp = b["stmts"][-1].get("sp")
        line = sp[0] if sp else self.fn["line"]
        return "%s:%d" % (b.get("file") or self.file, line)

    # --- enumeration
    def calls(self, pred=None):
        """yield (block index, terminator) for call terminators in non-cleanup blocks."""
        for i, b in enumerate(self.blocks):
            if b.get("cleanup"):
                continue
            t = b["term"]
            if t["k"] == "call" and (pred is None or pred(t)):
                yield i, t

    def calls_to(self, *names, resolved=True):
        """calls whose callee key (or resolved impl key) equals / ends with one of `names`."""
        def m(t):
            for c in (t.get("callee"), t.get("resolved") if resolved else None):
                if not c:
                    continue
                for n in names:
                    if c == n or c.endswith("::" + n):
                        return True
            return False
        return list(self.calls(m))

    def stmts(self):
        for i, b in enumerate(self.blocks):
            if b.get("cleanup"):
                continue
            for j, s in enumerate(b["stmts"]):
                yield i, j, s

    def returns(self):
        return [i for i, b in enumerate(self.blocks) if not b.get("cleanup") and b["term"]["k"] == "return"]

    # --- reachability
    def reachable_from(self, start, removed=(), removed_edges=()):
        removed = set(removed)
        removed_edges = set(removed_edges)
        seen = set()
        work = [start] if start not in removed else []
        while work:
            x = work.pop()
            if x in seen:
                continue
            seen.add(x)
            for s in self.succ[x]:
                if s not in removed and s not in seen and (x, s) not in removed_edges:
                    work.append(s)
        return seen

    def reaches(self, a, b, removed=(), removed_edges=()):
        return b in self.reachable_from(a, removed, removed_edges)

    def live_blocks(self):
        return self.reachable_from(0)

    # --- dominators (iterative, on reachable blocks)
    def dominators(self):
        if self._dom is None:
            live = sorted(self.live_blocks())
            allb = set(live)
            dom = {b: set(allb) for b in live}
            dom[0] = {0}
            changed = True
            while changed:
                changed = False
                for b in live:
                    if b == 0:
                        continue
                    ps = [p for p in self.pred[b] if p in allb]
                    new = set(allb)
                    for p in ps:
                        new &= dom[p]
                    new.add(b)
                    if new != dom[b]:
                        dom[b] = new
                        changed = True
            self._dom = dom
        return self._dom

    def dominates(self, a, b):
        d = self.dominators()
        return b in d and a in d[b]

    def must_pass(self, site, guards, start=0):
        """True iff every start->site path passes through one of the guard blocks (site itself may be a guard)."""
        guards = set(guards)
        if site in guards:
            return True
        return site not in self.reachable_from(start, removed=guards)

    def path(self, a, b, removed=()):
        """some path a->b avoiding `removed` (list of blocks) or None."""
        removed = set(removed)
        prev = {a: None}
        work = [a]
        while work:
            x = work.pop(0)
            if x == b:
                out = []
                while x is not None:
                    out.append(x)
                    x = prev[x]
                return out[::-1]
            for s in self.succ[x]:
                if s not in prev and s not in removed:
                    prev[s] = x
                    work.append(s)
        return None

    # --- switch helpers
    def switch_edges(self, bi):
        """[(value or 'otherwise', target)] of a switch terminator."""
        t = self.blocks[bi]["term"]
        if t["k"] != "switch":
            return []
        out = [(v, bb) for v, bb in t["targets"]]
        out.append(("otherwise", t["otherwise"]))
        return out

    # --- simple def-use
    def defs(self):
        """local -> list of (block, stmt index or 'term', rvalue-or-call)"""
        if self._defs is None:
            d = defaultdict(list)
            for i, j, s in self.stmts():
                if s["k"] == "assign":
                    # a write through a pointer (`(*p).f = x`) does not define the pointer local
                    if any(e[0] == "*" for e in s["p"]["pr"]):
                        continue
                    d[s["p"]["l"]].append((i, j, s))
            for i, t in self.calls():
                d[t["dest"]["l"]].append((i, "term", t))
            self._defs = d
        return self._defs
