"""Emission-effect analysis: abstract interpretation of a CODE GENERATOR function over the operand-stack height of the code it emits.

The generator's MIR is explored path-sensitively (constant / flag / Option-discriminant threading).  The abstract state is
    h      : height of the emitted code's operand stack at the current emission point, relative to the generator's entry (int), or DEAD (the
             current point is only reachable through jumps: just after an unconditional Jump) or None (unknown: data dependent)
    pend   : jump placeholders created on this path and not yet patched: creating site -> set of heights at which those jumps execute
    labels : heights the path has already fixed for external label parameters (`fail_addr`-style usize parameters)
Every place where the EMITTED code joins gives an equality obligation:
    patch_jump_to_here(j)      : height(j) == h        (or h := height(j) when the fall-through is DEAD)
    emit_jump*_to_addr(a)      : height(a) == h'       (h' = h after popping the condition)
    patch_jump_to_addr(j, a)   : height(j) == height(a)
A conflict (two definite, different heights) is a stack-discipline defect of the emitted code on that generator path.  Data-dependent effects
(Tuple(n) of unknown arity, calls to generator functions without a determinate summary) make the rest of the path `unknown`: no obligation is
produced there (not decided), never a report.
"""
from qvlib.facts import op_local, op_place
from qvlib.paths import Flow, KNOWN_DISCR, diverging_blocks, err_blocks

DEAD = "dead"
CG = "quiver_compiler::compiler::codegen::InstructionBuilder::"
ZERO_ARITY_TUPLES = ("quiver_core::types::NIL", "quiver_core::types::OK")

# (pops, pushes) of each instruction as executed by quiver_core::executor (reviewed against the handlers; R-C07-7 cross-checks exhaustiveness)
FIXED = {
    "Constant": 1, "Pop": -1, "Duplicate": 1, "Pick": 1, "Rotate": 0, "Reset": 0, "Load": 1, "Store": -1, "Get": 0, "IsType": 0, "Jump": 0,
    "JumpIf": -1, "Call": -1, "Builtin": 1, "Not": 0, "Spawn": -1, "Send": -1, "Self_": 1, "Select": 0, "Process": 1,
}
DATA_DEPENDENT = ("Tuple", "Function", "Equal", "TailCall")


def instr_delta(variant, ops):
    """stack delta of one emitted instruction, None when it depends on data the generator computes; 'dead' after a TailCall."""
    if variant in FIXED:
        return FIXED[variant]
    if variant == "Tuple":
        o = ops[0] if ops else {}
        if o.get("c") == "const" and o.get("def") in ZERO_ARITY_TUPLES:
            return 1
        return None
    if variant == "Equal":
        o = ops[0] if ops else {}
        if o.get("c") == "const" and isinstance(o.get("val"), int):
            return 1 - o["val"]
        return None
    if variant == "TailCall":
        return DEAD
    return None


class Conflict(Exception):
    pass


def _locals_in(o, out):
    if isinstance(o, dict):
        if "l" in o and isinstance(o["l"], int) and "pr" in o:
            out.add(o["l"])
            for e in o["pr"]:
                if isinstance(e, (list, tuple)):
                    for x in e:
                        if isinstance(x, dict):
                            _locals_in(x, out)
                        elif e[0] == "i" and isinstance(x, int):
                            out.add(x)
        for k, v in o.items():
            if k != "pr":
                _locals_in(v, out)
    elif isinstance(o, (list, tuple)):
        for v in o:
            _locals_in(v, out)


def liveness(body):
    """live-in locals per block (backward may-analysis over the MIR)."""
    n = len(body.blocks)
    use = [set() for _ in range(n)]
    dfn = [set() for _ in range(n)]
    for bi, blk in enumerate(body.blocks):
        for st in blk["stmts"]:
            u = set()
            d = None
            if st["k"] == "assign":
                _locals_in(st["rv"], u)
                if st["p"]["pr"]:
                    _locals_in(st["p"], u)
                else:
                    d = st["p"]["l"]
            else:
                _locals_in({k: v for k, v in st.items() if k != "k"}, u)
            use[bi] |= (u - dfn[bi])
            if d is not None:
                dfn[bi].add(d)
        t = blk["term"]
        u = set()
        d = None
        if t["k"] == "call":
            _locals_in(t.get("args"), u)
            _locals_in(t.get("func"), u)
            if t["dest"]["pr"]:
                _locals_in(t["dest"], u)
            else:
                d = t["dest"]["l"]
        else:
            _locals_in({k: v for k, v in t.items() if k not in ("k", "targets", "otherwise")}, u)
        use[bi] |= (u - dfn[bi])
        if d is not None:
            dfn[bi].add(d)
    live_in = [set(u) for u in use]
    changed = True
    while changed:
        changed = False
        for bi in range(n - 1, -1, -1):
            out = set()
            for s2 in body.succ[bi]:
                out |= live_in[s2]
            new = use[bi] | (out - dfn[bi])
            if new != live_in[bi]:
                live_in[bi] = new
                changed = True
    return live_in


class EmitAnalysis:
    def __init__(self, F, key, summaries=None, limit=60000, em_set=None):
        self.F = F
        self.key = key
        self.body = F.body(key)
        self.flow = Flow(self.body)
        self.fln = Flow(self.body, through_named=True)
        self.summaries = summaries or {}
        self.em_set = em_set
        self.limit = limit
        self.conflicts = []      # (block, message)
        self.obligations = []    # (block, kind, detail) discharged equalities
        self.returns = set()     # (h, labels-items)
        self.unknown_at = set()  # blocks where the path became data dependent
        self.events = {}
        self.creators = {}
        self._classify()

    # ---- static classification of the emitting calls -------------------------------------------------------------------------------------
    def _classify(self):
        b = self.body
        for bi, t in b.calls():
            c = t.get("callee") or ""
            if c.startswith(CG):
                m = c[len(CG):]
                self.events[bi] = (m, t)
                if m in ("emit_jump_placeholder", "emit_jump_if_placeholder", "emit_duplicate_jump_if_nil", "emit_type_check_branch"):
                    self.creators[t["dest"]["l"]] = bi
            elif c.endswith("Vec::len") and t["args"]:
                cp = self.flow.canon_op(t["args"][0])
                if cp and self.flow.mentions_field(cp, "codegen::InstructionBuilder", "instructions"):
                    self.events[bi] = ("here", t)
                    self.creators[t["dest"]["l"]] = bi
            elif c in self.summaries or self._is_generator(c, t):
                self.events[bi] = ("gen", t)
        self.label_params = [l["i"] for l in b.params() if l["ty"] in ("usize", "core::option::Option<usize>")]
        # locals whose value can decide a branch: switch operands, what they copy, and the places whose discriminant they read
        inter = set()
        for blk in b.blocks:
            t = blk["term"]
            if t["k"] == "switch" and op_local(t["op"]) is not None:
                inter.add(op_local(t["op"]))
        for _ in range(4):
            for _bi, _si, st in b.stmts():
                if st["k"] == "assign" and not st["p"]["pr"] and st["p"]["l"] in inter:
                    rv = st["rv"]
                    if rv["k"] == "use" and op_local(rv["op"]) is not None:
                        inter.add(op_local(rv["op"]))
                    elif rv["k"] == "un" and op_local(rv["x"]) is not None:
                        inter.add(op_local(rv["x"]))
                    elif rv["k"] == "discr":
                        src = rv["p"]["l"]
                        inter.add(src)
                        c = self.flow.canon_local(src)
                        if not c[1]:
                            inter.add(c[0])
            for _bi, t in b.calls():
                cal = t.get("callee") or ""
                if t["dest"]["l"] in inter and t["args"] and (cal.endswith("Option::is_none") or cal.endswith("Option::is_some")):
                    c0 = self.flow.canon_op(t["args"][0])
                    if c0 is not None:
                        inter.add(c0[0])
        self.interesting = inter
        self.live_in = liveness(b)
        # loop-control values (results of Iterator::next) are re-made on every iteration: nothing learned about them outlives the test
        self.no_learn = {t["dest"]["l"] for _bi, t in b.calls() if (t.get("callee") or "").endswith("Iterator::next")}

    def _prune(self, e, succ):
        live = self.live_in[succ]
        out = {}
        for k, v in e.items():
            l = k[1] if isinstance(k, tuple) else k
            if l in self.interesting and (l in live or 0 < l <= self.body.mir["argc"]):
                if isinstance(k, tuple) and k[0] in ("alias", "discr_of") and v not in live:
                    continue
                if isinstance(k, tuple) and k[0] == "isnone" and v[0] not in live:
                    continue
                out[k] = v
        return out

    def _is_generator(self, c, t):
        """a call that can emit code: a compiler function from which an emission method is reachable, or any call handed a closure that is."""
        if self.em_set is None:
            return False
        if c in self.em_set:
            return True
        for a in t["args"]:
            p = op_place(a)
            if p is None:
                continue
            for _bi, _si, st in self.body.stmts():
                if st["k"] == "assign" and st["p"]["l"] == p["l"] and st["rv"].get("closure") in self.em_set:
                    return True
        return False

    def origins(self, operand):
        """creating sites / label parameters an address-or-jump operand may denote."""
        p = op_place(operand)
        if p is None:
            return set(), set()
        back = self.fln.backward({p["l"]}, through_calls=("Iterator::next", "IntoIterator::into_iter", "Vec::drain", "Option::unwrap_or", "Option::unwrap",
                                                          "Option::expect", "Clone::clone", "slice::iter", "Deref::deref", "Iterator::copied", "Iterator::cloned",
                                                          "Option::unwrap_or_else", "Vec::pop", "Option::take"))
        back.add(p["l"])
        sites = {self.creators[l] for l in back if l in self.creators}
        params = {l for l in back if l in self.label_params}
        return sites, params

    # ---- exploration ---------------------------------------------------------------------------------------------------------------------
    def run(self):
        b = self.body
        start = (0, 0, frozenset(), frozenset(), frozenset())
        stack = [start]
        seen = set()
        steps = 0
        self.complete = True
        argc = b.mir["argc"]
        self.cond_returns = set()
        stop = err_blocks(b) | diverging_blocks(b)
        self.seen_states = seen
        while stack:
            st = stack.pop()
            if st in seen:
                continue
            seen.add(st)
            steps += 1
            if steps > self.limit:
                self.complete = False
                break
            bi, h, pend, labels, fenv = st
            if isinstance(h, int) and abs(h) > 8:
                self.unknown_at.add(bi)      # a height that keeps growing: a data-dependent loop, not a fixed effect
                continue
            blk = b.blocks[bi]
            if blk.get("cleanup") or bi in stop:
                continue
            e = dict(fenv)
            self._stmts(bi, blk, e)
            t = blk["term"]
            k = t["k"]
            if k == "return":
                pf = frozenset((kk, vv) for kk, vv in e.items() if not isinstance(vv, tuple) and (
                    (isinstance(kk, int) and 0 < kk <= argc) or (isinstance(kk, tuple) and kk[0] == "d" and isinstance(kk[1], int) and 0 < kk[1] <= argc)))
                self.returns.add((h, labels))
                self.cond_returns.add((pf, h, labels))
                continue
            if k in ("unreachable", "abort", "resume"):
                continue
            pend_d = {s: set(v) for s, v in pend}
            lab_d = dict(labels)
            if k == "call":
                d = t["dest"]
                e.pop(d["l"], None)
                self._kill(e, d["l"])
                cal = t.get("callee") or ""
                if t["args"] and (cal.endswith("Option::is_none") or cal.endswith("Option::is_some")):
                    c0 = self.flow.canon_op(t["args"][0])
                    if c0 is not None and not c0[1] and not d["pr"]:
                        if ("d", c0[0]) in e:
                            isn = e[("d", c0[0])] == 0
                            e[d["l"]] = int(isn if cal.endswith("is_none") else not isn)
                        else:
                            e[("isnone", d["l"])] = (c0[0], cal.endswith("is_none"))
                if bi in self.events and h is not None:
                    try:
                        h = self._event(bi, h, pend_d, lab_d)
                    except Conflict as c:
                        self.conflicts.append((bi, str(c)))
                        continue
                    if h is None:
                        self.unknown_at.add(bi)
            succs = list(b.succ[bi])
            outs = []
            if k == "switch":
                l = op_local(t["op"])
                if l is not None and l in e and not isinstance(e[l], tuple):
                    v = e[l]
                    tgt = dict((val, bb) for val, bb in t["targets"]).get(v, t["otherwise"])
                    outs = [(tgt, e)]
                else:
                    vals = [val for val, _bb in t["targets"]]
                    for val, bb in t["targets"]:
                        e2 = dict(e)
                        self._learn(e2, l, val)
                        outs.append((bb, e2))
                    e3 = dict(e)
                    if len(vals) == 1 and vals[0] in (0, 1):
                        self._learn(e3, l, 1 - vals[0], only_two_valued=True)
                    outs.append((t["otherwise"], e3))
            else:
                outs = [(s2, e) for s2 in succs if not b.blocks[s2].get("cleanup")]
            fp = frozenset((s, frozenset(v)) for s, v in pend_d.items() if v)
            fl = frozenset(lab_d.items())
            for s, e2 in outs:
                stack.append((s, h, fp, fl, frozenset(self._prune(e2, s).items())))
        return self

    def _learn(self, e, l, val, only_two_valued=False):
        if l is None:
            return
        root = e.get(("alias", l))
        isn = e.get(("isnone", l))
        dsrc = e.get(("discr_of", l))
        if only_two_valued and self.body.local_ty(l) != "bool" and dsrc is None:
            return
        if dsrc is None or dsrc not in self.no_learn:
            e[l] = val
        if root is not None:
            e[root] = val
        if isn is not None:
            src, is_none = isn
            e[("d", src)] = (0 if val else 1) if is_none else (1 if val else 0)
        if dsrc is not None and dsrc not in self.no_learn:
            if not only_two_valued or self._two_variants(dsrc):
                e[("d", dsrc)] = val

    def _kill(self, e, l):
        """`l` is reassigned: forget what was known about it and about every copy of its old value."""
        for kk in [x for x in e if isinstance(x, tuple) and x[0] in ("alias", "isnone", "discr_of", "d") and x[1] == l]:
            e.pop(kk)
        for kk in [x for x in e if isinstance(x, tuple) and x[0] == "alias" and e[x] == l]:
            e.pop(kk)
            e.pop(kk[1], None)
        for kk in [x for x in e if isinstance(x, tuple) and x[0] == "discr_of" and e[x] == l]:
            e.pop(kk)
            e.pop(kk[1], None)
        for kk in [x for x in e if isinstance(x, tuple) and x[0] == "isnone" and e[x][0] == l]:
            e.pop(kk)
            e.pop(kk[1], None)

    def _two_variants(self, l):
        ty = self.body.local_ty(l) or ""
        return "option::Option<" in ty or "result::Result<" in ty

    def _stmts(self, bi, blk, e):
        for s in blk["stmts"]:
            if s["k"] != "assign" or s["p"]["pr"]:
                continue
            l = s["p"]["l"]
            rv = s["rv"]
            self._kill(e, l)
            # a reassigned local invalidates what was learned THROUGH it, not about its source
            val = None
            if rv["k"] == "agg" and rv.get("kind") == "adt" and rv.get("variant") in KNOWN_DISCR and (
                    rv["adt"].endswith("option::Option") or rv["adt"].endswith("result::Result") or rv["adt"].endswith("ControlFlow")):
                e[("d", l)] = KNOWN_DISCR[rv["variant"]]
                e.pop(l, None)
                continue
            if rv["k"] == "discr" and not [x for x in rv["p"]["pr"] if x[0] != "*"]:
                src = rv["p"]["l"]
                c = self.flow.canon_local(src)
                if not c[1]:
                    src = c[0]
                if ("d", src) in e:
                    e[l] = e[("d", src)]
                else:
                    e.pop(l, None)
                    e[("discr_of", l)] = src
                continue
            if rv["k"] == "use":
                o = rv["op"]
                if o.get("c") == "const" and "val" in o:
                    val = o["val"]
                else:
                    m = op_local(o)
                    if m is not None:
                        if m in e and not isinstance(e[m], tuple):
                            val = e[m]
                        else:
                            e[("alias", l)] = e.get(("alias", m), m)
                        if ("d", m) in e:
                            e[("d", l)] = e[("d", m)]
                        else:
                            e.pop(("d", l), None)
            elif rv["k"] == "un" and rv["op"] == "Not":
                m = op_local(rv["x"])
                if m is not None and m in e and e[m] in (0, 1):
                    val = 1 - e[m]
            if val is not None:
                e[l] = val
            else:
                e.pop(l, None)
            # a param overwritten? (never for by-value flags in this code base)

    # ---- events ----------------------------------------------------------------------------------------------------------------------------
    def _bump(self, h, d):
        if h == DEAD:
            return DEAD      # unreachable code: its height is meaningless until a label revives it
        if d is None:
            return None
        if d == DEAD:
            return DEAD
        return h + d

    def _meet_label(self, bi, h, heights, what):
        """control arrives at the current point from jumps executed at `heights`."""
        for v in sorted(heights):
            if h == DEAD:
                h = v
            elif h != v:
                raise Conflict("%s: a jump taken at operand-stack height %+d lands where the fall-through (or another jump) has height %+d" % (what, v, h))
            else:
                self.obligations.append((bi, what, v))
        return h

    def _event(self, bi, h, pend, labels):
        m, t = self.events[bi]
        b = self.body
        if m == "add_instruction":
            p = op_place(t["args"][1])
            deltas = set()
            srcs = self.flow.sources(p["l"], stop_at_agg=True) if p else []
            tail = False
            for src in srcs:
                if src[0] == "rv" and src[2]["rv"]["k"] == "agg" and (src[2]["rv"].get("adt") or "").endswith("bytecode::Instruction"):
                    v_, ops_ = src[2]["rv"]["variant"], src[2]["rv"]["ops"]
                    d_ = instr_delta(v_, ops_)
                    if d_ is None and v_ == "Tuple" and ops_ and self._empty_tuple_id(ops_[0]):
                        d_ = 1
                    if v_ == "TailCall":
                        tail = True
                    deltas.add(d_)
                else:
                    deltas.add(None)
            if len(deltas) != 1:
                return None if h != DEAD else DEAD
            if tail and h != DEAD:
                # the height at which the frame is replaced: what sits below the argument (and callee) stays on the operand stack for ever
                k = ("tc", bi)
                if k in labels and labels[k] != h:
                    raise Conflict("the tail call emitted at %s executes at heights %+d and %+d" % (b.loc(bi).split(":")[-1], labels[k], h))
                labels[k] = h
            return self._bump(h, next(iter(deltas)))
        if m in ("emit_jump_placeholder", "emit_jump_if_placeholder", "emit_duplicate_jump_if_nil", "emit_type_check_branch"):
            if h == DEAD:
                # an unconditional placeholder emitted in dead code is a trampoline: it executes at whatever height jumps to ITS address have
                if m == "emit_jump_placeholder":
                    pend.setdefault(bi, set()).add(("tramp", bi))
                return DEAD
            if m == "emit_jump_placeholder":
                pend.setdefault(bi, set()).add(h)
                return DEAD
            if m == "emit_jump_if_placeholder":
                pend.setdefault(bi, set()).add(h - 1)
                return h - 1
            if m == "emit_duplicate_jump_if_nil":
                pend.setdefault(bi, set()).add(h)       # Duplicate, Not, JumpIf: tested value stays on both paths
                return h
            if m == "emit_type_check_branch":
                pend.setdefault(bi, set()).add(h)       # Pick, IsType, Not, JumpIf
                return h
        if m in ("emit_jump_to_addr", "emit_jump_if_to_addr"):
            if h == DEAD:
                return DEAD
            hj = h - 1 if m == "emit_jump_if_to_addr" else h
            sites, params = self.origins(t["args"][1])
            self._jump_to(bi, hj, sites, params, pend, labels)
            return DEAD if m == "emit_jump_to_addr" else hj
        if m == "patch_jump_to_here":
            sites, params = self.origins(t["args"][1])
            hs = set()
            for s in sites:
                hs |= self._resolve(pend.pop(s, set()), labels)
            return self._meet_label(bi, h, hs, "patch_jump_to_here@%s" % b.loc(bi).split(":")[-1])
        if m == "patch_jump_to_addr":
            jsites, _jp = self.origins(t["args"][1])
            asites, aparams = self.origins(t["args"][2])
            for s in jsites:
                for v in self._resolve(pend.pop(s, set()), labels):
                    self._jump_to(bi, v, asites, aparams, pend, labels)
            return h
        if m == "here":
            # an address captured for a later backward jump: the height at this point
            if h != DEAD:
                pend.setdefault(bi, set()).add(("here", h))
            return h
        if m == "emit_pick_and_get":
            return self._bump(h, 1)
        if m == "emit_rotate_pop":
            return self._bump(h, -1)
        if m == "gen":
            c = t.get("callee")
            summ = self.summaries.get(c)
            if not summ or summ.get("ret") is None:
                return None if h != DEAD else DEAD
            if h == DEAD:
                return DEAD
            # label parameters of the callee: jumps to them happen at entry-relative heights
            for pi, rel in (summ.get("labels") or {}).items():
                if pi - 1 < len(t["args"]):
                    sites, params = self.origins(t["args"][pi - 1])
                    self._jump_to(bi, h + rel, sites, params, pend, labels)
            return h + summ["ret"]
        return h

    def _empty_tuple_id(self, o):
        """the operand is the id returned by register_tuple(None, <empty vec>): the nil tuple (arity 0)."""
        p = op_place(o)
        if p is None:
            return False
        for src in self.fln.sources(p["l"]):
            if src[0] != "call" or not (src[2].get("callee") or "").endswith("Program::register_tuple") or len(src[2]["args"]) < 3:
                return False
            vp = op_place(src[2]["args"][2])
            vs = self.fln.sources(vp["l"]) if vp else []
            if not vs or not all(x[0] == "call" and (x[2].get("callee") or "").endswith("Vec::new") for x in vs):
                return False
        return True

    def _resolve(self, vals, labels):
        out = set()
        for v in vals:
            if isinstance(v, tuple) and v[0] == "tramp":
                tv = labels.get(("tramp", v[1]))
                if tv is not None:
                    out.add(tv)
            elif isinstance(v, tuple) and v[0] == "here":
                out.add(v[1])
            else:
                out.add(v)
        return out

    def _jump_to(self, bi, hj, sites, params, pend, labels):
        """a jump executing at height hj targets the address denoted by sites/params."""
        b = self.body
        for s in sites:
            for v in list(pend.get(s, ())):
                if isinstance(v, tuple) and v[0] == "here":
                    if v[1] != hj:
                        raise Conflict("backward jump at height %+d to an address captured at height %+d" % (hj, v[1]))
                    self.obligations.append((bi, "jump-to-captured-address", hj))
                elif isinstance(v, tuple) and v[0] == "tramp":
                    k = ("tramp", v[1])
                    if k in labels and labels[k] != hj:
                        raise Conflict("jumps reach the trampoline emitted at %s at heights %+d and %+d" % (b.loc(v[1]).split(":")[-1], labels[k], hj))
                    if k in labels:
                        self.obligations.append((bi, "trampoline", hj))
                    labels[k] = hj
        for p in params:
            k = ("param", p)
            if k in labels and labels[k] != hj:
                raise Conflict("jumps to the external label `%s` are emitted at heights %+d and %+d" % (b.local_name(p) or "_%d" % p, labels[k], hj))
            if k in labels:
                self.obligations.append((bi, "external-label", hj))
            labels[k] = hj

    # ---- summary -----------------------------------------------------------------------------------------------------------------------------
    def summary(self):
        """{'ret': delta or None, 'labels': {param_index: rel height}} when every explored return agrees; None entries otherwise."""
        rets = {h for h, _l in self.returns if h not in (DEAD,)}
        ret = next(iter(rets)) if len(rets) == 1 and None not in rets and self.complete and not self.unknown_at else None
        labs = {}
        for _h, l in self.returns:
            for k, v in l:
                if k[0] == "param":
                    labs.setdefault(k[1], set()).add(v)
        labels = {p: next(iter(v)) for p, v in labs.items() if len(v) == 1}
        return {"ret": ret, "labels": labels, "label_conflicts": {p: sorted(v) for p, v in labs.items() if len(v) > 1}}

    def conditional(self):
        """per combination of facts about the PARAMETERS that held at a return (flag / Option parameters): the set of net effects and the heights of
        tail calls and label jumps. {facts-string: {"ret": [..], "at": {"tc@line"/"param#i": [..]}}}; None when the exploration was cut short."""
        if not self.complete:
            return None
        out = {}
        tcs = sorted({k[1] for _pf, _h, labels in self.cond_returns for k, _v in labels if k[0] == "tc"})
        for pf, h, labels in self.cond_returns:
            key = ",".join("%s=%s" % (("d%d" % k[1]) if isinstance(k, tuple) else ("p%d" % k), v) for k, v in sorted(pf, key=str)) or "-"
            ent = out.setdefault(key, {"ret": set(), "at": {}})
            ent["ret"].add("dead" if h == DEAD else ("?" if h is None else h))
            for k, v in labels:
                if k[0] == "param":
                    ent["at"].setdefault("param#%d" % k[1], set()).add(v)
                elif k[0] == "tc":
                    ent["at"].setdefault("tailcall#%d" % tcs.index(k[1]) if k[1] in tcs else "tailcall", set()).add(v)
        return {k: {"ret": sorted(map(str, v["ret"])), "at": {a: sorted(x) for a, x in sorted(v["at"].items())}} for k, v in sorted(out.items())}


def emitters(F):
    """functions of the compiler crate from which an InstructionBuilder emission method is reachable (they can change the emitted height)."""
    direct = {k for k in F.fns if k.startswith(CG)}
    callers = F.callers()
    work = list(direct)
    out = set(direct)
    while work:
        k = work.pop()
        cands = [c for c, _bi in callers.get(k, ())]
        if "::{closure" in k:
            cands.append(k.rsplit("::{closure", 1)[0])     # the function that builds an emitting closure (and hands it to someone) emits
        for base in cands:
            if base not in out and base.startswith("quiver_compiler::"):
                out.add(base)
                work.append(base)
    return out


def analyse_all(F, rounds=4, limit=60000):
    """bottom-up: analyse every emitter with the summaries known so far until no summary changes. Returns {key: EmitAnalysis}, summaries."""
    em = sorted(k for k in emitters(F) if not k.startswith(CG) and "mir" in F.fns.get(k, {}))
    summaries = {}
    results = {}
    for _ in range(rounds):
        changed = False
        for k in em:
            a = EmitAnalysis(F, k, summaries, em_set=set(em), limit=limit).run()
            results[k] = a
            sm = a.summary()
            if sm["ret"] is not None and not a.conflicts and not sm["label_conflicts"]:
                new = {"ret": sm["ret"], "labels": sm["labels"]}
                if summaries.get(k) != new:
                    summaries[k] = new
                    changed = True
            elif k in summaries:
                del summaries[k]
                changed = True
        if not changed:
            break
    return results, summaries
