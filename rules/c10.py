"""C10 — packaging steps preserve behaviour: tree-shake, serialise, merge, import (structural clauses)."""
import os

from qvlib import hir
from qvlib.extract import CheckError
from qvlib.facts import op_place
from qvlib.paths import Flow, agg_sites
from rules import c07

CRATES = None
ASYM = ("skip", "skip_serializing", "skip_deserializing", "skip_serializing_if", "default", "with", "serialize_with", "deserialize_with", "flatten",
        "untagged", "other", "from", "try_from", "into", "remote", "borrow", "getter", "alias")


def item_attrs(repo, adt):
    """outer attribute lines directly above the item (source text; inert helper attributes are not kept in HIR)."""
    path = os.path.join(repo, adt["file"])
    try:
        lines = open(path).read().splitlines()
    except OSError:
        return []
    out = []
    i = adt["line"] - 2
    while i >= 0:
        l = lines[i].strip()
        if l.startswith("#[") or l.startswith("///") or l.startswith("//") or l == "" and False:
            if l.startswith("#["):
                out.append(l)
            i -= 1
            continue
        break
    return out


def serde_reachable(F, root):
    seen = []
    work = [root]
    while work:
        k = work.pop()
        if k in seen or k not in F.adts:
            continue
        seen.append(k)
        for v in F.adts[k]["variants"]:
            for f in v["fields"]:
                for m in f["mentions"]:
                    if m.startswith("quiver_") and m not in seen:
                        work.append(m)
    return seen


def r3_serde_symmetry(ctx):
    R = "R-C10-3"
    ctx.rule(R, "serde symmetry: every ADT reachable from bytecode::Bytecode through field types has DERIVED Serialize and Deserialize impls (no "
                "hand-written one) and carries no asymmetric serde attribute (skip*, default, with, flatten, untagged, other, from/into, alias); "
                "renames are shared by both derives by construction")
    F = ctx.facts
    repo = F.meta.get("repo") or "/repo"
    adts = serde_reachable(F, "quiver_core::bytecode::Bytecode")
    ctx.floor(R, "ADTs reachable from Bytecode", len(adts), 6)
    for k in adts:
        impls = {i["trait"]: i["derived"] for i in F.impls if i.get("self_adt") == k and i.get("trait") in ("serde::ser::Serialize", "serde::de::Deserialize")}
        ok = impls.get("serde::ser::Serialize") is True and impls.get("serde::de::Deserialize") is True
        ctx.check(ok, R, "%s|derives" % k, "Serialize and Deserialize are both derived", "Serialize/Deserialize of %s are not both derived (%s): writer and reader can disagree" % (k, impls))
        attrs = list(F.adts[k].get("serde_attrs") or []) + [a for a in item_attrs(repo, F.adts[k]) if "serde" in a]
        bad = []
        for a in attrs:
            inner = a[a.find("(") + 1:a.rfind(")")] if "(" in a else ""
            for part in [x.strip() for x in inner.split(",")]:
                key = part.split("=")[0].strip().split("(")[0].strip()
                if key in ASYM:
                    bad.append(a)
        ctx.check(not bad, R, "%s|attrs" % k, "no asymmetric serde attribute (%d serde attribute(s), all renames/tags)" % len(attrs),
                  "asymmetric serde attribute(s) on %s: %s — a .qx round trip may not reproduce the bytecode" % (k, bad))
    # the CLI writes and reads the same type
    ser = [(b.key, bi) for b in F.bodies(crate="quiv") for bi, t in b.calls() if (t.get("callee") or "").startswith("serde_json::") and "to_" in (t.get("callee") or "") and "Bytecode" in (t.get("gargs") or "")]
    de = [(b.key, bi) for b in F.bodies(crate="quiv") for bi, t in b.calls() if (t.get("callee") or "").startswith("serde_json::") and "from_" in (t.get("callee") or "") and "Bytecode" in (t.get("gargs") or "")]
    ctx.check(bool(ser) and bool(de), R, "quiv|roundtrip-type", "`quiv compile` serialises and `quiv run` deserialises quiver_core::bytecode::Bytecode (%d/%d sites)" % (len(ser), len(de)),
              "the CLI no longer writes and reads Bytecode through serde_json (ser=%d de=%d)" % (len(ser), len(de)))


def r4_capture_injection(ctx):
    R = "R-C10-4"
    ctx.rule(R, "capture injection re-establishes locals: inject_function_captures emits, per capture, the value's instructions followed by exactly one "
                "Store, then the original body, and registers the new function with captures: 0 and the original type_id")
    F = ctx.facts
    b = F.body("quiver_core::program::Program::inject_function_captures")
    fl = Flow(b, through_named=True)
    stores = [(bi, si) for bi, si, s in agg_sites(b, "bytecode::Instruction", "Store")]
    v2i = [bi for bi, _t in b.calls_to("Program::value_to_instructions")]
    ok = len(stores) == 1 and len(v2i) == 1 and b.reaches(v2i[0], stores[0][0]) and b.reaches(stores[0][0], v2i[0])
    ctx.check(ok, R, b.key + "|per-capture", "one value_to_instructions + one Store per capture, in the same loop", "the per-capture Store discipline changed (%d stores, %d conversions)" % (len(stores), len(v2i)), b.loc(0))
    # order inside the loop: conversion before Store (the Store block is reached from the conversion without passing the loop header)
    nexts = [bi for bi, t in b.calls() if (t.get("callee") or "").endswith("Iterator::next")]
    if ok:
        ctx.check(b.reaches(v2i[0], stores[0][0], removed=nexts), R, b.key + "|order", "value instructions are emitted before their Store", "Store is emitted before the value's instructions", b.loc(stores[0][0]))
    # original body appended after the loop
    ext = [(bi, t) for bi, t in b.calls() if (t.get("callee") or "").endswith("Extend::extend") or (t.get("callee") or "").endswith("Vec::extend")]
    body_ext = []
    for bi, t in ext:
        a = op_place(t["args"][1])
        fields = fl.slice_reads(a["l"], through_calls=("Clone::clone",))[0] if a else set()
        if any(f == "instructions" and (o or "").endswith("bytecode::Function") for o, f in fields):
            body_ext.append(bi)
    ok2 = len(body_ext) == 1 and all(not b.reaches(body_ext[0], s[0]) for s in stores)
    ctx.check(ok2, R, b.key + "|body-after", "the original instructions are appended once, after all capture stores", "the original body is not appended after the capture prologue", b.loc(0))
    aggs = agg_sites(b, "bytecode::Function")
    ok3 = False
    for bi, si, s in aggs:
        d = dict(zip(s["rv"]["fields"], s["rv"]["ops"]))
        cap = d.get("captures", {})
        tid = op_place(d.get("type_id", {}))
        tf = fl.slice_reads(tid["l"])[0] if tid else set()
        ok3 = cap.get("val") == 0 and any(f == "type_id" for _o, f in tf)
    ctx.check(ok3, R, b.key + "|new-function", "registered with captures: 0 and the original type_id", "the injected function is not registered with captures: 0 / the original type_id", b.loc(0))


def r5_module_import(ctx):
    R = "R-C10-5"
    ctx.rule(R, "value_to_instructions_from_cache re-emits a cached module value structurally: every Value variant that can be re-emitted has an arm, "
                "tuples recurse over all fields before Instruction::Tuple(tuple_id), functions go through capture handling")
    F = ctx.facts
    VALUE = "quiver_core::value::Value"
    for key in ("quiver_compiler::compiler::Compiler::value_to_instructions_from_cache", "quiver_core::program::Program::value_to_instructions"):
        fn = F.fn(key)
        ms = [m for m in hir.matches(hir.body_of(fn)) if "value::Value" in (m.get("sty") or "")]
        if not ms:
            raise CheckError("%s: match over Value not found in %s" % (R, key))
        m = ms[0]
        emit = {"Integer": "Constant", "Tuple": "Tuple", "Function": "Function", "Builtin": "Builtin"}
        for v, ins in emit.items():
            arms = hir.arms_for_variant(m, VALUE, v)
            site = "%s|%s" % (key, v)
            if not arms or hir.is_catch_all(arms[0][1]["pat"]):
                ctx.violated(R, site, "no arm for Value::%s" % v)
                continue
            arm = arms[0][1]
            cons = [c[1] for c in hir.ctors(arm["body"]) if (c[0] or "").endswith("bytecode::Instruction")]
            ctx.check(ins in cons, R, site, "re-emitted as Instruction::%s" % ins, "Value::%s is re-emitted as %s (expected Instruction::%s)" % (v, cons, ins), "%s:%d" % (fn["file"], arm["ln"]))
        barms = hir.arms_for_variant(m, VALUE, "Binary")
        ctx.check(bool(barms) and not hir.is_catch_all(barms[0][1]["pat"]), R, "%s|Binary" % key, "binaries have an arm (constant or heap bytes -> constant)", "no arm for Value::Binary")


def r1_remap_completeness(ctx):
    c07.r2_index_fields(ctx, "R-C10-1")


def r2_remap_construction(ctx):
    c07.r5_remap_order_and_freshness(ctx, "R-C10-2")


def run(ctx):
    ctx.run_rules([r1_remap_completeness, r2_remap_construction, r3_serde_symmetry, r4_capture_injection, r5_module_import])
    ctx.note("R-C10-1 also decides mark ⊇ sweep: every sweep lookup that unwrap()s is for an id class the mark phase records for the same variant")
    ctx.note("NOT decided: that `%m.f` behaves like in-place evaluation, or equality of results across the four execution routes (needs evaluation)")
    return (
        "Decides: remap completeness of every id-carrying field in tree-shake and merge (R-C10-1, shared with C07), order-preserving and fresh "
        "remap tables fed only by register_*/import_* (R-C10-2), derived+attribute-symmetric serde for everything reachable from Bytecode (R-C10-3), "
        "the capture-injection prologue shape (R-C10-4) and structural re-emission of cached module values (R-C10-5). Behavioural equality of the "
        "packaging routes is NOT decided.",
        "obligations are match arms, struct-literal fields, ADTs reachable from Bytecode and MIR emission sites; discharged by HIR pattern "
        "matrices, derive/attribute censuses and MIR value-source slices",
    )
