"""C10 — packaging steps preserve behaviour: tree-shake, serialise, merge, import (structural clauses)."""
import os

from qvlib import hir
from qvlib.extract import CheckError
from qvlib.facts import op_place
from qvlib.paths import Flow, agg_sites
from rules import c07

CRATES = None
ASYM = ("skip", "skip_serializing", "skip_deserializing", "skip_serializing_if", "default", "with", "serialize_with", "deserialize_with", "flatten",
        "untagged", "other", "from", "try_from", "into", "remote", "borrow", "getter", "alias")


def item_attrs(repo, adt):
    """outer attribute lines directly above the item (source text; inert helper attributes are not kept in HIR)."""
    path = os.path.join(repo, adt["file"])
    try:
        lines = open(path).read().splitlines()
    except OSError:
        return []
    out = []
    i = adt["line"] - 2
    while i >= 0:
        l = lines[i].strip()
        if l.startswith("#[") or l.startswith("///") or l.startswith("//") or l == "" and False:
            if l.startswith("#["):
                out.append(l)
            i -= 1
            continue
        break
    return out


def serde_reachable(F, root):
    seen = []
    work = [root]
    while work:
        k = work.pop()
        if k in seen or k not in F.adts:
            continue
        seen.append(k)
        for v in F.adts[k]["variants"]:
            for f in v["fields"]:
                for m in f["mentions"]:
                    if m.startswith("quiver_") and m not in seen:
                        work.append(m)
    return seen


def r3_serde_symmetry(ctx):
    R = "R-C10-3"
    ctx.rule(R, "serde symmetry: every ADT reachable from bytecode::Bytecode through field types has DERIVED Serialize and Deserialize impls (no "
                "hand-written one) and carries no asymmetric serde attribute (skip*, default, with, flatten, untagged, other, from/into, alias); "
                "renames are shared by both derives by construction")
    F = ctx.facts
    repo = F.meta.get("repo") or "/repo"
    adts = serde_reachable(F, "quiver_core::bytecode::Bytecode")
    ctx.floor(R, "ADTs reachable from Bytecode", len(adts), 6)
    for k in adts:
        impls = {i["trait"]: i["derived"] for i in F.impls if i.get("self_adt") == k and i.get("trait") in ("serde::ser::Serialize", "serde::de::Deserialize")}
        ok = impls.get("serde::ser::Serialize") is True and impls.get("serde::de::Deserialize") is True
        ctx.check(ok, R, "%s|derives" % k, "Serialize and Deserialize are both derived", "Serialize/Deserialize of %s are not both derived (%s): writer and reader can disagree" % (k, impls))
        attrs = list(F.adts[k].get("serde_attrs") or []) + [a for a in item_attrs(repo, F.adts[k]) if "serde" in a]
        bad = []
        for a in attrs:
            inner = a[a.find("(") + 1:a.rfind(")")] if "(" in a else ""
            for part in [x.strip() for x in inner.split(",")]:
                key = part.split("=")[0].strip().split("(")[0].strip()
                if key in ASYM:
                    bad.append(a)
        ctx.check(not bad, R, "%s|attrs" % k, "no asymmetric serde attribute (%d serde attribute(s), all renames/tags)" % len(attrs),
                  "asymmetric serde attribute(s) on %s: %s — a .qx round trip may not reproduce the bytecode" % (k, bad))
    # the CLI writes and reads the same type
    ser = [(b.key, bi) for b in F.bodies(crate="quiv") for bi, t in b.calls() if (t.get("callee") or "").startswith("serde_json::") and "to_" in (t.get("callee") or "") and "Bytecode" in (t.get("gargs") or "")]
    de = [(b.key, bi) for b in F.bodies(crate="quiv") for bi, t in b.calls() if (t.get("callee") or "").startswith("serde_json::") and "from_" in (t.get("callee") or "") and "Bytecode" in (t.get("gargs") or "")]
    ctx.check(bool(ser) and bool(de), R, "quiv|roundtrip-type", "`quiv compile` serialises and `quiv run` deserialises quiver_core::bytecode::Bytecode (%d/%d sites)" % (len(ser), len(de)),
              "the CLI no longer writes and reads Bytecode through serde_json (ser=%d de=%d)" % (len(ser), len(de)))


def r4_capture_injection(ctx):
    R = "R-C10-4"
    ctx.rule(R, "capture injection re-establishes locals: inject_function_captures emits, per capture, the value's instructions followed by exactly one "
                "Store, then the original body, and registers the new function with captures: 0 and the original type_id")
    F = ctx.facts
    b = F.body("quiver_core::program::Program::inject_function_captures")
    fl = Flow(b, through_named=True)
    stores = [(bi, si) for bi, si, s in agg_sites(b, "bytecode::Instruction", "Store")]
    v2i = [bi for bi, _t in b.calls_to("Program::value_to_instructions")]
    ok = len(stores) == 1 and len(v2i) == 1 and b.reaches(v2i[0], stores[0][0]) and b.reaches(stores[0][0], v2i[0])
    ctx.check(ok, R, b.key + "|per-capture", "one value_to_instructions + one Store per capture, in the same loop", "the per-capture Store discipline changed (%d stores, %d conversions)" % (len(stores), len(v2i)), b.loc(0))
    # order inside the loop: conversion before Store (the Store block is reached from the conversion without passing the loop header)
    nexts = [bi for bi, t in b.calls() if (t.get("callee") or "").endswith("Iterator::next")]
    if ok:
        ctx.check(b.reaches(v2i[0], stores[0][0], removed=nexts), R, b.key + "|order", "value instructions are emitted before their Store", "Store is emitted before the value's instructions", b.loc(stores[0][0]))
    # original body appended after the loop
    ext = [(bi, t) for bi, t in b.calls() if (t.get("callee") or "").endswith("Extend::extend") or (t.get("callee") or "").endswith("Vec::extend")]
    body_ext = []
    for bi, t in ext:
        a = op_place(t["args"][1])
        fields = fl.slice_reads(a["l"], through_calls=("Clone::clone",))[0] if a else set()
        if any(f == "instructions" and (o or "").endswith("bytecode::Function") for o, f in fields):
            body_ext.append(bi)
    ok2 = len(body_ext) == 1 and all(not b.reaches(body_ext[0], s[0]) for s in stores)
    ctx.check(ok2, R, b.key + "|body-after", "the original instructions are appended once, after all capture stores", "the original body is not appended after the capture prologue", b.loc(0))
    aggs = agg_sites(b, "bytecode::Function")
    ok3 = False
    for bi, si, s in aggs:
        d = dict(zip(s["rv"]["fields"], s["rv"]["ops"]))
        cap = d.get("captures", {})
        tid = op_place(d.get("type_id", {}))
        tf = fl.slice_reads(tid["l"])[0] if tid else set()
        ok3 = cap.get("val") == 0 and any(f == "type_id" for _o, f in tf)
    ctx.check(ok3, R, b.key + "|new-function", "registered with captures: 0 and the original type_id", "the injected function is not registered with captures: 0 / the original type_id", b.loc(0))


def r5_module_import(ctx):
    R = "R-C10-5"
    ctx.rule(R, "value_to_instructions_from_cache re-emits a cached module value structurally: every Value variant that can be re-emitted has an arm, "
                "tuples recurse over all fields before Instruction::Tuple(tuple_id), functions go through capture handling")
    F = ctx.facts
    VALUE = "quiver_core::value::Value"
    for key in ("quiver_compiler::compiler::Compiler::value_to_instructions_from_cache", "quiver_core::program::Program::value_to_instructions"):
        fn = F.fn(key)
        ms = [m for m in hir.matches(hir.body_of(fn)) if "value::Value" in (m.get("sty") or "")]
        if not ms:
            raise CheckError("%s: match over Value not found in %s" % (R, key))
        m = ms[0]
        emit = {"Integer": "Constant", "Tuple": "Tuple", "Function": "Function", "Builtin": "Builtin"}
        for v, ins in emit.items():
            arms = hir.arms_for_variant(m, VALUE, v)
            site = "%s|%s" % (key, v)
            if not arms or hir.is_catch_all(arms[0][1]["pat"]):
                ctx.violated(R, site, "no arm for Value::%s" % v)
                continue
            arm = arms[0][1]
            cons = [c[1] for c in hir.ctors(arm["body"]) if (c[0] or "").endswith("bytecode::Instruction")]
            ctx.check(ins in cons, R, site, "re-emitted as Instruction::%s" % ins, "Value::%s is re-emitted as %s (expected Instruction::%s)" % (v, cons, ins), "%s:%d" % (fn["file"], arm["ln"]))
        barms = hir.arms_for_variant(m, VALUE, "Binary")
        ctx.check(bool(barms) and not hir.is_catch_all(barms[0][1]["pat"]), R, "%s|Binary" % key, "binaries have an arm (constant or heap bytes -> constant)", "no arm for Value::Binary")


def r6_heap_index_scope(ctx):
    R = "R-C10-6"
    ctx.rule(R, "heap indices are scoped to the executor that issued them: the byte table extract_binary_data fills for a loaded module is created fresh "
                "next to that module's executor, stored in the SAME CachedModule as the value, and value_to_instructions_from_cache resolves "
                "Binary::Heap indices only through the table it was handed together with the value (never a table shared across modules)")
    F = ctx.facts
    COMP = "quiver_compiler::compiler::Compiler"
    EXT = "quiver_compiler::compiler::modules::extract_binary_data"
    callers = [(k, bi) for k, bi in F.callers_of(EXT) if k.split("::{closure")[0] != EXT]
    ctx.floor(R, "module-load callers of extract_binary_data", len(callers), 1)
    for k, bi in callers:
        b = F.body(k)
        fl = Flow(b)
        fln = Flow(b, through_named=True)
        t = b.blocks[bi]["term"]
        mp = fl.canon_op(t["args"][2])
        fresh = False
        if mp and not mp[1]:
            srcs = fl.sources(mp[0])
            fresh = bool(srcs) and all(x[0] == "call" and (x[2].get("callee") or "").endswith("HashMap::new") for x in srcs)
        ctx.check(fresh, R, "%s|fresh-table" % k, "the table passed to extract_binary_data is a fresh HashMap::new() local of the loading function",
                  "extract_binary_data fills a table that outlives / is shared beyond this module load (heap index N of one module's executor aliases "
                  "heap index N of another's: an imported binary silently becomes another module's)", b.loc(bi))
        # the same table goes into the CachedModule that holds the module value
        stored = False
        for ai, si, st in agg_sites(b, "modules::CachedModule"):
            for fname, o in zip(st["rv"]["fields"], st["rv"]["ops"]):
                pl = op_place(o)
                if pl and mp and fl.canon_place(pl)[0] == mp[0] and b.reaches(bi, ai):
                    stored = True
        ctx.check(stored, R, "%s|table-with-value" % k, "the filled table is stored in the CachedModule built for this module value",
                  "the byte table is not stored with the module value it belongs to", b.loc(bi))
    # the consumer resolves heap indices through its own table parameter
    key = COMP + "::value_to_instructions_from_cache"
    vb = F.body(key)
    vfl = Flow(vb, through_named=True)
    tabs = [l["i"] for l in vb.params() if "HashMap<usize, alloc::vec::Vec<u8>" in l["ty"]]
    ctx.check(bool(tabs), R, key + "|table-param", "the byte table is a parameter (handed over with the value)",
              "value_to_instructions_from_cache no longer receives the byte table with the value: heap indices are resolved in some longer-lived table", vb.loc(0))
    if tabs:
        gets = [(bi, t) for bi, t in vb.calls() if (t.get("callee") or "").endswith("HashMap::get") and "Vec<u8>" in (vb.local_ty(t["dest"]["l"]) or "")]
        ok = bool(gets) and all(tabs[0] in vfl.backward({op_place(t["args"][0])["l"]}) for _bi, t in gets)
        ctx.check(ok, R, key + "|lookup-in-param", "Binary::Heap indices are looked up in the table parameter (%d lookup(s))" % len(gets),
                  "a heap index is looked up in a table other than the one handed over with the value", vb.loc(gets[0][0]) if gets else vb.loc(0))
        # recursion passes the same table on; outside callers pass the table of the CachedModule the value was resolved from
        for k, bi in F.callers_of(key):
            b = F.body(k)
            fl = Flow(b, through_named=True)
            t = b.blocks[bi]["term"]
            if len(t["args"]) < 3:
                continue
            tp = op_place(t["args"][2])
            vp = op_place(t["args"][1])
            site = "%s|value-and-table" % k.split("::{closure")[0]
            if k.split("::{closure")[0] == key:
                ok = tp is not None and tabs[0] in fl.backward({tp["l"]})
                ctx.check(ok, R, site + "|rec", "recursive calls pass the same table on", "a recursive call switches to a different byte table", b.loc(bi))
                continue
            tb = fl.backward({tp["l"]}) if tp else set()
            vbk = fl.backward({vp["l"]}) if vp else set()
            # both derive from the result of one resolve_import / one CachedModule
            common = [cb for cb, ct in b.calls() if ct.get("dest") and ct["dest"]["l"] in tb and ct["dest"]["l"] in vbk]
            fields = fl.slice_reads(tp["l"])[0] if tp else set()
            from_cached = any(f == "binary_data" and (o or "").endswith("modules::CachedModule") for o, f in fields)
            ctx.check(bool(common) and from_cached, R, site, "the value and its byte table come from the same resolved CachedModule",
                      "value_to_instructions_from_cache is handed a byte table that does not belong to the value's module", b.loc(bi))


def r7_load_time_tables(ctx):
    """a module body evaluated at compile time (module import) runs with the same runtime type tables as in-place evaluation: every ProgramUpdate
    literal (execute_bytecode_sync_with included) computes them from the full program (shared with R-C08-2)"""
    from rules import c08
    before = len(ctx.obs)
    c08.r2_tables_describe_whole_program(ctx)
    for o in ctx.obs[before:]:
        o["rule"] = "R-C10-7"
    if "R-C08-2" in ctx.rules:
        ctx.rules["R-C10-7"] = ctx.rules.pop("R-C08-2")
    for f in ctx.floors:
        if f["rule"] == "R-C08-2":
            f["rule"] = "R-C10-7"


def r1_remap_completeness(ctx):
    c07.r2_index_fields(ctx, "R-C10-1")


def r2_remap_construction(ctx):
    c07.r5_remap_order_and_freshness(ctx, "R-C10-2")


def r8_cached_modules_point_into_the_committed_program(ctx):
    """a cached module value holds function / tuple / type indices of the Program it was compiled into: the ModuleCache and the Program the compiler
    works on are BOTH scratch clones committed together (shared with R-C11-3) — a cache entry that survives a rejected line points into a discarded
    program, and the next `%m.f` is a cache hit against stale indices"""
    from rules import c11
    before = len(ctx.obs)
    c11.r3_clones(ctx)
    for o in ctx.obs[before:]:
        o["rule"] = "R-C10-8"
    if "R-C11-3" in ctx.rules:
        ctx.rules["R-C10-8"] = ctx.rules.pop("R-C11-3")
    for f in ctx.floors:
        if f["rule"] == "R-C11-3":
            f["rule"] = "R-C10-8"


def run(ctx):
    ctx.run_rules([r1_remap_completeness, r2_remap_construction, r3_serde_symmetry, r4_capture_injection, r5_module_import, r6_heap_index_scope, r7_load_time_tables,
                   r8_cached_modules_point_into_the_committed_program])
    ctx.note("R-C10-1 also decides mark ⊇ sweep: every sweep lookup that unwrap()s is for an id class the mark phase records for the same variant")
    ctx.note("NOT decided: that `%m.f` behaves like in-place evaluation, or equality of results across the four execution routes (needs evaluation)")
    return (
        "Decides: remap completeness of every id-carrying field in tree-shake and merge (R-C10-1, shared with C07), order-preserving and fresh "
        "remap tables fed only by register_*/import_* (R-C10-2), derived+attribute-symmetric serde for everything reachable from Bytecode (R-C10-3), "
        "the capture-injection prologue shape (R-C10-4) and structural re-emission of cached module values (R-C10-5). Behavioural equality of the "
        "packaging routes is NOT decided.",
        "obligations are match arms, struct-literal fields, ADTs reachable from Bytecode and MIR emission sites; discharged by HIR pattern "
        "matrices, derive/attribute censuses and MIR value-source slices",
    )
