"""C16 — tail calls run in constant space (mechanism clauses)."""
from qvlib.extract import CheckError
from qvlib.facts import op_local, op_place
from qvlib.paths import Flow, diverging_blocks, err_blocks, explore, path_desc

CRATES = None
EXEC = "quiver_core::executor::Executor"


def frames_pushes(body, flow):
    out = []
    for bi, t in body.calls():
        c = t.get("callee") or ""
        if c.split("::")[-1] in ("push", "insert", "extend", "append", "extend_from_slice", "resize") and "Vec" in c and t["args"]:
            cp = flow.canon_op(t["args"][0])
            if cp and flow.ends_with_field(cp, "process::Process", "frames"):
                out.append((bi, t))
    return out


def r1_tail_call_handler(ctx):
    R = "R-C16-1"
    ctx.rule(R, "Executor::handle_tail_call never pushes a frame; on every Ok path it truncates the locals (to locals_base+captures_count for the "
                "self form, locals_base for the named form) before pushing new locals/argument and replaces the top frame with the same locals_base; "
                "frames are pushed only by handle_call, spawn_process and Worker::resume_process")
    F = ctx.facts
    b = F.body(EXEC + "::handle_tail_call")
    fl = Flow(b)
    fld = Flow(b, through_named=True)
    fp = frames_pushes(b, fl)
    ctx.check(not fp, R, b.key + "|no-frame-push", "no Vec::push on proc.frames in the tail-call handler",
              "the tail-call handler pushes a frame (stack depth grows with iterations)", b.loc(fp[0][0]) if fp else b.loc(0))
    # also: no call to handle_call / anything that pushes frames
    reach = F.reach([b.key])
    pushers = set()
    for k in reach:
        if k == b.key or not F.fns[k].get("mir"):
            continue
        kb = F.body(k)
        if frames_pushes(kb, Flow(kb)):
            pushers.add(k)
    ctx.check(not pushers, R, b.key + "|no-frame-push-transitive", "no transitive callee of the tail-call handler pushes a frame",
              "tail-call handler reaches frame-pushing functions: %s" % sorted(pushers))
    errb = err_blocks(b) | diverging_blocks(b)
    trunc = b.calls_to("Executor::truncate_locals")
    ctx.floor(R, "truncate_locals calls in handle_tail_call", len(trunc), 1)
    tblocks = [bi for bi, _t in trunc]
    # every Ok path passes a truncate
    bad = explore(b, [0], avoid=tblocks, stop=errb, want="return")
    ctx.check(bad is None, R, b.key + "|truncate-on-every-ok-path", "every non-error path truncates the frame's locals",
              "a non-error path through handle_tail_call skips truncate_locals (locals grow per iteration): %s" % path_desc(b, bad), b.loc(0))
    # pushes of locals / values happen after the truncate
    for name in ("Executor::push_local", "Executor::push_value"):
        for bi, t in b.calls_to(name):
            ctx.check(b.must_pass(bi, tblocks), R, "%s|%s-after-truncate" % (b.key, name.split("::")[-1]),
                      "%s is preceded by truncate_locals on every path" % name.split("::")[-1],
                      "%s can run before the old locals are truncated" % name, b.loc(bi))
    # truncate targets
    kinds = []
    for bi, t in trunc:
        a = t["args"][2]
        srcs = fld.sources(op_place(a)["l"]) if op_place(a) else []
        desc = None
        c = fld.canon_op(a)
        if c and [e for e in c[1] if e[0] == "f"] and [e for e in c[1] if e[0] == "f"][-1][1] == "locals_base":
            desc = "locals_base"
        else:
            # AddWithOverflow(locals_base, captures_count).0
            for src in srcs:
                if src[0] == "rv" and src[2]["rv"]["k"] == "bin" and src[2]["rv"]["op"].startswith("Add"):
                    l = fld.canon_op(src[2]["rv"]["l"])
                    r = fld.canon_op(src[2]["rv"]["r"])
                    names = sorted(([e for e in x[1] if e[0] == "f"] or [("", "?")])[-1][1] for x in (l, r) if x)
                    if names == ["captures_count", "locals_base"]:
                        desc = "locals_base+captures_count"
        kinds.append((bi, desc))
    got = sorted(d or "?" for _b, d in kinds)
    ctx.check(got == ["locals_base", "locals_base+captures_count"], R, b.key + "|truncate-targets",
              "truncation targets are frame.locals_base (named form) and frame.locals_base+frame.captures_count (self form)",
              "truncate_locals targets changed: %s" % got, b.loc(tblocks[0]))
    # frame replacement with the same locals_base; Frame::new results are only stored through last_mut()
    news = b.calls_to("process::Frame::new")
    ctx.floor(R, "Frame::new calls in handle_tail_call", len(news), 1)
    for i, (bi, t) in enumerate(news):
        c = fld.canon_op(t["args"][1])
        fields = [e for e in (c[1] if c else ()) if e[0] == "f"]
        same_base = bool(fields) and fields[-1][1] == "locals_base" and (fields[-1][2] or "").endswith("process::Frame")
        d = t["dest"]["l"]
        stores = [(b2, si, s) for b2, si, s in b.stmts() if s["k"] == "assign" and s["rv"]["k"] == "use" and op_local(s["rv"]["op"]) == d]
        via_last_mut = False
        for b2, si, s in stores:
            if s["p"]["pr"] and s["p"]["pr"][0][0] == "*":
                srcs = fl.sources(s["p"]["l"], through_calls=("Option::unwrap", "Option::expect"))
                if any(x[0] == "call" and (x[2].get("callee") or "").endswith("slice::last_mut") for x in srcs):
                    via_last_mut = True
        ctx.check(same_base and via_last_mut, R, "%s|frame-replace#%d" % (b.key, i),
                  "the top frame is overwritten in place (*frames.last_mut() = Frame::new(.., same locals_base, ..))",
                  "the new frame does not reuse the current frame's slot/locals_base (same_base=%s in_place=%s)" % (same_base, via_last_mut), b.loc(bi))
    # who may push frames
    allowed = {EXEC + "::handle_call", EXEC + "::spawn_process", "quiver_environment::worker::Worker::resume_process"}
    n = 0
    for body in F.bodies():
        if body.fn["crate"] not in ("quiver_core", "quiver_environment", "quiv", "quiver_io", "quiver_web", "quiver_cli"):
            continue
        for bi, t in frames_pushes(body, Flow(body)):
            n += 1
            base = body.key.split("::{closure")[0]
            ctx.check(base in allowed, R, "%s|frames.%s" % (base, t["callee"].split("::")[-1]), "reviewed frame pusher",
                      "frames are pushed outside handle_call / spawn_process / resume_process", body.loc(bi))
    ctx.floor(R, "frame push sites", n, 3)
    # the dispatcher sends TailCall to handle_tail_call
    callers = sorted({k for k, _ in F.callers_of(b.key)})
    ctx.check(callers == [EXEC + "::execute_hot"] or callers == [EXEC + "::execute_cold"] or len(callers) == 1, R, "callers(handle_tail_call)",
              "single dispatcher call site (%s)" % callers, "handle_tail_call callers: %s" % callers)


def r2_strip_keeps_tail_position(ctx):
    R = "R-C16-2"
    ctx.rule(R, "simplify::strip_chain splices a block whose body ends in a tail call only when the block is the chain's last term: the splice "
                "(Vec::extend of the body's terms) is unreachable when is_tail_call(last body term) holds and index != last_index")
    F = ctx.facts
    b = F.body("quiver_compiler::simplify::strip_chain")
    fl = Flow(b)
    # flag: result of Option::is_some_and(.., is_tail_call)
    flags = []
    for bi, t in b.calls():
        if (t.get("callee") or "").endswith("Option::is_some_and") and any(a.get("fn", "").endswith("simplify::is_tail_call") for a in t["args"]):
            flags.append((bi, t["dest"]["l"]))
    if len(flags) != 1:
        raise CheckError("R-C16-2: expected one `.is_some_and(is_tail_call)` in strip_chain, found %d" % len(flags))
    fb, flag = flags[0]
    # last_index: usize::saturating_sub(len, 1)
    last = [t["dest"]["l"] for bi, t in b.calls() if (t.get("callee") or "").endswith("saturating_sub")]
    eqs = []
    fln = Flow(b, through_named=True)
    UNDER_LT = {"Eq": 0, "Ne": 1, "Lt": 1, "Le": 1, "Gt": 0, "Ge": 0}       # value of `index OP last_index` when index < last_index
    UNDER_LT_SWAPPED = {"Eq": 0, "Ne": 1, "Lt": 0, "Le": 0, "Gt": 1, "Ge": 1}
    UNDER_EQ = {"Eq": 1, "Ne": 0, "Lt": 0, "Le": 1, "Gt": 0, "Ge": 1}
    for bi, si, s in b.stmts():
        if s["k"] == "assign" and s["rv"]["k"] == "bin" and s["rv"]["op"] in UNDER_LT:
            lc = fl.canon_op(s["rv"]["l"])
            rc = fl.canon_op(s["rv"]["r"])
            lroots = fln.backward({lc[0]}) if lc else set()
            rroots = fln.backward({rc[0]}) if rc else set()
            if any(l in rroots for l in last):
                eqs.append(((bi, si), UNDER_LT[s["rv"]["op"]], UNDER_EQ[s["rv"]["op"]]))
            elif any(l in lroots for l in last):
                eqs.append(((bi, si), UNDER_LT_SWAPPED[s["rv"]["op"]], UNDER_EQ[s["rv"]["op"]]))
    if len(eqs) != 1:
        raise CheckError("R-C16-2: expected one comparison of the term index with last_index in strip_chain, found %d" % len(eqs))
    eql, val_not_last, val_last = eqs[0]
    # splice = Vec::extend on `simplified`
    # the rebuilt term list: the operand of the `terms` field of the returned Chain
    from qvlib.paths import agg_sites as _aggs
    simp = []
    for _bi, _si, _s in _aggs(b, "ast::Chain"):
        for fname, o in zip(_s["rv"]["fields"], _s["rv"]["ops"]):
            if fname == "terms" and op_place(o):
                simp.append(fl.canon_place(op_place(o))[0])
    ext = []
    for bi, t in b.calls():
        if (t.get("callee") or "").endswith("Extend::extend") or (t.get("callee") or "").endswith("Vec::extend") or (t.get("callee") or "").endswith("Vec::append"):
            c = fl.canon_op(t["args"][0])
            if c and c[0] in simp:
                ext.append(bi)
    ctx.floor(R, "splice sites (simplified.extend)", len(ext), 1)
    force = {flag: 1, eql: val_not_last}
    # derived copies of the flag (e.g. `_x = copy flag; Not(_x)`) are handled by explore's constant threading from the start env
    w = None
    for s in b.succ[fb]:
        w = w or explore(b, [(s, {flag: 1})], want="target", targets=ext, avoid=[fb], force=force)
    ctx.check(w is None, R, b.key + "|tail-call-splice-guard",
              "with ends_in_tail_call and index != last_index the splice is unreachable: `^` is never moved out of tail position",
              "a block ending in a tail call can be spliced mid-chain (the `^` loses tail position / gains dead code): %s" % path_desc(b, w), b.loc(ext[0]))
    # and the guard is not vacuous: the splice IS reachable when the block is last
    w2 = None
    for s in b.succ[fb]:
        w2 = w2 or explore(b, [(s, {flag: 1})], want="target", targets=ext, avoid=[fb], force={flag: 1, eql: val_last})
    ctx.check(w2 is not None, R, b.key + "|splice-reachable-when-last", "positive control: the splice is reachable when the block is the last term",
              "the splice became unreachable even for a final block (rule would pass vacuously)")


def r3_heap_bounded(ctx):
    R = "R-C16-3"
    ctx.rule(R, "binaries dropped by earlier iterations are reclaimed: truncation releases (R-C06-1), release queues every slot whose count reaches "
                "zero, and process_pending_free runs at every step boundary and frees exactly the slots still at zero (shared with C06)")
    from rules import c06
    before = len(ctx.obs)
    c06.r5_walkers(ctx)
    c06.r3_reclaim_at_step_boundary(ctx)
    kept = []
    for o in ctx.obs[before:]:
        if "release" in o["site"] or "process_pending_free" in o["site"] or "retain" in o["site"] or o["site"].endswith("|first"):
            o = dict(o)
            o["rule"] = R
            kept.append(o)
    ctx.obs[before:] = kept
    for k in list(ctx.rules):
        if k.startswith("R-C06"):
            del ctx.rules[k]
    ctx.floors[:] = [f for f in ctx.floors if not f["rule"].startswith("R-C06")]


def r4_tail_call_height(ctx):
    """constant operand stack: the height at which each emitted TailCall executes is fixed per combination of the generator's flag parameters
    (a tail call emitted one cell higher leaves a dead cell per iteration) — the tail-call part of R-C07-7"""
    from rules import c07
    before = len(ctx.obs)
    c07.r7_emitted_stack_discipline(ctx, "R-C16-4")
    kept = [o for o in ctx.obs[before:] if "tail_call" in o["site"] or o["status"] == "violated" or o["site"] == "stack-effect-table"]
    ctx.obs[before:] = kept
    ctx.floors[:] = [f for f in ctx.floors if f["rule"] != "R-C16-4"]


OPTIONAL_FNS = ("Executor::extract_heap_data_many", "Executor::inject_heap_data_many")


def r5_messages_leave_no_dead_slots(ctx):
    """a loop that receives (or sends itself) messages must not grow the binary heap: every blob travels once per message, so every slot the receiver
    allocates is referenced by the delivered value and dies with it — shared with R-C06-6 (distinct blobs)"""
    from rules import c06
    ctx.rule("R-C16-5", "bounded heap under message loops: the heap indices whose blobs accompany a value across a process boundary are distinct (set / dedup) — "
                        "a blob shipped twice leaves an unreferenced slot at count 0 that is never reclaimed (shared with R-C06-6)")
    c06.distinct_blobs(ctx, "R-C16-5")


def run(ctx):
    ctx.run_rules([r1_tail_call_handler, r2_strip_keeps_tail_position, r3_heap_bounded, r4_tail_call_height, r5_messages_leave_no_dead_slots])
    return (
        "Decides the mechanism only: the TailCall handler pushes no frame (also transitively), truncates locals on every non-error path before "
        "pushing the new ones, overwrites the top frame in place with the same locals_base; frames are pushed at exactly three reviewed sites; "
        "block stripping never moves a tail call out of final position. Peak-size behaviour over N iterations and operand-stack leftovers "
        "below a tail call are NOT decided.",
        "obligations are MIR call sites in handle_tail_call / strip_chain and frame-push sites across the workspace; discharged by path "
        "exploration, dominance and value-source checks",
    )
