"""C01 — type soundness (clause: every application-emitting site is guarded by an argument-vs-parameter judgment; unify's quantifier polarity)."""
from qvlib import hir
from qvlib.extract import CheckError
from qvlib.facts import op_local, op_place
from qvlib.paths import call_matches, Flow, agg_sites, diverging_blocks, err_blocks, explore, path_desc

CRATES = ["quiver_compiler", "quiver_core"]
COMP = "quiver_compiler::compiler::Compiler"
APPLY = ("Call", "TailCall", "Send", "Spawn", "Select")


def guards_for(body, flow, fln):
    """guard calls in the function: (block, kind, callee-side operand reads)"""
    out = []
    for bi, t in body.calls():
        c = t.get("callee") or ""
        if c.endswith("types::is_compatible"):
            p = op_place(t["args"][1])
            f, d, _c, _cal = fln.slice_reads(p["l"]) if p else (set(), set(), [], set())
            out.append((bi, "is_compatible", {x for _o, x in f}, d, t))
        elif c.endswith("typing::unify"):
            p = op_place(t["args"][1])
            f, d, _c, _cal = fln.slice_reads(p["l"]) if p else (set(), set(), [], set())
            out.append((bi, "unify", {x for _o, x in f}, d, t))
    return out


def nil_param_tests(body, fln):
    """comparisons of the callee's parameter type id with the registered nil type: [(block, stmt, op)]"""
    out = []
    for bi, si, s in body.stmts():
        if s["k"] == "assign" and s["rv"]["k"] == "bin" and s["rv"]["op"] in ("Ne", "Eq"):
            sides = []
            for o in (s["rv"]["l"], s["rv"]["r"]):
                p = op_place(o)
                if not p:
                    sides.append(("const", set(), set()))
                    continue
                f, d, _c, cal = fln.slice_reads(p["l"])
                sides.append(("v", {x for _o, x in f}, cal))
            has_param = any("parameter" in x[1] for x in sides if x[0] == "v")
            has_nil = any(any(c.endswith("Program::register_type") or c.endswith("Type::nil") for c in x[2]) for x in sides if x[0] == "v")
            if has_param and has_nil:
                out.append((bi, si, s["rv"]["op"]))
    return out


def r1_guarded_application(ctx):
    R = "R-C01-1"
    ctx.rule(R, "every site of the compiler that emits an application instruction (Call / TailCall / Send / Spawn / Select) is guarded on every path by "
                "a judgment of the argument against the callee's own parameter (or send) type — is_compatible(arg, parameter) whose false outcome "
                "cannot reach the emission, typing::unify(.., parameter, arg)?, or a test that the parameter is the nil type for the argument-less "
                "forms; Select sites are followed by compute_select_return_type (source-kind check)")
    F = ctx.facts
    n = 0
    ords = {}
    for body in F.bodies(crate="quiver_compiler"):
        sites = [(bi, si, s) for bi, si, s in agg_sites(body, "bytecode::Instruction") if s["rv"]["variant"] in APPLY]
        if not sites:
            continue
        if "codegen::" in body.key:
            continue
        flow = Flow(body)
        fln = Flow(body, through_named=True)
        gs = guards_for(body, flow, fln)
        nils = nil_param_tests(body, fln)
        errb = err_blocks(body) | diverging_blocks(body)
        for bi, si, s in sites:
            v = s["rv"]["variant"]
            n += 1
            k = "%s|%s" % (body.key, v)
            o = ords.get(k, 0)
            ords[k] = o + 1
            site = "%s#%d" % (k, o)
            loc = body.loc(bi, si)
            if v == "Select":
                crt = [b2 for b2, _t in body.calls_to("Compiler::compute_select_return_type")]
                bad = None
                for x in [bi]:
                    bad = explore(body, body.succ[bi] if body.blocks[bi]["term"]["k"] != "return" else [], avoid=crt, stop=errb, want="return")
                ctx.check(bool(crt) and bad is None, R, site, "every non-error path after the Select emission passes compute_select_return_type (source kinds are checked)",
                          "a Select is emitted on a path that never checks its source kinds: %s" % path_desc(body, bad), loc)
                continue
            want_field = "send" if v == "Send" else "parameter"
            good = None
            # (a) is_compatible / unify against the callee's parameter
            cand = [g for g in gs if want_field in g[2] or ("Callable" in g[3] and v != "Send") or ("Process" in g[3] and v == "Send")]
            gblocks = [g[0] for g in cand]
            if cand and body.must_pass(bi, gblocks):
                ok_false = True
                for g in cand:
                    if g[1] == "is_compatible":
                        r = g[4]["dest"]["l"]
                        others = [x for x in gblocks if x != g[0]]
                        for x in body.succ[g[0]]:
                            if explore(body, [(x, {r: 0})], want="target", targets=[bi], avoid=others + [g[0]]):
                                ok_false = False
                if ok_false:
                    good = "guarded by %s against the callee's %s type" % ("/".join(sorted({g[1] for g in cand})), want_field)
                else:
                    good = None
                    why = "the false outcome of is_compatible still reaches the emission"
            # (b) nil-parameter test for the argument-less forms
            if good is None and nils:
                for nb, nsi, op in nils:
                    if not body.dominates(nb, bi):
                        continue
                    # the emission must be unreachable when parameter != nil
                    force = {(nb, nsi): (1 if op == "Ne" else 0)}
                    if explore(body, [nb], want="target", targets=[bi], force=force) is None:
                        good = "the callee's parameter is tested to be the nil type (no argument is supplied)"
            if good:
                ctx.ok(R, site, good, loc)
            else:
                rev = REVIEWED.get(site)
                if rev:
                    ctx.exception(R, site, rev, loc)
                else:
                    ctx.violated(R, site, "Instruction::%s is emitted without any judgment of the argument type against the callee's %s type: an ill-typed "
                                          "application is accepted and the callee gets stuck at run time" % (v, want_field), loc)
    ctx.floor(R, "application emission sites", n, 10)
    # the compile_string exception is conditional on its own check: is_compatible(hole, Str) dominates the Get(0) emission in the hole arm
    cs = F.body(COMP + "::compile_string")
    ic = [bi for bi, _t in cs.calls_to("types::is_compatible")]
    ctx.check(bool(ic), R, cs.key + "|hole-is-str", "string holes are checked against the string type before being concatenated",
              "compile_string no longer checks that a hole is a string (the concatenation Call would receive a non-binary)", cs.loc(0))


REVIEWED = {
    COMP + "::compile_string|Call#0": "reviewed: the Call applies the compiler-inserted string concatenation builtin to operands the compiler constructed itself "
                                        "(constant binaries, or hole values already checked is_compatible(hole, Str) — verified separately)",
}


def r2_unify_polarity(ctx):
    R = "R-C01-2"
    ctx.rule(R, "quantifier polarity of typing::unify over a union ARGUMENT: the argument may be any of its variants, so each arm whose concrete side is "
                "Type::Union must fail as soon as one variant does not unify (Err inside the loop) and succeed only after the loop; an arm that "
                "returns Ok from inside the loop is existential (a union argument would be accepted for a parameter that takes only one variant)")
    F = ctx.facts
    fn = F.fn("quiver_compiler::compiler::typing::unify")
    ms = [m for m in hir.matches(hir.body_of(fn), "Normal") if (m.get("sty") or "").startswith("(&quiver_core::types::Type, &quiver_core::types::Type)")]
    if not ms:
        raise CheckError("R-C01-2: the (pattern, concrete) match of unify was not found")
    m = ms[0]
    T = "quiver_core::types::Type"
    n = 0
    for i, arm in enumerate(m["arms"]):
        rows = hir.tuple_subs(arm["pat"], 2)
        concrete_union = any(len(r) == 2 and hir.pat_head(r[1], T) == {"Union"} for r in rows)
        if not concrete_union or arm.get("guard") is not None:
            continue
        n += 1
        pat_side = "Union" if any(hir.pat_head(r[0], T) == {"Union"} for r in rows) else "_"
        site = "unify|arm(%s,Union)" % pat_side
        loops = [x for x in hir.walk(arm["body"]) if x["e"] == "loop"]
        if not loops:
            ctx.violated(R, site, "no loop over the argument's variants", "%s:%d" % (fn["file"], arm["ln"]))
            continue
        outer = loops[0]
        # returns inside the OUTER loop over the concrete variants
        rets = [x for x in hir.walk(outer) if x["e"] == "ret"]
        ok_inside = []
        err_inside = []
        for r in rets:
            cs = [c[1] for c in hir.ctors(r["x"])] if r.get("x") else []
            if "Ok" in cs and "Err" not in cs:
                ok_inside.append(r)
            if "Err" in cs:
                err_inside.append(r)
        ctx.check(not ok_inside and bool(err_inside), R, site,
                  "universal: Err is returned from inside the loop over the argument's variants, Ok only after it",
                  "existential: the loop over the argument's variants returns Ok as soon as ONE variant unifies (%d Ok / %d Err returns inside the loop): "
                  "a union argument is accepted for a parameter that fits only one of its variants" % (len(ok_inside), len(err_inside)),
                  "%s:%d" % (fn["file"], arm["ln"]))
    ctx.floor(R, "unify arms with a union on the argument side", n, 2)


def r3_declared_return(ctx):
    R = "R-C01-3"
    ctx.rule(R, "a declared return type is checked: compile_function compares the body's type with the declared result (types_match / is_compatible) "
                "before registering the function's callable type")
    F = ctx.facts
    keys = [k for k in F.fns if k.startswith(COMP + "::compile_function") and "{closure" not in k]
    found = False
    for k in keys:
        b = F.body(k)
        tm = [bi for bi, t in b.calls() if (t.get("callee") or "").split("::")[-1] in ("types_match", "is_compatible")]
        if tm:
            found = True
    ctx.check(found, R, COMP + "::compile_function|declared-return", "the body type is compared with the declared return type",
              "compile_function no longer checks a declared return type against the body's type")


def r5_narrowing_belongs_to_its_binding(ctx):
    R = "R-C01-5"
    ctx.rule(R, "a narrowing is applied only to the binding it was recorded for: in scopes::lookup_variable every read of `narrowings.variables` is made "
                "on a scope taken from the part of the scope stack that starts at the scope holding the binding (a range / index whose lower bound "
                "derives from the binding search) — a narrowing of an outer variable must not retype an inner variable that shadows its name")
    F = ctx.facts
    b = F.body("quiver_compiler::compiler::scopes::lookup_variable")
    fl = Flow(b, through_named=True)
    TC = ("Iterator::next", "Iterator::rev", "slice::iter", "IntoIterator::into_iter", "Index::index", "Deref::deref", "Iterator::enumerate", "Iterator::skip",
          "slice::get", "Option::unwrap", "Try::branch", "Iterator::take", "Iterator::zip")
    # the binding search: the call whose closure reads `bindings`
    search = []
    for bi, t in b.calls():
        for a in t["args"]:
            pl = op_place(a)
            if not pl:
                continue
            for _b2, _s2, st in b.stmts():
                if st["k"] == "assign" and st["p"]["l"] == pl["l"] and st["rv"].get("closure"):
                    cb = F.body(st["rv"]["closure"])
                    if any(e[0] == "f" and e[1] == "bindings" for _x, _y, s3 in cb.stmts() if s3["k"] == "assign"
                           for pp in ([s3["rv"].get("p")] if s3["rv"].get("p") else []) for e in pp["pr"]):
                        search.append(t["dest"]["l"])
    for bi, si, st in b.stmts():
        if st["k"] == "assign" and st["rv"]["k"] in ("ref", "use"):
            pp = st["rv"].get("p") or op_place(st["rv"].get("op") or {})
            if pp and any(e[0] == "f" and e[1] == "bindings" for e in pp["pr"]):
                for cb_, ct in b.calls():
                    if (ct.get("callee") or "").endswith("HashMap::get") and op_place(ct["args"][0]) and st["p"]["l"] in fl.backward({op_place(ct["args"][0])["l"]}):
                        search.append(ct["dest"]["l"])
    if not search:
        raise CheckError("%s: the binding search of lookup_variable was not found" % R)
    n = 0
    for bi, t in b.calls():
        if not (t.get("callee") or "").endswith("HashMap::get") or not t["args"] or not op_place(t["args"][0]):
            continue
        rp = op_place(t["args"][0])
        fields = fl.slice_reads(rp["l"])[0]
        if not any(f == "variables" for _o, f in fields) or not any(f == "narrowings" for _o, f in fields):
            continue
        n += 1
        back = fl.backward({rp["l"]}, through_calls=TC)
        bounded = False
        for b2, s2, st in b.stmts():
            if st["k"] == "assign" and st["p"]["l"] in back and st["rv"]["k"] == "agg" and (st["rv"].get("adt") or "").split("::")[-1] in ("RangeFrom", "Range", "RangeInclusive"):
                lo = op_place(st["rv"]["ops"][0]) if st["rv"]["ops"] else None
                if lo and (fl.backward({lo["l"]}, through_calls=("Try::branch", "Option::unwrap", "Option::map", "Option::expect")) & set(search)):
                    bounded = True
        # or an explicit comparison of the scanned index with the binding's index guards the read
        for b2, s2, st in b.stmts():
            if st["k"] == "assign" and st["rv"]["k"] == "bin" and st["rv"]["op"] in ("Ge", "Gt", "Le", "Lt") and b.dominates(b2, bi):
                sides = [fl.backward({op_place(o)["l"]}, through_calls=("Try::branch", "Option::unwrap")) if op_place(o) else set() for o in (st["rv"]["l"], st["rv"]["r"])]
                if any(sd & set(search) for sd in sides):
                    bounded = True
        ctx.check(bounded, R, "%s|narrowing-read#%d" % (b.key, n - 1), "the scanned scopes start at the binding's scope (range lower bound from the binding search)",
                  "lookup_variable reads narrowings from scopes OUTSIDE the binding's own (no range / comparison tied to the index of the scope that holds "
                  "the binding): a narrowing recorded for an outer variable retypes an inner variable with the same name — runtime checks are dropped and "
                  "an ill-typed value reaches a builtin", b.loc(bi))
    # ... or inside a closure handed to an iterator adaptor: then the ITERATOR must be over the bounded part of the stack
    def bounded_range_in(back):
        for b2, s2, st in b.stmts():
            if st["k"] == "assign" and st["p"]["l"] in back and st["rv"]["k"] == "agg" and (st["rv"].get("adt") or "").split("::")[-1] in ("RangeFrom", "Range", "RangeInclusive"):
                lo = op_place(st["rv"]["ops"][0]) if st["rv"]["ops"] else None
                if lo and (fl.backward({lo["l"]}, through_calls=("Try::branch", "Option::unwrap", "Option::map", "Option::expect")) & set(search)):
                    return True
        return False
    for ck in F.closures_of(b.key):
        cb = F.body(ck)
        cfl = Flow(cb, through_named=True)
        reads = []
        for bi, t in cb.calls():
            if (t.get("callee") or "").endswith("HashMap::get") and t["args"] and op_place(t["args"][0]):
                fields = cfl.slice_reads(op_place(t["args"][0])["l"])[0]
                if any(f == "variables" for _o, f in fields) and any(f == "narrowings" for _o, f in fields):
                    reads.append(bi)
        if not reads:
            continue
        for bi2, si2, st in b.stmts():
            if st["k"] == "assign" and st["rv"].get("closure") == ck:
                for b3, t3 in b.calls():
                    if any((op_place(a) or {}).get("l") == st["p"]["l"] for a in t3["args"]) and t3["args"] and op_place(t3["args"][0]):
                        n += 1
                        back = fl.backward({op_place(t3["args"][0])["l"]}, through_calls=TC)
                        ctx.check(bounded_range_in(back), R, "%s|narrowing-read#%d" % (b.key, n - 1),
                                  "the iterator whose closure reads the narrowings runs over the part of the stack starting at the binding's scope",
                                  "lookup_variable reads narrowings from scopes OUTSIDE the binding's own (the iterator handed to %s is not bounded by the "
                                  "index of the scope that holds the binding): a narrowing recorded for an outer variable retypes an inner variable with the "
                                  "same name" % (t3.get("callee") or "").split("::")[-1], b.loc(b3))
    ctx.floor(R, "narrowing reads in lookup_variable", n, 1)
    # FIELD narrowings (`narrowings.fields`, keyed by provenance): a provenance rooted at a variable NAME means a different value under a shadowing
    # binding, so every read / write of that table is made on the INNERMOST scope only (`scopes.last()` / `last_mut()`), or — like lookup_variable —
    # on a part of the stack bounded by a binding search
    LAST = ("slice::last", "slice::last_mut", "Vec::last", "Vec::last_mut")
    TC2 = TC + ("Option::and_then", "Option::map", "Option::as_ref", "Option::as_mut", "Option::expect", "slice::iter_mut", "IndexMut::index_mut", "DerefMut::deref_mut")
    nf = 0
    for body in F.bodies(crate="quiver_compiler"):
        if "::compiler::" not in body.key or body.fn.get("derived"):
            continue
        hits = []
        for bi, si, st in body.stmts():
            if st["k"] != "assign":
                continue
            pp = st["rv"].get("p") or (op_place(st["rv"].get("op") or {}) if st["rv"]["k"] in ("use", "cast") else None)
            if pp and any(e[0] == "f" and e[1] == "fields" and (e[2] or "").endswith("Narrowings") for e in pp["pr"]):
                hits.append((bi, si, pp))
        if not hits:
            continue
        bfl = Flow(body, through_named=True)
        for bi, si, pp in hits:
            nf += 1
            back = bfl.backward({pp["l"]}, through_calls=TC2)
            innermost = any(t["dest"]["l"] in back and call_matches(t, LAST) for _b, t in body.calls())
            bounded = False
            how = "?"
            if innermost:
                how = "scope = scopes.last()"
            elif "::{closure" in body.key and any(2 <= x <= body.mir["argc"] for x in back):
                use = F.closure_use(body.key)
                if use:
                    pb, _b2, t2, ai = use
                    if ai > 0 and op_place(t2["args"][0]):
                        pfl = Flow(pb, through_named=True)
                        pback = pfl.backward({op_place(t2["args"][0])["l"]}, through_calls=TC2)
                        innermost = any(t["dest"]["l"] in pback and call_matches(t, LAST) for _b, t in pb.calls())
                        how = "closure over scopes.last()" if innermost else "closure handed to %s" % (t2.get("callee") or "?").split("::")[-1]
                        if not innermost:
                            # bounded below by a binding search in the builder?
                            for _b3, _s3, st3 in pb.stmts():
                                if st3["k"] == "assign" and st3["p"]["l"] in pback and st3["rv"]["k"] == "agg" and \
                                        (st3["rv"].get("adt") or "").split("::")[-1] in ("RangeFrom", "Range", "RangeInclusive"):
                                    lo = op_place(st3["rv"]["ops"][0]) if st3["rv"]["ops"] else None
                                    if lo and any("bindings" in {f for _o, f in pfl.slice_reads(x)[0]} for x in pfl.backward({lo["l"]}, through_calls=("Try::branch", "Option::unwrap", "Option::map", "Option::expect", "Iterator::position", "Iterator::rposition"))):
                                        bounded = True
                                        how = "range bounded by a binding search"
            elif any(1 <= x <= body.mir["argc"] and "Scope" in body.local_ty(x) and "[" not in body.local_ty(x) and "Vec<" not in body.local_ty(x) for x in back):
                # a helper handed ONE scope: every caller must hand it the innermost one
                cs = F.callers_of(body.key.split("::{closure")[0])
                okc = bool(cs)
                for ck_, cbi in cs:
                    cbod = F.body(ck_)
                    cfl2 = Flow(cbod, through_named=True)
                    t3 = cbod.blocks[cbi]["term"]
                    okc = okc and any(op_place(a) and any(t4["dest"]["l"] in cfl2.backward({op_place(a)["l"]}, through_calls=TC2) and call_matches(t4, LAST)
                                                          for _b4, t4 in cbod.calls()) for a in t3["args"])
                innermost = okc
                how = "single scope handed in by callers that pass scopes.last()"
            ctx.check(innermost or bounded, R, "%s|field-narrowings#%d" % (body.key.split("::{closure")[0], sum(1 for o in ctx.obs if o["rule"] == R and o["site"].startswith(body.key.split("::{closure")[0] + "|field-narrowings"))),
                      "field narrowings are consulted on the innermost scope only (%s)" % how,
                      "field narrowings (keyed by a provenance that names a VARIABLE) are read from scopes other than the innermost, without stopping at the "
                      "scope that binds the name (%s): a narrowing recorded for an outer tuple variable is applied to an inner variable that shadows it — "
                      "reachable branches are pruned as unmatchable" % how, body.loc(bi, si))
    ctx.floor(R, "reads / writes of narrowings.fields", nf, 2)


def r4_check_elision_and_unions(ctx):
    """what the type checker PROMISES the run time: a type assertion's runtime check is dropped only when the static type is compatible with the
    asserted type, and a union type never loses a variant to coverage pruning — shared with R-C09-5"""
    from rules import c09
    before = len(ctx.obs)
    c09.r5_unions_and_check_elision(ctx)
    for o in ctx.obs[before:]:
        o["rule"] = "R-C01-4"
    if "R-C09-5" in ctx.rules:
        ctx.rules["R-C01-4"] = ctx.rules.pop("R-C09-5")


def r6_static_type_matches_contents(ctx):
    """the typing pass and the emitting pass of tuple literals with spreads agree on which source supplies a named field (rightmost) — shared with
    R-C02-5 (b)"""
    from rules import c02
    before = len(ctx.obs)
    c02.r5_written_order(ctx)
    kept = []
    for o in ctx.obs[before:]:
        if "build_field_sources_for_variant" in o["site"]:
            o = dict(o)
            o["rule"] = "R-C01-6"
            kept.append(o)
    ctx.obs[before:] = kept
    if "R-C02-5" in ctx.rules:
        ctx.rules["R-C01-6"] = ctx.rules.pop("R-C02-5")
    ctx.floors[:] = [f for f in ctx.floors if f["rule"] != "R-C02-5"]


def r7_one_index_for_every_variant(ctx, R="R-C01-7"):
    ctx.rule(R, "a named field access `v.x` compiles to ONE positional Get(index), so on a union every variant must keep the field at the same position: in "
                "type_queries::get_field_by_name the index found for a variant (get_field_from_source) is compared with the others — an equality test one of "
                "whose operands derives from that index exists, and, when the test sits in the loop over the variants, every iteration that found the field "
                "passes the test or the first-time store of the common index (no `continue` around it). Without it `v.x` on `A[x, y] | B[y, x]` reads `y` "
                "from a B value — typed as `x`")
    F = ctx.facts
    key = "quiver_compiler::compiler::type_queries::get_field_by_name"
    b = F.body(key)
    fl = Flow(b, through_named=True)
    THRU = ("Try::branch", "Option::ok_or_else", "Option::ok_or", "Option::unwrap", "Option::expect", "Option::map", "Clone::clone", "Deref::deref")
    finds = [(bi, t) for bi, t in b.calls() if (t.get("callee") or "").endswith("get_field_from_source")]
    if not finds:
        # the lookup sits in a closure mapped over the variants: then some comparison of two (non-constant) usize values must exist in the function or
        # its closures (the indices compared after collecting them), else nothing compares them at all
        in_closures = [ck for ck in F.closures_of(key) if any((t.get("callee") or "").endswith("get_field_from_source") for _b, t in F.body(ck).calls())]
        if not in_closures:
            raise CheckError("%s: get_field_by_name no longer calls get_field_from_source — cannot decide" % R)
        cmp_n = 0
        for k2 in F.with_closures(key):
            b2 = F.body(k2)
            for _bi, _si, st in b2.stmts():
                if st["k"] == "assign" and st["rv"]["k"] == "bin" and st["rv"]["op"] in ("Eq", "Ne"):
                    pl, pr = op_place(st["rv"]["l"]), op_place(st["rv"]["r"])
                    if pl and pr and "usize" in (b2.local_ty(pl["l"]) or "") and "usize" in (b2.local_ty(pr["l"]) or ""):
                        cmp_n += 1
            for _bi, t in b2.calls():
                c = t.get("callee") or ""
                if (c.split("::")[-1] in ("eq", "ne") and "PartialEq" in c) or c.split("::")[-1] in ("dedup", "dedup_by_key", "windows", "is_sorted"):
                    cmp_n += 1
        ctx.check(cmp_n > 0, R, key + "|indices-compared", "the indices found for the variants are compared",
                  "get_field_by_name returns a field index without comparing the indices the variants store the field at: a named access on a union whose "
                  "variants order their fields differently reads the wrong field", b.loc(0))
        return
    found_locals = {t["dest"]["l"] for _bi, t in finds}

    def derives_from_found_index(o):
        pl = op_place(o)
        if not pl or "usize" not in (b.local_ty(pl["l"]) or ""):
            return False
        return bool(fl.backward({pl["l"]}, through_calls=THRU) & found_locals)
    tests = []
    for bi, si, st in b.stmts():
        if st["k"] == "assign" and st["rv"]["k"] == "bin" and st["rv"]["op"] in ("Eq", "Ne"):
            if derives_from_found_index(st["rv"]["l"]) or derives_from_found_index(st["rv"]["r"]):
                tests.append(bi)
    for bi, t in b.calls():
        c = t.get("callee") or ""
        if c.split("::")[-1] in ("eq", "ne") and "PartialEq" in c and len(t["args"]) >= 2 and any(
                op_place(a) and (fl.backward({op_place(a)["l"]}, through_calls=THRU) & found_locals) for a in t["args"][:2]):
            tests.append(bi)
    for ck in F.closures_of(key):
        cb = F.body(ck)
        if any(st["k"] == "assign" and st["rv"]["k"] == "bin" and st["rv"]["op"] in ("Eq", "Ne") for _b, _s, st in cb.stmts()) and any(
                "usize" in (l.get("ty") or "") for l in cb.locals[1:cb.mir["argc"] + 1]):
            tests.append(-1)      # a comparison of indices in a closure handed to an adaptor (post-loop form)
    ctx.check(bool(tests), R, key + "|indices-compared", "the index found for a variant is compared with the common index",
              "get_field_by_name returns a field index without comparing the indices the variants store the field at: a named access on a union whose "
              "variants order their fields differently reads the wrong field", b.loc(finds[0][0]))
    # loop form: no iteration that found the field skips the test / first store
    in_loop = [x for x in tests if x >= 0 and any(b.reaches(s2, x) for s2 in b.succ[x]) and any(b.reaches(x, f) and b.reaches(f, x) for f, _t in finds)]
    if in_loop:
        heads = [bi for bi, t in b.calls() if (t.get("callee") or "").endswith("Iterator::next") and all(b.reaches(bi, x) and b.reaches(x, bi) for x in in_loop)]
        # the first-time store: an assignment of Some(found index) to the common-index option
        stores = [bi for bi, si, st in b.stmts() if st["k"] == "assign" and st["rv"]["k"] == "agg" and st["rv"].get("variant") == "Some" and st["rv"]["ops"] and
                  derives_from_found_index(st["rv"]["ops"][0])]
        skip = None
        for fbi, ft in finds:
            for s2 in b.succ[fbi]:
                skip = skip or explore(b, [s2], avoid=in_loop + stores, stop=err_blocks(b) | diverging_blocks(b), want="target", targets=heads) if heads else None
        ctx.check(bool(heads) and skip is None, R, key + "|every-variant-compared", "every iteration that found the field passes the index test or the first-time store",
                  "an iteration over the variants can find the field and go on to the next variant without comparing its index (%s): a later variant that stores "
                  "the field elsewhere is not rejected" % path_desc(b, skip), b.loc(finds[0][0]))


def run(ctx):
    ctx.run_rules([r1_guarded_application, r2_unify_polarity, r3_declared_return, r4_check_elision_and_unions, r5_narrowing_belongs_to_its_binding, r6_static_type_matches_contents,
                   r7_one_index_for_every_variant])
    ctx.note("NOT decided: soundness of narrowing, complement narrowing carve-outs, return-type dispatch tables, pattern analysis — properties of the "
             "type checker's output over all programs; correctness of the judgments themselves is C09")
    return (
        "Decides presence and placement of the argument-vs-parameter judgments at every application-emitting site of the compiler (the only ways "
        "compiled code can apply one value to another), and the quantifier polarity of unification over union arguments. It does NOT decide that "
        "accepted programs never get stuck: narrowing, dispatch tables and inference are out of reach of a static analysis of the compiler's source.",
        "obligations are the MIR sites constructing Call/TailCall/Send/Spawn/Select and the union-argument arms of unify; discharged by "
        "must-pass-through with outcome-sensitive reachability, operand provenance (the callee's parameter/send field) and HIR loop-return shape",
    )
