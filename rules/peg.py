"""PEG / nom backtracking analysis over the resolved HIR of quiver_compiler::parser: FIRST-parser sets of combinator expressions and the
common-prefix lint behind R-C18-5."""
from qvlib import hir

P = "quiver_compiler::parser::"
WRAP0 = {"map", "opt", "cut", "recognize", "verify", "peek", "map_res", "map_opt", "all_consuming", "complete", "many0", "many1", "many0_count", "many1_count",
         "fold_many0", "fold_many1", "not", "consumed", "into", "flat_map", "many_till", "many_m_n"}
WRAP1 = {"context", "value", "separated_list0", "separated_list1"}      # first parser is the SECOND argument (value(v, p), context(name, p)) / element parser
SEQ = {"pair", "tuple", "separated_pair", "terminated", "preceded", "delimited"}
NULLABLE_NOM = {"opt", "many0", "many0_count", "fold_many0", "separated_list0", "multispace0", "space0", "take_while", "take_till", "success", "peek", "not",
                "line_ending0", "alpha0", "digit0", "alphanumeric0", "rest", "eof", "cond"}


def callee_name(n):
    """(kind, name) of a combinator application node: ('nom', 'pair') / ('fn', 'sequence') / (None, None)."""
    if n is None:
        return None, None
    if n["e"] == "path":
        k = n.get("tdkey") or n.get("key") or ""
        if k.startswith(P) and n.get("res") == "fn":
            return "fn", k
        if k.startswith("nom::"):
            return "nompath", k.split("::")[-1]      # a nom parser used as a value (multispace0, digit1, ...)
        return None, None
    if n["e"] == "call":
        f = n["f"]
        if f["e"] == "path":
            k = f.get("tdkey") or f.get("key") or ""
            if k.startswith("nom::"):
                return "nom", k.split("::")[-1]
            if k.startswith(P):
                return "fncall", k
    return None, None


def elems(n):
    """components of a tuple expression node"""
    if n is None:
        return []
    if n["e"] == "tup":
        for key in ("items", "xs", "elems", "args", "fields"):
            if isinstance(n.get(key), list):
                return n[key]
        return list(hir.children(n))
    return [n]


class Grammar:
    def __init__(self, F):
        self.F = F
        self.fns = {k: f for k, f in F.fns.items() if k.startswith(P) and "::{closure" not in k and f.get("hir")}
        self._first = {}
        self._nullable = {}
        self._edges = None
        self.opaque = set()

    def body_expr(self, key):
        """the combinator expression a parser function applies to its input: `expr(input)` in tail position (or the whole body otherwise)."""
        b = hir.body_of(self.fns[key])
        if b is None:
            return None
        n = b
        while n is not None and n["e"] == "block" and n.get("tail") is not None and not n.get("stmts"):
            n = n["tail"]
        if n is not None and n["e"] == "call" and n["f"]["e"] == "call":
            return n["f"]
        # a hand-written parser (statements before its combinator, e.g. a look-ahead guard that fails fast): what it costs to backtrack over it is
        # not visible in a combinator tree — recorded, and not judged
        if b.get("stmts"):
            self.opaque.add(key)
        return b

    def nullable(self, n, depth=0):
        kind, name = callee_name(n)
        if kind == "nompath":
            return name in NULLABLE_NOM
        if kind == "fn":
            if name in self._nullable:
                return self._nullable[name]
            self._nullable[name] = False
            if depth < 12 and name in self.fns:
                self._nullable[name] = self.nullable(self.body_expr(name), depth + 1)
            return self._nullable[name]
        if kind == "nom":
            args = n["args"]
            if name in NULLABLE_NOM:
                return True
            if name in SEQ:
                parts = elems(args[0]) if name == "tuple" else args
                if name == "separated_pair":
                    parts = args
                return all(self.nullable(p, depth + 1) for p in parts)
            if name == "alt":
                return any(self.nullable(p, depth + 1) for p in elems(args[0]))
            if name in WRAP0 and args:
                return self.nullable(args[0], depth + 1)
            if name in WRAP1 and len(args) > 1:
                return self.nullable(args[1], depth + 1)
            return False
        if n is not None and n["e"] == "closure":
            return self.nullable(self._closure_expr(n), depth + 1)
        return False

    def _closure_expr(self, n):
        b = n.get("body")
        while b is not None and b["e"] == "block" and b.get("tail") is not None and not b.get("stmts"):
            b = b["tail"]
        if b is not None and b["e"] == "call" and b["f"]["e"] == "call":
            return b["f"]
        return None

    def first(self, n, depth=0):
        """set of named parser functions that can be invoked at the START position of the expression (expanded transitively)."""
        if n is None or depth > 40:
            return set()
        kind, name = callee_name(n)
        if kind == "fn":
            return self.first_fn(name, depth)
        if kind == "fncall":
            return self.first_fn(name, depth)
        if kind == "nom":
            args = n["args"]
            if name == "alt":
                out = set()
                for p in elems(args[0]) if args else []:
                    out |= self.first(p, depth + 1)
                return out
            if name in SEQ:
                parts = elems(args[0]) if name == "tuple" else list(args)
                out = set()
                for p in parts:
                    out |= self.first(p, depth + 1)
                    if not self.nullable(p):
                        break
                return out
            if name in WRAP0 and args:
                return self.first(args[0], depth + 1)
            if name in WRAP1 and len(args) > 1:
                out = self.first(args[1], depth + 1)
                if name.startswith("separated_list"):
                    pass
                return out
            return set()
        if n["e"] == "closure":
            return self.first(self._closure_expr(n), depth + 1)
        if n["e"] == "call" and n["f"]["e"] == "call":
            return self.first(n["f"], depth + 1)
        return set()

    def tokens(self, n, depth=0, seen=None):
        """literal first tokens (char / tag arguments) an expression can start with, named parsers expanded."""
        seen = seen if seen is not None else set()
        if n is None or depth > 40:
            return set()
        kind, name = callee_name(n)
        if kind in ("fn", "fncall"):
            if name in seen or name not in self.fns:
                return set()
            seen.add(name)
            return self.tokens(self.body_expr(name), depth + 1, seen)
        if kind == "nom":
            args = n["args"]
            if name in ("char", "tag", "tag_no_case") and args:
                a = args[0]
                if a["e"] == "lit":
                    return {a.get("text", "")}
                return {"?"}
            if name == "alt":
                out = set()
                for p in elems(args[0]) if args else []:
                    out |= self.tokens(p, depth + 1, seen)
                return out
            if name in SEQ:
                parts = elems(args[0]) if name == "tuple" else list(args)
                out = set()
                for p in parts:
                    out |= self.tokens(p, depth + 1, seen)
                    if not self.nullable(p):
                        break
                return out
            if name in WRAP0 and args:
                return self.tokens(args[0], depth + 1, seen)
            if name in WRAP1 and len(args) > 1:
                return self.tokens(args[1], depth + 1, seen)
            return set()
        if n["e"] == "closure":
            return self.tokens(self._closure_expr(n), depth + 1, seen)
        if n["e"] == "call" and n["f"]["e"] == "call":
            return self.tokens(n["f"], depth + 1, seen)
        return set()

    def refs(self, n):
        """parser functions referenced anywhere in an expression"""
        out = set()
        for x in hir.walk(n):
            if x["e"] == "path":
                kk = x.get("tdkey") or x.get("key") or ""
                if kk.startswith(P) and kk in self.fns:
                    out.add(kk)
        return out

    def recursive_into(self, n, g):
        """can parsing the expression re-enter parser function g (nesting)?"""
        return any(r == g or self.reaches(r, g) for r in self.refs(n))

    def seq_parts(self, n, depth=0):
        """flatten an alternative into its sequence of component parsers (through map / named fns whose body is a sequence / closures)."""
        if n is None or depth > 12:
            return [n]
        kind, name = callee_name(n)
        if kind in ("fn", "fncall") and name in self.fns:
            b = self.body_expr(name)
            k2, n2 = callee_name(b)
            if k2 == "nom" and (n2 in SEQ or n2 in ("map", "map_res", "context", "cut", "recognize", "preceded", "verify", "map_opt")):
                return self.seq_parts(b, depth + 1)
            return [n]
        if kind == "nom":
            args = n["args"]
            if name in SEQ:
                parts = elems(args[0]) if name == "tuple" else list(args)
                out = []
                for p_ in parts:
                    out += self.seq_parts(p_, depth + 1)
                return out
            if name in ("map", "map_res", "cut", "recognize", "verify", "map_opt", "complete") and args:
                return self.seq_parts(args[0], depth + 1)
            if name in ("context", "value") and len(args) > 1:
                return self.seq_parts(args[1], depth + 1)
            return [n]
        if n["e"] == "closure":
            return self.seq_parts(self._closure_expr(n), depth + 1)
        return [n]

    def _alt_inside(self, p_):
        """alternatives of a component that is (a wrapper around) a choice, directly or as the body of a named parser; else None."""
        kind, name = callee_name(p_)
        b = p_
        if kind in ("fn", "fncall") and name in self.fns:
            b = self.body_expr(name)
        k2, n2 = callee_name(b)
        while k2 == "nom" and n2 in ("map", "verify", "map_res", "cut", "recognize", "map_opt", "context") and b["args"]:
            b = b["args"][1] if n2 == "context" and len(b["args"]) > 1 else b["args"][0]
            k2, n2 = callee_name(b)
        if k2 == "nom" and n2 == "alt" and b["args"]:
            return elems(b["args"][0])
        return None

    def heads(self, alt, g, depth=0):
        """[(opening literal tokens or None, recursive parsers)] — the ways an alternative can reach a component that re-enters g after AT MOST ONE
        mandatory literal component (`(` then a nested type; or the nested rule straight away). Nested choices at the head are expanded."""
        inner = self._alt_inside(alt)
        if inner is not None and depth < 3:
            out = []
            for a2 in inner:
                out += self.heads(a2, g, depth + 1)
            return out
        parts = [p_ for p_ in self.seq_parts(alt) if p_ is not None and (not self.nullable(p_) or self.recursive_into(p_, g))]
        if not parts:
            return []
        p0 = parts[0]
        if self.recursive_into(p0, g):
            inner0 = self._alt_inside(p0)
            if inner0 is not None and depth < 3 and len(parts) == 1:
                out = []
                for a2 in inner0:
                    out += self.heads(a2, g, depth + 1)
                return out
            return [(None, frozenset(c for c in self.first(p0) if c == g or self.reaches(c, g)))]
        tk = self.tokens(p0) - {"?"}
        if tk and len(parts) > 1 and self.recursive_into(parts[1], g):
            return [(frozenset(tk), frozenset(c for c in self.first(parts[1]) if c == g or self.reaches(c, g)))]
        return []

    def first_fn(self, key, depth=0):
        if key in self._first:
            return self._first[key]
        self._first[key] = {key}
        if key in self.fns and depth < 40:
            self._first[key] = {key} | self.first(self.body_expr(key), depth + 1)
        return self._first[key]

    def edges(self):
        """call graph among parser functions (any reference to a parser fn in the body)."""
        if self._edges is None:
            self._edges = {}
            for k, f in self.fns.items():
                refs = set()
                for x in hir.walk(hir.body_of(f)):
                    if x["e"] == "path":
                        kk = x.get("tdkey") or x.get("key") or ""
                        if kk.startswith(P) and kk in self.fns:
                            refs.add(kk)
                self._edges[k] = refs
        return self._edges

    def reaches(self, a, b):
        seen = set()
        work = [a]
        while work:
            k = work.pop()
            for n in self.edges().get(k, ()):
                if n == b:
                    return True
                if n not in seen:
                    seen.add(n)
                    work.append(n)
        return False

    def alts(self):
        """(function key, alt node, [alternatives])"""
        for k, f in self.fns.items():
            for x in hir.walk(hir.body_of(f)):
                kind, name = callee_name(x)
                if kind == "nom" and name == "alt" and x["args"]:
                    yield k, x, elems(x["args"][0])
