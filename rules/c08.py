"""C08 — runtime type tests accept only members and never reject known members (table-construction clauses)."""
from qvlib import hir
from qvlib.extract import CheckError
from qvlib.facts import op_local, op_place
from qvlib.paths import Flow, agg_sites, call_matches, consumer_calls, explore, path_desc

CRATES = None
OPTIONAL_FNS = ("Worker::notify_result", "Worker::deliver_message", "Worker::update_program")      # private Worker helpers that may be inlined into their only caller
EXEC = "quiver_core::executor::Executor"
VALUE = "quiver_core::value::Value"
CT = "quiver_core::bytecode::ConcreteType"

# Value variant -> (ConcreteType variant, index of the Value payload that becomes the ConcreteType payload)
# read from value.rs / bytecode.rs: Process(pid, function_index), Resource(resource_id, resource_type_id)
PAYLOAD = {"Integer": None, "Binary": None, "Reference": None, "Tuple": 0, "Function": 0, "Builtin": 0, "Process": 1, "Resource": 1}
# ConcreteType variant -> where the value-side type id handed to is_compatible must come from
INDEX_SOURCE = {"Integer": "integer", "Binary": "binary", "Reference": "reference", "Tuple": "tuple_to_type", "Builtin": "callable_to_type",
                "Process": "process_to_type", "Resource": "resource_to_type", "Function": "call:extract_function_type_info"}


def r1_concrete_tags(ctx):
    R = "R-C08-1"
    ctx.rule(R, "get_concrete_type maps the Value variants one-to-one onto the ConcreteType variants (with the right payload), and "
                "compute_compatible_concrete_types inserts each ConcreteType variant guarded by is_compatible(<its type id>, pattern_id)")
    F = ctx.facts
    vv = F.variants(VALUE)
    cv = F.variants(CT)
    ctx.check(sorted(vv) == sorted(cv), R, "variants(Value)==variants(ConcreteType)", "Value and ConcreteType have the same variant names (%d)" % len(vv),
              "Value variants %s vs ConcreteType variants %s: a runtime value kind has no concrete tag" % (sorted(vv), sorted(cv)))
    g = F.fn(EXEC + "::get_concrete_type")
    ms = hir.matches(hir.body_of(g))
    if not ms:
        raise CheckError("R-C08-1: no match in get_concrete_type")
    m = ms[0]
    for v in vv:
        arms = hir.arms_for_variant(m, VALUE, v)
        site = "%s|%s" % (g["key"], v)
        if not arms or not arms[0][2]:
            ctx.violated(R, site, "Value::%s has no unconditional arm in get_concrete_type" % v)
            continue
        _i, arm, _d = arms[0]
        cons = [c for c in hir.ctors(arm["body"]) if c[0] == CT]
        ok = len(cons) == 1 and cons[0][1] == v
        if ok and PAYLOAD.get(v) is not None:
            binds = [nm for nm, path in hir.pat_bindings(arm["pat"]) if path and path[-1] == (v, PAYLOAD[v])]
            used = set(hir.local_names(arm["body"]))
            ok = bool(binds) and binds[0] in used
        ctx.check(ok, R, site, "Value::%s -> ConcreteType::%s%s" % (v, v, "" if PAYLOAD.get(v) is None else " (payload = field %d)" % PAYLOAD[v]),
                  "Value::%s is tagged %s (expected ConcreteType::%s with payload field %s): IsType looks up the wrong table entry"
                  % (v, [c[1] for c in cons], v, PAYLOAD.get(v)), "%s:%d" % (g["file"], arm["ln"]))
    # table builder
    b = F.body("quiver_core::compatibility::compute_compatible_concrete_types")
    fl = Flow(b)
    fld = Flow(b, through_named=True)
    pat_param = [b.param_by_type(lambda ty: ty == "usize", what="pattern type id parameter")]
    compat_calls = [(bi, t) for bi, t in b.calls_to("types::is_compatible")]
    compat_blocks = [bi for bi, _ in compat_calls]
    inserts = {}
    total = 0
    for bi, si, s in agg_sites(b, "bytecode::ConcreteType"):
        v = s["rv"]["variant"]
        for cb, ct, ai in consumer_calls(b, fl, s["p"]["l"]):
            if (ct.get("callee") or "").endswith("HashSet::insert"):
                inserts.setdefault(v, []).append(cb)
                total += 1
    # table-driven form: `for (type_id, .., tag) in [(index.integer, .., ConcreteType::Integer), ..] { if is_compatible(type_id?, pattern) { insert(tag) } }`
    # — the tag inserted and the type id compared are two columns of the SAME row of a literal array; each row must pair a tag with its own index field
    table = {}       # variant -> (insert block, element local, loop header block, row operand locals)
    nxt = {t["dest"]["l"]: (bi, t) for bi, t in b.calls() if (t.get("callee") or "").endswith("Iterator::next")}

    def elem_column(l):
        """(element local, tuple column) when local l is a column of the item produced by a `next` call"""
        c = fld.canon_local(l)
        fs = [e for e in c[1] if e[0] == "f"]
        if c[0] in nxt and len(fs) >= 2 and str(fs[1][1]).isdigit():
            return c[0], int(fs[1][1])
        return None
    for ib, t in b.calls():
        if not (t.get("callee") or "").endswith("HashSet::insert") or len(t["args"]) < 2 or not op_place(t["args"][1]):
            continue
        ec = elem_column(op_place(t["args"][1])["l"])
        if not ec:
            continue
        E, pos = ec
        hb, ht = nxt[E]
        itp = op_place(ht["args"][0])
        arrs = [x for x in fld.sources(itp["l"], through_calls=("IntoIterator::into_iter", "slice::iter", "Deref::deref"), stop_at_agg=True)
                if x[0] == "rv" and x[2]["rv"]["k"] == "agg" and x[2]["rv"].get("kind") == "array"] if itp else []
        for x in arrs:
            for o in x[2]["rv"]["ops"]:
                tl = (op_place(o) or {}).get("l")
                ds = fld.defs.get(tl, [])
                if len(ds) != 1 or ds[0][1] == "term" or ds[0][2]["rv"]["k"] != "agg" or ds[0][2]["rv"].get("kind") != "tuple":
                    continue
                rops = [(op_place(o2) or {}).get("l") for o2 in ds[0][2]["rv"]["ops"]]
                if pos >= len(rops) or rops[pos] is None:
                    continue
                d2 = fld.defs.get(rops[pos], [])
                if len(d2) == 1 and d2[0][1] != "term" and d2[0][2]["rv"]["k"] == "agg" and (d2[0][2]["rv"].get("adt") or "").endswith("bytecode::ConcreteType") \
                        and not d2[0][2]["rv"]["ops"]:
                    v = d2[0][2]["rv"]["variant"]
                    table[v] = (ib, E, hb, rops)
                    inserts.setdefault(v, []).append(ib)
                    total += 1
    ctx.floor(R, "ConcreteType insert sites", total, len(cv))
    for v in cv:
        site = "%s|insert %s" % (b.key, v)
        guarded = None
        if v in table and not INDEX_SOURCE[v].startswith("call:"):
            ib, E, hb, rops = table[v]
            for cb, ct in compat_calls:
                a1 = fl.canon_op(ct["args"][1])
                a0 = op_place(ct["args"][0])
                ec = elem_column(a0["l"]) if a0 else None
                if not b.reaches(cb, ib) or not a1 or a1[0] != pat_param[0] or not ec or ec[0] != E:
                    continue
                r = ct["dest"]["l"]
                others = [x for x in compat_blocks if x != cb] + [hb]      # within one iteration
                t_ok = any(explore(b, [(s2, {r: 1})], want="target", targets=[ib], avoid=others) for s2 in b.succ[cb])
                f_bad = any(explore(b, [(s2, {r: 0})], want="target", targets=[ib], avoid=others + [cb]) for s2 in b.succ[cb])
                if t_ok and not f_bad:
                    col = rops[ec[1]] if ec[1] < len(rops) else None
                    fields = {f for o_, f in fld.slice_reads(col)[0] if (o_ or "").endswith("TypeIndex")} if col is not None else set()
                    guarded = (ib, cb, fields == {INDEX_SOURCE[v]})
            if guarded is None:
                ctx.violated(R, site, "ConcreteType::%s (a row of the primitives table) is not inserted under is_compatible(<the row's type id>, pattern_id)" % v, b.loc(ib))
            else:
                ctx.check(guarded[2], R, site, "the row pairs ConcreteType::%s with index.%s, and the tag is inserted iff is_compatible(<that id>, pattern_id)" % (v, INDEX_SOURCE[v]),
                          "the table row for ConcreteType::%s compares a type id that does not come from index.%s" % (v, INDEX_SOURCE[v]), b.loc(guarded[0]))
            continue
        for ib in inserts.get(v, []):
            for cb, ct in compat_calls:
                if not b.reaches(cb, ib):
                    continue
                a1 = fl.canon_op(ct["args"][1])
                if not a1 or a1[0] != pat_param[0]:
                    continue
                r = ct["dest"]["l"]
                others = [x for x in compat_blocks if x != cb]
                t_ok = any(explore(b, [(s, {r: 1})], want="target", targets=[ib], avoid=others) for s in b.succ[cb])
                f_bad = any(explore(b, [(s, {r: 0})], want="target", targets=[ib], avoid=others + [cb]) for s in b.succ[cb])
                if t_ok and not f_bad:
                    # value-side type id source
                    a0 = op_place(ct["args"][0])
                    back = fld.backward({a0["l"]}, through_calls=("Option::get", "HashMap::get", "slice::get", "Iterator::next", "IntoIterator::into_iter",
                                                                  "Iterator::enumerate", "slice::iter", "Deref::deref")) if a0 else set()
                    want = INDEX_SOURCE[v]
                    src_ok = False
                    if want.startswith("call:"):
                        src_ok = any(t2["dest"]["l"] in back for _b2, t2 in b.calls_to(want[5:]))
                    else:
                        for b2, si2, s2 in b.stmts():
                            if s2["k"] == "assign" and s2["p"]["l"] in back:
                                pl = s2["rv"].get("p") or op_place(s2["rv"].get("op")) if s2["rv"]["k"] in ("ref", "use", "discr") else None
                                if pl and any(e[0] == "f" and e[1] == want and (e[2] or "").endswith("TypeIndex") for e in pl["pr"]):
                                    src_ok = True
                        for b2, t2 in b.calls():
                            if t2["dest"]["l"] in back:
                                for a in t2["args"]:
                                    pl = op_place(a)
                                    if pl:
                                        c = fld.canon_place(pl)
                                        if any(e[0] == "f" and e[1] == want and (e[2] or "").endswith("TypeIndex") for e in c[1]):
                                            src_ok = True
                    guarded = (ib, cb, src_ok)
                    if src_ok:
                        break
            if guarded and guarded[2]:
                break
        if guarded is None:
            ctx.violated(R, site, "ConcreteType::%s is never inserted under is_compatible(<type id>, pattern_id): IsType rejects every %s value "
                                  "(or accepts unconditionally)" % (v, v), b.loc(0))
        else:
            ctx.check(guarded[2], R, site, "inserted iff is_compatible(index.%s .., pattern_id)" % INDEX_SOURCE[v],
                      "the type id compared for ConcreteType::%s does not come from %s" % (v, INDEX_SOURCE[v]), b.loc(guarded[0]))
    # every kind of value is CONSIDERED for every pattern: the scan that can insert a ConcreteType variant is reached on every path through the
    # function (an early-out by the pattern's outer shape — "functions only match callable patterns" — forgets unions that contain one)
    nexts_b = [bi for bi, t in b.calls() if (t.get("callee") or "").endswith("Iterator::next")]
    for v in cv:
        ibs = inserts.get(v, [])
        loops = []
        for ib in ibs:
            hs = [h for h in nexts_b if b.dominates(h, ib) and b.reaches(ib, h)]
            if hs:
                # innermost: the header dominated by all the others
                h0 = hs[0]
                for h in hs:
                    if b.dominates(h0, h):
                        h0 = h
                loops.append(h0)
        if not loops:
            continue      # not scan-based (Integer / Binary / Reference are decided by the index lookup; covered above)
        bad = explore(b, [0], avoid=loops, want="return")
        ctx.check(bad is None, R, "%s|scan %s" % (b.key, v), "the scan over candidate %s values runs for every pattern" % v,
                  "a path through compute_compatible_concrete_types skips the scan that inserts ConcreteType::%s (an early-out on the pattern's shape): a "
                  "union or variable pattern that admits such values gets an empty row for them — IsType and mailbox filtering reject them" % v, b.loc(loops[0]))
    # row p of the IsType table is compute_compatible_concrete_types(p, ..) itself — not assembled from parts: the relation is decided for the WHOLE
    # pattern type (a variant of a recursive union checked on its own loses the enclosing type on the cycle stack and accepts anything at `^`)
    tcb = F.body("quiver_core::compatibility::compute_type_compatibility")
    tfl = Flow(tcb, through_named=True)
    tfl0 = Flow(tcb)
    rows = 0
    for bi, t in tcb.calls():
        if not (t.get("callee") or "").endswith("IndexMut::index_mut") or len(t["args"]) < 2:
            continue
        if "HashSet<quiver_core::bytecode::ConcreteType" not in (tcb.local_ty(t["dest"]["l"]) or ""):
            continue
        idx = op_place(t["args"][1])
        ref_l = t["dest"]["l"]
        for b2, s2, st in tcb.stmts():
            if st["k"] == "assign" and st["p"]["l"] == ref_l and st["p"]["pr"] and st["p"]["pr"][0][0] == "*" and st["rv"]["k"] == "use":
                rows += 1
                vp = op_place(st["rv"]["op"])
                srcs = tfl.sources(vp["l"]) if vp else []
                CCT = "compatibility::compute_compatible_concrete_types"
                direct = bool(srcs) and all(x[0] == "call" and (x[2].get("callee") or "").endswith(CCT) for x in srcs)
                same = False
                ib = tfl.backward({idx["l"]}) if idx else set()
                if direct and idx:
                    same = all(op_place(x[2]["args"][0]) and (tfl.backward({op_place(x[2]["args"][0])["l"]}) & ib) for x in srcs)
                if not direct and srcs and idx and all(x[0] == "call" and (x[2].get("callee") or "").split("::")[-1] in ("call_mut", "call", "call_once") for x in srcs):
                    # memoised form (as compute_param_compatibility does): `compatible_for(p)` where the closure computes cct(<its argument>) once per id
                    okm = True
                    for x in srcs:
                        cp = tfl0.canon_op(x[2]["args"][0]) or tfl.canon_op(x[2]["args"][0])
                        ck = None
                        for _b5, _s5, st5 in tcb.stmts():
                            if cp and st5["k"] == "assign" and st5["p"]["l"] == cp[0] and st5["rv"].get("closure"):
                                ck = st5["rv"]["closure"]
                        argp = op_place(x[2]["args"][1]) if len(x[2]["args"]) > 1 else None
                        arg_ok = bool(argp) and bool(tfl.backward({argp["l"]}) & ib)
                        calls_cct = False
                        adaptors = False
                        if ck:
                            for k2 in [ck] + [k3 for k3 in F.fns if k3.startswith(ck + "::{closure")]:
                                for _b6, t6 in F.body(k2).calls():
                                    c6 = t6.get("callee") or ""
                                    if c6.endswith(CCT):
                                        calls_cct = True
                                    if c6.split("::")[-1] in ("flat_map", "collect", "extend", "union", "chain", "fold"):
                                        adaptors = True
                        okm = okm and bool(ck) and arg_ok and calls_cct and not adaptors
                    direct = same = okm
                ctx.check(direct and same, R, tcb.key + "|row=cct(row)", "type_compatibility[p] is the result of compute_compatible_concrete_types(p, ..) for the same p",
                          "a row of the IsType table is no longer compute_compatible_concrete_types(<that pattern id>) itself (sources: %s): assembling it from "
                          "parts decides the relation without the whole pattern type on the cycle stack" % sorted({(x[2].get("callee") or x[0]).split("::")[-1] if x[0] == "call" else x[0] for x in srcs}),
                          tcb.loc(b2, s2))
    if rows == 0:
        # collected form: `(0..types.len()).map(|p| if is_pattern(p) { cct(p, ..) } else { HashSet::new() }).collect()` — row p is what the closure
        # returns for p: every value it can return is cct(<its own argument>) or an empty set, and the range it is mapped over starts at 0
        CCT = "compatibility::compute_compatible_concrete_types"
        for ck in F.closures_of(tcb.key):
            cb = F.body(ck)
            ccalls = [(bi, t) for bi, t in cb.calls() if (t.get("callee") or "").endswith(CCT)]
            if not ccalls or "HashSet<quiver_core::bytecode::ConcreteType" not in (cb.local_ty(0) or ""):
                continue
            cfl = Flow(cb, through_named=True)
            srcs = cfl.sources(0)
            arg_locals = set(range(2, cb.mir["argc"] + 1))
            okc = bool(srcs)
            for x in srcs:
                if x[0] == "call" and (x[2].get("callee") or "").endswith(CCT):
                    a0 = op_place(x[2]["args"][0])
                    okc = okc and bool(a0) and bool(cfl.backward({a0["l"]}) & arg_locals)
                elif x[0] == "call" and (x[2].get("callee") or "").endswith(("HashSet::new", "Default::default")):
                    pass
                else:
                    okc = False
            # the closure is mapped over a range starting at 0 and the collected result is the table returned
            mapped = False
            for bi, si, st in tcb.stmts():
                if st["k"] == "assign" and st["rv"].get("closure") == ck:
                    cl = st["p"]["l"]
                    for b2, t2 in tcb.calls():
                        if (t2.get("callee") or "").endswith("Iterator::map") and len(t2["args"]) > 1 and (op_place(t2["args"][1]) or {}).get("l") == cl:
                            recv = op_place(t2["args"][0])
                            rs = tfl.sources(recv["l"], stop_at_agg=True) if recv else []
                            zero = bool(rs) and all(x[0] == "rv" and x[2]["rv"]["k"] == "agg" and (x[2]["rv"].get("adt") or "").endswith("range::Range") and
                                                    x[2]["rv"]["ops"] and x[2]["rv"]["ops"][0].get("c") == "const" and x[2]["rv"]["ops"][0].get("val") == 0 for x in rs)
                            to_ret = t2["dest"]["l"] in tfl.backward({0}, through_calls=("Iterator::collect", "FromIterator::from_iter"))
                            mapped = mapped or (zero and to_ret)
            rows += 1
            ctx.check(okc and mapped, R, tcb.key + "|row=cct(row)", "row p of the collected table is compute_compatible_concrete_types(p, ..) or the empty set, for p in 0..len",
                      "the collected IsType table is not `p -> compute_compatible_concrete_types(p)` over 0..len (closure sources %s, mapped over 0..: %s)"
                      % (sorted({(x[2].get("callee") or x[0]).split("::")[-1] if x[0] == "call" else x[0] for x in srcs}), mapped), cb.loc(0))
    ctx.floor(R, "IsType table row stores", rows, 1)
    # the runtime test consults the table with the value's concrete tag
    c = F.body(EXEC + "::check_type_compatible")
    flc = Flow(c)
    gc = c.calls_to("Executor::get_concrete_type")
    cont = c.calls_to("HashSet::contains")
    tbl = [bi for bi, t in c.calls() if t["args"] and (flc.canon_op(t["args"][0]) or (0, ()))[1] and flc.mentions_field(flc.canon_op(t["args"][0]), "executor::Executor", "type_compatibility")]
    ctx.check(len(gc) == 1 and bool(tbl), R, c.key + "|lookup", "check_type_compatible looks the value's concrete tag up in type_compatibility[pattern_type_id]",
              "check_type_compatible no longer consults type_compatibility with get_concrete_type(value)", c.loc(0))
    # both runtime tests (IsType and mailbox filtering) consult their table with the value's OWN concrete tag and nothing else: every `contains` key
    # derives from get_concrete_type(value), and no other ConcreteType is built there (a second lookup under the canonical SHAPE id makes a
    # receiver for one field typing accept tuples of another with the same labels)
    for key in (EXEC + "::check_type_compatible", EXEC + "::check_message_compatible"):
        made, lookups, bad_keys = [], 0, []
        for k in F.with_closures(key):
            kb = F.body(k)
            kfl = Flow(kb, through_named=True)
            made += [kb.loc(bi, si) for bi, si, _s in agg_sites(kb, "bytecode::ConcreteType")]
            for bi, t in kb.calls():
                if (t.get("callee") or "").endswith("HashSet::contains") and len(t["args"]) > 1 and op_place(t["args"][1]):
                    lookups += 1
                    srcs = kfl.sources(op_place(t["args"][1])["l"], through_calls=("Clone::clone", "Deref::deref"))
                    back = kfl.backward({op_place(t["args"][1])["l"]}, through_calls=("Clone::clone", "Deref::deref"))
                    for x in srcs:
                        if x[0] == "call" and (x[2].get("callee") or "").endswith("Executor::get_concrete_type"):
                            continue
                        if x[0] == "arg" and x[1] == 1 and "::{closure" in k:
                            # a captured variable: follow it to the operand captured where the closure is built
                            okc = False
                            for _b5, _s5, st5 in kb.stmts():
                                if st5["k"] == "assign" and st5["p"]["l"] in back:
                                    pl5 = st5["rv"].get("p") or (op_place(st5["rv"].get("op") or {}) if st5["rv"]["k"] in ("use", "cast") else None)
                                    cap = F.captured(k, pl5) if pl5 else None
                                    if cap and op_place(cap[1]):
                                        pfl = Flow(cap[0], through_named=True)
                                        ps = pfl.sources(op_place(cap[1])["l"], through_calls=("Clone::clone", "Deref::deref"))
                                        okc = bool(ps) and all(y[0] == "call" and (y[2].get("callee") or "").endswith("Executor::get_concrete_type") for y in ps)
                            if okc:
                                continue
                        bad_keys.append(kb.loc(bi))
        ctx.check(lookups >= 1 and not made and not bad_keys, R, key + "|own-tag-only", "the table is consulted with get_concrete_type(value) only (%d lookup(s))" % lookups,
                  "%s consults its table with a tag other than the value's own concrete tag (%s): values that do not inhabit the type are accepted" %
                  (key.split("::")[-1], "ConcreteType built at %s" % made[0] if made else "lookup key at %s is not get_concrete_type(value)" % (bad_keys[0] if bad_keys else "?")),
                  F.body(key).loc(0))
    # default for a missing IsType table entry is `false` (reject), for mailbox filtering `true` (documented permissive default)
    uo = [t for bi, t in c.calls_to("Option::unwrap_or")]
    ok = len(uo) == 1 and uo[0]["args"][1].get("val") == 0
    if not ok:
        # explicit form: `match table.get(row) { Some(set) => set.contains(..), None => <false> }` (possibly in a helper): with the lookup forced to
        # None every way out must assign the constant false (directly or through copies of a constant-false argument)
        falsy = set()
        for _ in range(4):
            for l, ds in c.defs().items():
                if l in falsy or not ds:
                    continue
                if all(d[1] != "term" and d[2]["rv"]["k"] == "use" and ((d[2]["rv"]["op"].get("c") == "const" and d[2]["rv"]["op"].get("val") == 0 and d[2]["rv"]["op"].get("ty") == "bool")
                                                                        or op_local(d[2]["rv"]["op"]) in falsy) for d in ds):
                    falsy.add(l)
        rets = {0} | {l["i"] for l in c.locals if l.get("inl_ret")}
        false_ret = set()
        for bi, si, st in c.stmts():
            if st["k"] == "assign" and st["p"]["l"] in rets and not st["p"]["pr"] and st["rv"]["k"] == "use":
                o = st["rv"]["op"]
                if (o.get("c") == "const" and o.get("val") == 0) or op_local(o) in falsy:
                    false_ret.add(bi)
        gets = [(bi, t) for bi, t in c.calls() if (t.get("callee") or "").split("::")[-1] == "get" and t["args"] and
                flc.mentions_field(flc.canon_op(t["args"][0]) or (0, ()), "executor::Executor", "type_compatibility")]
        if gets and false_ret:
            gb, gt = gets[0]
            bad = explore(c, [gb], avoid=false_ret, want="return", force={("d", gt["dest"]["l"]): 0}, flow=flc)
            ok = bad is None
    ctx.check(ok, R, c.key + "|default-false", "a pattern type without a table entry rejects (unwrap_or(false))",
              "IsType default for a missing entry is no longer `false`", c.loc(0))


def full_table_sources(ctx, R, body, fl, operand, what, site):
    """the operand (a slice/ref of a program table) must come from the full table: no Range indexing / to_vec on the way."""
    p = op_place(operand)
    if p is None:
        ctx.violated(R, site, "%s is a constant?" % what, body.loc(0))
        return
    back = Flow(body, through_named=True).backward({p["l"]}, through_calls=("Deref::deref", "Vec::as_slice", "Index::index", "slice::to_vec", "Vec::get", "slice::get", "Borrow::borrow"))
    bad = []
    srcs = []
    for bi, t in body.calls():
        if t["dest"]["l"] in back:
            c = t.get("callee") or ""
            if c.endswith("Index::index") or c.endswith("slice::to_vec") or c.endswith("::get") and "slice" in c:
                bad.append((bi, c))
            else:
                srcs.append(c.split("::")[-1])
    ctx.check(not bad, R, site, "%s is the full table (sources: %s)" % (what, sorted(set(srcs)) or "field borrow"),
              "%s is built from a slice/delta of the table (%s): compatibility tables would describe only part of the merged program" % (what, [c for _b, c in bad]),
              body.loc(bad[0][0]) if bad else body.loc(0))


def r2_tables_describe_whole_program(ctx):
    R = "R-C08-2"
    ctx.rule(R, "every ProgramUpdate literal takes type_compatibility / param compatibility / canonical_tuples from compute_type_compatibility / "
                "compute_param_compatibility / compute_canonical_tuples applied to the FULL program tables (no [old_len..] delta); "
                "merge_bytecode sends the update to every worker")
    F = ctx.facts
    sites = []
    for body in F.bodies():
        for bi, si, s in agg_sites(body, "executor::ProgramUpdate"):
            if "Clone" in body.key or "_serde" in body.key or body.fn.get("derived"):
                continue
            sites.append((body, bi, si, s))
    ctx.floor(R, "ProgramUpdate literals", len(sites), 2)
    want = {"type_compatibility": ("compute_type_compatibility",), "canonical_tuples": ("compute_canonical_tuples",),
            "function_param_compatibility": ("compute_param_compatibility",), "builtin_param_compatibility": ("compute_param_compatibility",)}
    for body, bi, si, s in sites:
        fl = Flow(body)
        fld = Flow(body, through_named=True)
        rv = s["rv"]
        for fname, op in zip(rv["fields"], rv["ops"]):
            if fname not in want:
                continue
            site = "%s|ProgramUpdate.%s" % (body.key, fname)
            p = op_place(op)
            srcs = fld.sources(p["l"]) if p else []
            calls = [x[2].get("callee", "") for x in srcs if x[0] == "call"]
            ok = bool(calls) and all(any(c.endswith(w) for w in want[fname]) or c.endswith("Vec::new") for c in calls)
            has_compute = any(any(c.endswith(w) for w in want[fname]) for c in calls)
            if any(c.endswith("Vec::new") for c in calls):
                # documented compile-time path: empty tables only under param_compat == false
                pc = [l["i"] for l in body.params() if l["ty"] == "bool"]
                ok = ok and bool(pc) and fname.endswith("param_compatibility")
            ctx.check(ok and has_compute, R, site, "%s <- %s" % (fname, sorted({c.split('::')[-1] for c in calls})),
                      "%s is not the result of %s (sources: %s): stale or partial runtime type tables" % (fname, want[fname], calls), body.loc(bi, si))
        # CompatibilityInput built from full tables
        for b2, s2i, s2 in agg_sites(body, "compatibility::CompatibilityInput"):
            for fname, op in zip(s2["rv"]["fields"], s2["rv"]["ops"]):
                full_table_sources(ctx, R, body, fl, op, "CompatibilityInput.%s" % fname, "%s|CompatibilityInput.%s" % (body.key, fname))
        for b2, t2 in body.calls_to("compatibility::compute_canonical_tuples"):
            full_table_sources(ctx, R, body, fl, t2["args"][0], "compute_canonical_tuples argument", "%s|canonical_tuples-arg" % body.key)
        # the compute_* calls take the CompatibilityInput constructed here
        for name in ("compute_type_compatibility", "compute_param_compatibility"):
            for b2, t2 in body.calls_to("compatibility::" + name):
                c = fl.canon_op(t2["args"][0])
                ok = c is not None and "CompatibilityInput" in (body.local_ty(c[0]) or "")
                ctx.check(ok, R, "%s|%s-arg" % (body.key, name), "%s takes the locally built CompatibilityInput" % name,
                          "%s is not applied to the locally built CompatibilityInput" % name, body.loc(b2))
    # the compute_* functions are pure functions of their input: no `&mut` parameter (a memo carried across program updates goes stale)
    for name in ("compute_type_compatibility", "compute_param_compatibility", "compute_canonical_tuples", "compute_compatible_concrete_types"):
        key = "quiver_core::compatibility::" + name
        cb = F.body(key)
        muts = [l["name"] or "_%d" % l["i"] for l in cb.locals if 0 < l["i"] <= cb.mir["argc"] and l["ty"].startswith("&mut")]
        ctx.check(not muts, R, key + "|pure", "no mutable state flows in: the table is a function of the program alone",
                  "%s takes mutable state (%s): results memoised across program updates describe an older program" % (name, muts), cb.loc(0))
    # merge_bytecode: update sent to all workers (loop over self.workers)
    mb = F.body("quiver_environment::environment::Environment::merge_bytecode")
    fl = Flow(mb)
    sends = []
    for bi, si, s in agg_sites(mb, "messages::Command", "UpdateProgram"):
        fw = fl.forward({s["p"]["l"]}, through_calls=("Clone::clone",))
        for cb, ct in mb.calls():
            if (ct.get("callee") or "").endswith("::send") and any((op_place(a) or {}).get("l") in fw for a in ct["args"]):
                sends.append(cb)
    in_loop = [sb for sb in sends if mb.reaches(mb.succ[sb][0], sb)]
    ctx.check(bool(in_loop), R, mb.key + "|broadcast", "Command::UpdateProgram is sent inside the loop over self.workers",
              "the program update is not broadcast to every worker", mb.loc(0))
    # update is constructed whenever any table grew: the guard consists only of is_empty() tests of the five deltas
    upd = [bi for bi, si, s in agg_sites(mb, "executor::ProgramUpdate")]
    if upd:
        empties = [(bi, t) for bi, t in mb.calls_to("Vec::is_empty")]
        ctx.floor(R, "delta is_empty tests in merge_bytecode", len(empties), 5)
        # if any delta is non-empty (is_empty == false), the update block is reached (on non-error paths)
        from qvlib.paths import diverging_blocks, err_blocks
        errb = err_blocks(mb) | diverging_blocks(mb)
        for bi, t in empties:
            r = t["dest"]["l"]
            c = Flow(mb, through_named=True).canon_op(t["args"][0])
            nm = mb.local_name(c[0]) if c else "?"
            bad = None
            for s in mb.succ[bi]:
                bad = bad or explore(mb, [(s, {r: 0})], avoid=upd, stop=errb, want="return")
            ctx.check(bad is None, R, "%s|grew(%s)=>update" % (mb.key, nm), "a non-empty %s delta always leads to a ProgramUpdate" % nm,
                      "tables can grow (%s) without a ProgramUpdate being built: %s" % (nm, path_desc(mb, bad)), mb.loc(bi))


def r3_update_program_replaces(ctx):
    R = "R-C08-3"
    ctx.rule(R, "Executor::update_program assigns (replaces) resources, canonical_tuples, type_compatibility, function_param_compatibility and "
                "builtin_param_compatibility from the update and extends the append-only tables; Worker forwards UpdateProgram to it")
    F = ctx.facts
    b = F.body(EXEC + "::update_program")
    fl0 = Flow(b)
    fln_ = Flow(b, through_named=True)
    assigned = {}
    for bi, si, s in b.stmts():
        if s["k"] != "assign":
            continue
        fs = [e for e in s["p"]["pr"] if e[0] == "f"]
        if fs and (fs[-1][2] or "").endswith("executor::Executor") and s["rv"]["k"] == "use":
            # the source may be `update.f` itself or a named temporary the update was destructured into
            for src in (fl0.canon_op(s["rv"]["op"]), fln_.canon_op(s["rv"]["op"])):
                if src:
                    sf = [e for e in src[1] if e[0] == "f"]
                    if sf and (sf[-1][2] or "").endswith("executor::ProgramUpdate"):
                        assigned[fs[-1][1]] = sf[-1][1]
                        break
    for f in ("resources", "canonical_tuples", "type_compatibility", "function_param_compatibility", "builtin_param_compatibility"):
        ctx.check(assigned.get(f) == f, R, "%s|%s" % (b.key, f), "self.%s = update.%s (replaced wholesale)" % (f, f),
                  "self.%s is not replaced by update.%s (got %s): the executor keeps a table describing an older program" % (f, f, assigned.get(f)), b.loc(0))
    fl = Flow(b)
    ext = {}
    for bi, t in b.calls():
        c = (t.get("callee") or "")
        if c.split("::")[-1] in ("extend", "push") and t["args"]:
            cp = fl.canon_op(t["args"][0])
            if cp:
                fs = [e for e in cp[1] if e[0] == "f"]
                if fs and (fs[-1][2] or "").endswith("executor::Executor"):
                    ext[fs[-1][1]] = c.split("::")[-1]
    for f in ("constants", "functions", "tuples", "builtins", "builtin_impls"):
        ctx.check(f in ext, R, "%s|%s" % (b.key, f), "self.%s is appended to (%s)" % (f, ext.get(f)),
                  "self.%s is no longer appended to in update_program" % f, b.loc(0))
    callers = sorted({k for k, _ in F.callers_of(b.key)})
    # the worker's command handler forwards UpdateProgram (through its own update_program helper, or — helper inlined by hand — directly)
    wside = "quiver_environment::worker::Worker::update_program" in callers or (
        "quiver_environment::worker::Worker::update_program" not in F.fns and "quiver_environment::worker::Worker::handle_command" in callers)
    ctx.check(wside and "quiver_core::execute::execute_bytecode_sync_with" in callers, R,
              "callers(update_program)", "update_program is reached from the worker command handler and the sync executor", "callers: %s" % callers)


def r4_remap_feeds_tables(ctx):
    """the tables are computed over ids that merge_bytecode remapped: remap tables fresh per merge and fed only by register_*/import_* (shared with C07/C10)"""
    from rules import c07
    c07.r5_remap_order_and_freshness(ctx, "R-C08-4")
    c07.r2_index_fields(ctx, "R-C08-5")


def r6_process_tag_function(ctx):
    """the function id a process handle is tagged with (and classified by in IsType / mailbox filtering) is the process's ENTRY function — shared
    with R-C13-4"""
    from rules import c13
    before = len(ctx.obs)
    c13.r4_process_handle_identity(ctx)
    for o in ctx.obs[before:]:
        o["rule"] = "R-C08-6"
    if "R-C13-4" in ctx.rules:
        ctx.rules["R-C08-6"] = ctx.rules.pop("R-C13-4")
    for f in ctx.floors:
        if f["rule"] == "R-C13-4":
            f["rule"] = "R-C08-6"


def r7_resource_ids_stable(ctx):
    R = "R-C08-7"
    ctx.rule(R, "the resource type id stamped into a live handle (and looked up in the IsType tables) is the position of the type's name in "
                "Program::collect_resource_names, and the tables are recomputed from that list at every merge: the list must be in order of FIRST "
                "APPEARANCE in the append-only type registry, so that growing the program only appends names — no sorting, reversing or iteration "
                "over a set/map (whose order changes when a name is added) on the way to the result")
    F = ctx.facts
    key = "quiver_core::program::Program::collect_resource_names"
    BAD = ("sort", "sort_by", "sort_by_key", "sort_unstable", "sort_unstable_by", "sort_unstable_by_key", "sort_by_cached_key", "reverse", "rev", "swap", "rotate_left",
           "rotate_right", "swap_remove", "insert", "select_nth_unstable")
    ITER = ("iter", "into_iter", "drain", "keys", "values", "into_keys", "into_values", "iter_mut", "difference", "union", "intersection", "pop_first", "pop_last",
            "first", "last")
    reads_types = 0
    bad = []
    for k in F.with_closures(key):
        body = F.body(k)
        for bi, si, st in body.stmts():
            if st["k"] == "assign":
                pl = st["rv"].get("p") or (op_place(st["rv"].get("op") or {}) if st["rv"]["k"] in ("use", "cast") else None)
                if pl and any(e[0] == "f" and e[1] == "types" and (e[2] or "").endswith("program::Program") for e in pl["pr"]):
                    reads_types += 1
        for bi, t in body.calls():
            c = t.get("callee") or ""
            m = c.split("::")[-1]
            recv_ty = ""
            if t["args"] and op_place(t["args"][0]):
                recv_ty = body.local_ty(op_place(t["args"][0])["l"]) or ""
            unordered = any(x in recv_ty for x in ("BTreeSet", "BTreeMap", "HashSet", "HashMap", "BinaryHeap")) or any(x in c for x in ("BTreeSet", "BTreeMap", "BinaryHeap"))
            is_vec_insert = m == "insert" and ("Vec<" in recv_ty and "Hash" not in recv_ty and "BTree" not in recv_ty)
            if (m in BAD and m != "insert" and ("Vec" in recv_ty or "slice" in c or "Iterator" in c or "[" in recv_ty)) or is_vec_insert:
                bad.append((m, body.loc(bi)))
            elif unordered and (m in ITER or (resolved_into_iter(t) and m == "into_iter")):
                bad.append(("%s over %s" % (m, recv_ty.split("<")[0].split("::")[-1]), body.loc(bi)))
            elif any(x in c for x in ("BTreeSet", "BTreeMap")) and m in ("from_iter", "collect"):
                bad.append((m + " into an ordered set", body.loc(bi)))
            elif m == "collect" and any(x in (body.local_ty(t["dest"]["l"]) or "") for x in ("BTreeSet", "BTreeMap", "HashSet<", "HashMap<")) and \
                    "alloc::string::String" in (body.local_ty(t["dest"]["l"]) or ""):
                bad.append(("collect into %s" % (body.local_ty(t["dest"]["l"]) or "").split("<")[0].split("::")[-1], body.loc(bi)))
    ctx.floor(R, "reads of Program.types in collect_resource_names", reads_types, 1)
    ctx.check(not bad, R, key + "|first-appearance-order", "names are listed in the iteration order of the type registry (append-only)",
              "collect_resource_names reorders the names (%s): a merge that introduces a new resource type renumbers the ids that live handles already "
              "carry — an old handle is then classified as another resource type by IsType and by receive filtering" % ", ".join("%s at %s" % x for x in bad[:4]),
              bad[0][1] if bad else F.body(key).loc(0))


def resolved_into_iter(t):
    return (t.get("callee") or "").endswith("IntoIterator::into_iter")


def r8_check_elision(ctx):
    """a type pattern's runtime IsType may be omitted only when the value's static type is compatible with (contained in) the pattern's type — shared
    with R-C09-5 / R-C01-4"""
    from rules import c09
    before = len(ctx.obs)
    c09.r5_unions_and_check_elision(ctx)
    kept = []
    for o in ctx.obs[before:]:
        if "elision" in o["site"] or "type_check_requirements" in o["site"]:
            o = dict(o)
            o["rule"] = "R-C08-8"
            kept.append(o)
    ctx.obs[before:] = kept
    if "R-C09-5" in ctx.rules:
        ctx.rules["R-C08-8"] = ctx.rules.pop("R-C09-5")
    for f in ctx.floors:
        if f["rule"] == "R-C09-5":
            f["rule"] = "R-C08-8"


def run(ctx):
    ctx.run_rules([r1_concrete_tags, r2_tables_describe_whole_program, r3_update_program_replaces, r4_remap_feeds_tables, r6_process_tag_function,
                   r7_resource_ids_stable, r8_check_elision])
    ctx.note("check_message_compatible's permissive default (unwrap_or(true)) applies only when a parameter table has no entry; recorded as an assumption")
    return (
        "Decides table-construction clauses: every runtime value kind has exactly its concrete tag; the table builder inserts each tag under "
        "is_compatible(<the tag's own type id>, pattern_id) and not otherwise; every ProgramUpdate carries tables computed by the compute_* "
        "functions from the FULL merged program; update_program replaces the derived tables. Soundness of is_compatible itself is C09; "
        "remapping is C07/C10. Does NOT evaluate any type test.",
        "obligations are enum variants, constructor sites and struct-literal fields of the resolved workspace; discharged by HIR pattern "
        "matrices, MIR value-source slices and guarded-reachability",
    )
