"""C05 — select follows its documented semantics (structural clauses)."""
from qvlib import hir
from qvlib.extract import CheckError
from qvlib.facts import op_local, op_place
from qvlib.paths import Flow, call_matches, diverging_blocks, err_blocks, explore, path_desc

CRATES = None
OPTIONAL_FNS = ("Worker::notify_result", "Worker::deliver_message", "Worker::update_program")      # private Worker helpers that may be inlined into their only caller
EXEC = "quiver_core::executor::Executor"
RUNTIME = ("quiver_core", "quiver_environment", "quiv", "quiver_cli", "quiver_io", "quiver_web", "quiver_lsp")

REMOVERS = ("remove", "clear", "pop_front", "pop_back", "retain", "retain_mut", "drain", "truncate", "swap_remove_back", "swap_remove_front", "split_off", "take")


def mailbox_ops(F):
    out = []
    for body in F.bodies():
        if body.fn["crate"] not in RUNTIME:
            continue
        fl = Flow(body)
        for bi, t in body.calls():
            if not t["args"] or not t["args"][0].get("p"):
                continue
            cp = fl.canon_op(t["args"][0])
            if cp and fl.ends_with_field(cp, "process::Process", "mailbox"):
                out.append((body, fl, bi, t, (t.get("callee") or "?").split("::")[-1]))
    return out


def r1_untaken_messages_stay(ctx):
    R = "R-C05-1"
    ctx.rule(R, "untaken messages stay, in order: the only removals from a mailbox are VecDeque::remove(idx) in handle_receive_result (only on a "
                "non-nil verdict) and scan_mailbox_for_message (only for a type-compatible message of a type-only receiver); the removed index is "
                "the index of the examined / held message")
    F = ctx.facts
    ops = mailbox_ops(F)
    rem = [(b, fl, bi, t, m) for b, fl, bi, t, m in ops if m in REMOVERS and (b.local_ty(t["args"][0]["p"]["l"]).startswith("&mut"))]
    ctx.floor(R, "mailbox removal sites", len(rem), 2)
    allowed = {EXEC + "::handle_receive_result", EXEC + "::scan_mailbox_for_message"}
    for b, fl, bi, t, m in rem:
        site = "%s|mailbox.%s" % (b.key, m)
        if m != "remove" or b.key not in allowed:
            ctx.violated(R, site, "mailbox messages removed by %s in %s: untaken messages can be lost or reordered" % (m, b.key.split("::")[-1]), b.loc(bi))
            continue
        if b.key.endswith("handle_receive_result"):
            nil = [(b2, t2) for b2, t2 in b.calls_to("Value::is_nil")]
            ok = False
            for b2, t2 in nil:
                r = t2["dest"]["l"]
                if b.dominates(b2, bi) and all(explore(b, [(x, {r: 1})], want="target", targets=[bi], avoid=[b2]) is None for x in b.succ[b2]):
                    ok = True
            ctx.check(ok, R, site, "the message is removed only when the filter's verdict is non-nil",
                      "the mailbox removal is reachable on a nil verdict (a rejected message would be dropped)", b.loc(bi))
            # index = cursors[receive_idx]
            fln = Flow(b, through_named=True)
            idx = op_place(t["args"][1])
            fields = fln.slice_reads(idx["l"], through_calls=("Option::copied", "Option::unwrap_or", "slice::get", "Vec::get", "Deref::deref"))[0] if idx else set()
            ctx.check(any(f == "cursors" for _o, f in fields), R, site + "|index", "the removed index is select_state.cursors[receive_idx] (where the held message was found)",
                      "the removed index no longer comes from the receive source's cursor", b.loc(bi))
        else:
            cmc = [(b2, t2) for b2, t2 in b.calls_to("Executor::check_message_compatible")]
            nexts = [b2 for b2, t2 in b.calls() if call_matches(t2, ("Iterator::next",))]
            ok = False
            for b2, t2 in cmc:
                r = t2["dest"]["l"]
                if b.dominates(b2, bi) and all(explore(b, [(x, {r: 0})], want="target", targets=[bi], avoid=[b2] + nexts) is None for x in b.succ[b2]):
                    ok = True
            ctx.check(ok, R, site, "a message is removed only after check_message_compatible accepted it (same loop iteration)",
                      "a type-incompatible message can be removed from the mailbox", b.loc(bi))
            # only for a type-only receiver: unreachable when the call_receive_function branch is taken
            crf = [b2 for b2, _t in b.calls_to("Executor::call_receive_function")]
            ok2 = bool(crf) and all(not b.reaches(c, bi, removed=nexts) for c in crf)
            ctx.check(ok2, R, site + "|type-only", "removal and filter call are exclusive branches (a filtered message is removed only after its verdict)",
                      "a message handed to a filter can also be removed before the verdict", b.loc(bi))
            # removed index and examined message come from the same enumerate item
            fln = Flow(b, through_named=True)
            idx = op_place(t["args"][1])
            thr = ("Iterator::next", "Iterator::enumerate", "Iterator::skip", "IntoIterator::into_iter", "VecDeque::iter")
            idx_src = {x[1] for x in fln.sources(idx["l"], through_calls=()) if x[0] == "call"} if idx else set()
            msg_src = set()
            for b2, t2 in cmc:
                mp = op_place(t2["args"][1])
                if mp:
                    msg_src |= {x[1] for x in fln.sources(mp["l"], through_calls=()) if x[0] == "call"}
            ok3 = bool(idx_src & msg_src) and all((b.blocks[x]["term"].get("callee") or "").endswith("Iterator::next") for x in idx_src & msg_src)
            ctx.check(ok3, R, site + "|index", "the removed index and the checked message come from the same enumerate() item",
                      "the removed index is not the index of the message that was checked", b.loc(bi))
    # call_receive_function records the cursor of the message it holds
    c = F.body(EXEC + "::call_receive_function")
    fl = Flow(c)
    fln = Flow(c, through_named=True)
    stores = []
    for bi, t in c.calls():
        if call_matches(t, ("IndexMut::index_mut",)) and t["args"]:
            cp = fl.canon_op(t["args"][0])
            if cp and fl.mentions_field(cp, "process::SelectState", "cursors"):
                d = t["dest"]["l"]
                for b2, si, s in c.stmts():
                    if s["k"] == "assign" and s["p"]["l"] == d and s["p"]["pr"] and s["rv"]["k"] == "use":
                        v = op_place(s["rv"]["op"])
                        srcs = fln.sources(v["l"]) if v else []
                        key = op_place(t["args"][1])
                        ksrc = fln.sources(key["l"]) if key else []
                        stores.append((bi, [x[1] for x in srcs if x[0] == "arg"], [x[1] for x in ksrc if x[0] == "arg"]))
    # name-free: the KEY parameter is the one that also labels the held message (first component of the tuple stored into `receiving`); the VALUE
    # parameter is another integer parameter that is neither that one nor the process id (the key of the process-table lookups)
    label_params = set()
    for b2, si, s in c.stmts():
        if s["k"] == "assign" and s["rv"]["k"] == "agg" and s["rv"].get("kind") == "tuple" and len(s["rv"]["ops"]) == 2:
            o0, o1 = op_place(s["rv"]["ops"][0]), op_place(s["rv"]["ops"][1])
            if o0 and o1 and "value::Value" in (c.local_ty(o1["l"]) or ""):
                label_params |= {x[1] for x in fln.sources(o0["l"]) if x[0] == "arg"}
    pid_params = set()
    for b2, t2 in c.calls():
        if (t2.get("callee") or "").split("::")[-1] in ("remove", "get_mut", "get", "insert", "get_process_mut", "get_process") and len(t2["args"]) > 1 and op_place(t2["args"][1]):
            cp2 = fl.canon_op(t2["args"][0])
            if (t2.get("callee") or "").split("::")[-1].startswith("get_process") or (cp2 and fl.mentions_field(cp2, "executor::Executor", "processes")):
                pid_params |= {x[1] for x in fln.sources(op_place(t2["args"][1])["l"]) if x[0] == "arg"}
    ok = any(len(v) == 1 and len(k) == 1 and k[0] in label_params and v[0] != k[0] and v[0] not in pid_params for _b, v, k in stores)
    ctx.check(ok, R, c.key + "|cursor-store", "call_receive_function stores cursors[receive_idx] = msg_idx together with the held message",
              "call_receive_function no longer records the index of the message it hands to the filter (the accept path would remove another message): %s" % stores,
              c.loc(0))
    # scan passes the enumerate index + that message to call_receive_function
    s = F.body(EXEC + "::scan_mailbox_for_message")
    fls = Flow(s, through_named=True)
    for bi, t in s.calls_to("Executor::call_receive_function"):
        a_idx = op_place(t["args"][3])
        a_msg = op_place(t["args"][4])
        i_src = {x[1] for x in fls.sources(a_idx["l"], through_calls=()) if x[0] == "call"} if a_idx else set()
        m_src = {x[1] for x in fls.sources(a_msg["l"], through_calls=("Clone::clone",)) if x[0] == "call"} if a_msg else set()
        ctx.check(bool(i_src & m_src), R, s.key + "|call-args", "the index and the message passed to the filter come from the same mailbox item",
                  "call_receive_function receives an index that does not belong to the message", s.loc(bi))


def param_only_flows_to(ctx, R, key, param, allowed_callees, site, why_ok, why_bad):
    F = ctx.facts
    b = F.body(key)
    fl = Flow(b)
    # the verdict parameter is the one of type Option<Value> / Option<&Value>
    pl = [l["i"] for l in b.params() if l["ty"] in ("core::option::Option<quiver_core::value::Value>", "core::option::Option<&quiver_core::value::Value>")]
    if not pl:
        raise CheckError("%s: verdict parameter (Option<Value>) not found in %s" % (R, key))
    fw = fl.forward({pl[0]}, through_calls=("Option::ok_or", "Try::branch", "Option::as_ref", "Option::is_none", "Option::is_some"))
    bad = []
    for bi, t in b.calls():
        if call_matches(t, ("Option::ok_or", "Try::branch", "Option::as_ref", "FromResidual::from_residual", "Option::is_none", "Option::is_some")):
            continue
        for a in t["args"]:
            p = op_place(a)
            if p and p["l"] in fw:
                c = (t.get("callee") or "?")
                if not any(c.endswith(x) for x in allowed_callees):
                    bad.append((bi, c))
    # not part of a constructed value
    for bi, si, s in b.stmts():
        if s["k"] == "assign" and s["rv"]["k"] == "agg" and s["rv"].get("variant") in ("Some", "Ok", "Complete"):
            for o in s["rv"]["ops"]:
                p = op_place(o)
                if p and p["l"] in fw and "value::Value" in b.local_ty(p["l"]):
                    bad.append((bi, "constructed into %s" % s["rv"]["variant"]))
    ctx.check(not bad, R, site, why_ok, "%s (%s)" % (why_bad, sorted({c for _b, c in bad})), b.loc(bad[0][0]) if bad else b.loc(0))


def r2_verdict_only(ctx):
    R = "R-C05-2"
    ctx.rule(R, "a filter's result is only a verdict: the popped verdict flows handle_select_continuation -> handle_select -> process_select_sources "
                "-> handle_select_receive -> handle_receive_result, where it reaches only Value::is_nil; the select completes with the held message")
    param_only_flows_to(ctx, R, EXEC + "::handle_receive_result", "receive_result", ("Value::is_nil",), EXEC + "::handle_receive_result|verdict",
                        "the filter result is consumed only by is_nil()", "the filter result flows into something other than the nil test")
    param_only_flows_to(ctx, R, EXEC + "::handle_select_receive", "receive_result", ("Executor::handle_receive_result",), EXEC + "::handle_select_receive|verdict",
                        "the verdict is only forwarded to handle_receive_result", "the verdict is used elsewhere in handle_select_receive")
    param_only_flows_to(ctx, R, EXEC + "::process_select_sources", "receive_result", ("Executor::handle_select_receive",), EXEC + "::process_select_sources|verdict",
                        "the verdict is only forwarded to handle_select_receive", "the verdict is used elsewhere in process_select_sources")
    F = ctx.facts
    h = F.body(EXEC + "::handle_receive_result")
    fl = Flow(h, through_named=True)
    # the Ok(Some(x)) on the accept path is the held message
    oks = [(bi, si, s) for bi, si, s in h.stmts() if s["k"] == "assign" and s["rv"]["k"] == "agg" and s["rv"].get("variant") == "Some" and s["rv"]["ops"]
           and op_place(s["rv"]["ops"][0]) and "value::Value" in h.local_ty(op_place(s["rv"]["ops"][0])["l"])]
    msg = [l["i"] for l in h.params() if l["ty"] == "&quiver_core::value::Value"]
    good = bool(oks) and bool(msg)
    for bi, si, s in oks:
        src = fl.backward({op_place(s["rv"]["ops"][0])["l"]}, through_calls=("Clone::clone",))
        if msg and msg[0] not in src:
            good = False
    ctx.check(good, R, h.key + "|yields-message", "the accept path yields a clone of the held message", "the accept path yields something other than the held message", h.loc(0))
    # handle_select_receive hands handle_receive_result the message held in `receiving`
    r = F.body(EXEC + "::handle_select_receive")
    flr = Flow(r, through_named=True)
    for bi, t in r.calls_to("Executor::handle_receive_result"):
        a = op_place(t["args"][3])
        fields = flr.slice_reads(a["l"])[0] if a else set()
        ctx.check(any(f == "receiving" for _o, f in fields), R, r.key + "|held-message", "the message passed on is the one held in select_state.receiving",
                  "handle_receive_result no longer receives the message held in `receiving`", r.loc(bi))
    # continuation: verdict flows to release and the return value only
    c = F.body(EXEC + "::handle_select_continuation")
    flc = Flow(c)
    pops = [(bi, t) for bi, t in c.calls_to("Vec::pop")]
    ctx.floor(R, "verdict pop in handle_select_continuation", len(pops), 1)
    for bi, t in pops:
        fw = flc.forward({t["dest"]["l"]}, through_calls=("Option::ok_or", "Try::branch"))
        users = set()
        for b2, t2 in c.calls():
            if call_matches(t2, ("Option::ok_or", "Try::branch", "FromResidual::from_residual")):
                continue
            if any((op_place(a) or {}).get("l") in fw for a in t2["args"]):
                users.add((t2.get("callee") or "?").split("::")[-1])
        ctx.check(users <= {"release"}, R, c.key + "|verdict-uses", "the popped verdict is only released and returned", "the popped verdict is also used by %s" % sorted(users), c.loc(bi))


def r3_error_propagation(ctx):
    R = "R-C05-3"
    ctx.rule(R, "a failed awaited process propagates ITS error: the Err stored into an awaiter's result in Executor::step and "
                "Worker::notify_result derives from the awaited process's own result (no fresh error is constructed)")
    F = ctx.facts
    wnr = "quiver_environment::worker::Worker::notify_result"
    if wnr not in F.fns:
        wnr = "quiver_environment::worker::Worker::update_await_results"      # the private helper inlined by hand into its only caller
    for key, via in ((EXEC + "::step", "result"), (wnr, "result")):
        b = F.body(key)
        fl = Flow(b, through_named=True)
        n = 0
        for bi, si, s in b.stmts():
            if s["k"] != "assign":
                continue
            fs = [e for e in s["p"]["pr"] if e[0] == "f"]
            if not fs or fs[-1][1] != "result" or not (fs[-1][2] or "").endswith("process::Process"):
                continue
            # only writes to a process other than the running one: the assigned object comes from get_process_mut(awaiter)
            root = fl.canon_place(s["p"])[0]
            objsrc = fl.sources(root, through_calls=("Option::unwrap", "Try::branch", "Option::ok_or"))
            via_lookup = any(x[0] == "call" and (x[2].get("callee") or "").endswith("get_process_mut") for x in objsrc)
            if key.endswith("step") and not via_lookup:
                continue
            if key.endswith("step"):
                # skip the running process's own result writes (object = current process lookups by current_pid)
                args = [x[2]["args"][1] for x in objsrc if x[0] == "call" and (x[2].get("callee") or "").endswith("get_process_mut")]
                # by provenance, not by name: the id popped from the run queue at the top of the step
                popped = {t2["dest"]["l"] for _b2, t2 in b.calls() if (t2.get("callee") or "").endswith("VecDeque::pop_front")}
                if any(op_place(a) and (fl.backward({op_place(a)["l"]}, through_calls=("Option::unwrap", "Try::branch", "Option::expect", "Option::ok_or", "Option::ok_or_else")) & popped)
                       for a in args):
                    continue
            v = op_place(s["rv"].get("op")) if s["rv"]["k"] == "use" else None
            if v is None:
                continue
            fields, downs, consts, callees = fl.slice_reads(v["l"], through_calls=("Clone::clone",))
            fresh = [x for x in fl.sources(v["l"], through_calls=("Clone::clone",), stop_at_agg=True)
                     if x[0] == "rv" and x[2]["rv"]["k"] == "agg" and (x[2]["rv"].get("adt") or "").endswith("error::Error")]
            n += 1
            ok = "Err" in downs and not fresh
            ctx.check(ok, R, "%s|awaiter.result=Err" % key, "the stored error is the Err payload of the awaited process's result (cloned), not a new error",
                      "the awaiter is failed with an error that is not the awaited process's own error", b.loc(bi, si))
        if n == 0:
            ctx.violated(R, "%s|awaiter.result=Err|missing" % key, "%s no longer fails an awaiter with the awaited process's error: a process awaiting a failed "
                         "process never learns of the failure" % key.split("::")[-1], b.loc(0))


def r4_latest_answer_replaces(ctx):
    R = "R-C05-4"
    ctx.rule(R, "PendingAwait.responses is written only by HashMap::insert(worker_id, results) in handle_process_results: a worker's later answer "
                "replaces its earlier one (an or_insert/entry-style first-answer-wins would lose a completion)")
    F = ctx.facts
    n = 0
    for body in F.bodies(crate="quiver_environment"):
        fl = Flow(body)
        for bi, t in body.calls():
            if not t["args"] or not t["args"][0].get("p") or not body.local_ty(t["args"][0]["p"]["l"]).startswith("&mut"):
                continue
            cp = fl.canon_op(t["args"][0])
            if cp and fl.ends_with_field(cp, "environment::PendingAwait", "responses"):
                m = (t.get("callee") or "?").split("::")[-1]
                n += 1
                site = "%s|responses.%s" % (body.key, m)
                if m != "insert" or not body.key.endswith("Environment::handle_process_results"):
                    ctx.violated(R, site, "PendingAwait.responses mutated by %s: the latest answer of a worker must replace the earlier one" % m, body.loc(bi))
                    continue
                fln = Flow(body, through_named=True)
                vsrc = fln.backward({op_place(t["args"][2])["l"]}, through_calls=("Clone::clone",))
                res = [l["i"] for l in body.params() if "HashMap<usize, core::option::Option<core::result::Result" in l["ty"]]
                ctx.check(bool(res) and res[0] in vsrc, R, site, "responses.insert(worker_id, results.clone()) — overwrite semantics, value = this answer",
                          "the stored answer is not the answer just received", body.loc(bi))
    if n == 0:
        # the bookkeeping was restructured: nothing to compare here; R-C05-4b (an answer is never dropped) still decides the clause
        ctx.note("R-C05-4: no PendingAwait.responses field writes found (bookkeeping restructured); deferring to R-C05-4b")


def r4b_answers_not_dropped(ctx):
    R = "R-C05-4b"
    ctx.rule(R, "an await answer is never dropped: on every non-error path through Environment::handle_process_results the received results are "
                "stored into the pending await or forwarded in Command::UpdateAwaitResults (the only exempt path: the sending worker cannot be "
                "determined because the result map is empty)")
    from qvlib.paths import agg_sites, consumer_calls, diverging_blocks, err_blocks, option_none_edges
    F = ctx.facts
    b = F.body("quiver_environment::environment::Environment::handle_process_results")
    fl = Flow(b)
    res = [l["i"] for l in b.params() if "HashMap<usize, core::option::Option<core::result::Result" in l["ty"]]
    if not res:
        raise CheckError("R-C05-4b: the results-map parameter was not found")
    fw = fl.forward({res[0]}, through_calls=("Clone::clone", "IntoIterator::into_iter", "Iterator::next", "Iterator::map", "Iterator::collect", "HashMap::iter", "HashMap::into_iter"))
    consume = []
    for bi, t in b.calls():
        c = (t.get("callee") or "")
        m = c.split("::")[-1]
        if m in ("insert", "extend", "push", "entry") and len(t["args"]) >= 2 and any((op_place(a) or {}).get("l") in fw for a in t["args"][1:]):
            cp = fl.canon_op(t["args"][0])
            if cp and any(e[0] == "f" and e[1] in ("responses", "results", "answers", "pending_awaits") for e in cp[1]) or (cp and "PendingAwait" in b.local_ty(cp[0])):
                consume.append(bi)
    for bi, si, s in agg_sites(b, "messages::Command", "UpdateAwaitResults"):
        if any((op_place(o) or {}).get("l") in fw for o in s["rv"]["ops"]):
            consume.append(bi)
    # exempt: sender worker unknown (None edge of the lookup chain that starts from results.keys().next())
    # the sending worker: an Option<usize> obtained from the routing table for a key of the results map
    fln_ = Flow(b, through_named=True)
    sender = []
    for l in b.locals:
        if l["ty"] == "core::option::Option<usize>" and l["i"] > b.mir["argc"]:
            back = fln_.backward({l["i"]}, through_calls=("Option::copied", "Option::and_then", "Iterator::next", "HashMap::keys", "HashMap::get"))
            callees = fln_.slice_reads(l["i"], through_calls=("Option::copied", "Option::and_then", "Iterator::next"))[3]
            if res[0] in back or any(c.endswith("HashMap::keys") for c in callees):
                sender.append(l["i"])
    exempt = option_none_edges(b, set(sender) | fl.forward(set(sender)))
    bad = explore(b, [0], avoid=consume, stop=err_blocks(b) | diverging_blocks(b), exempt_edges=exempt, want="return")
    ctx.check(bool(consume) and bad is None, R, b.key + "|answer-kept", "every received answer is recorded for the pending await or forwarded to the awaiter's worker",
              "a path through handle_process_results drops the received results (a completion or failure notice is lost and the awaiter hangs): %s" % path_desc(b, bad), b.loc(0))


def r5_priority_order(ctx):
    R = "R-C05-5"
    ctx.rule(R, "sources are scanned in written order on every (re-)entry and the select completes at the first ready one: process_select_sources "
                "iterates select_state.sources forward (iter().enumerate(), no rev/sort) and every complete_select result is returned at once")
    F = ctx.facts
    b = F.body(EXEC + "::process_select_sources")
    fl = Flow(b, through_named=True)
    chain = [(t.get("callee") or "").split("::")[-1] for bi, t in b.calls() if "iter" in (t.get("callee") or "").lower() or "Iterator" in (t.get("callee") or "")]
    bad = [c for c in chain if c in ("rev", "sort", "sorted", "skip", "step_by", "filter", "take")]
    it = [bi for bi, t in b.calls() if call_matches(t, ("slice::iter",)) and any(f == "sources" for _o, f in fl.slice_reads(op_place(t["args"][0])["l"])[0])]
    ctx.check(bool(it) and not bad, R, b.key + "|forward-scan", "sources are iterated forward with iter().enumerate() (%s)" % chain,
              "the source scan order is altered (%s)" % bad, b.loc(0))
    # the sources a select scans are the sources as WRITTEN: initialize_select stores the popped tuple's elements unmodified (no source is dropped,
    # merged, rewritten or moved — e.g. collapsing the timeouts into the first timeout's slot moves a short timeout ahead of an earlier source)
    ib = F.body(EXEC + "::initialize_select")
    ifl = Flow(ib, through_named=True)
    ifl0 = Flow(ib)
    from qvlib.paths import agg_sites as _aggs
    MUT = ("retain", "retain_mut", "sort", "sort_by", "sort_by_key", "sort_unstable", "sort_unstable_by", "sort_unstable_by_key", "reverse", "swap", "remove",
           "swap_remove", "insert", "push", "pop", "truncate", "drain", "dedup", "dedup_by", "dedup_by_key", "iter_mut", "rotate_left", "rotate_right", "clear",
           "extend", "append", "split_off", "index_mut", "get_mut", "first_mut", "last_mut", "as_mut_slice", "deref_mut", "fill")
    stored = 0
    for bi_, si_, st_ in _aggs(ib, "process::SelectState"):
        d_ = dict(zip(st_["rv"]["fields"], st_["rv"]["ops"]))
        sp_ = op_place(d_.get("sources", {}))
        if not sp_:
            continue
        stored += 1
        root = ifl0.canon_place(sp_)[0]
        group = ifl.backward({root}) | {root}
        vecs = {l for l in group if "Vec<quiver_core::value::Value" in (ib.local_ty(l) or "") and not (ib.local_ty(l) or "").startswith("&")}
        muts = []
        for b2, t2 in ib.calls():
            m = (t2.get("callee") or "").split("::")[-1]
            if m in MUT and t2["args"] and op_place(t2["args"][0]):
                c2 = ifl0.canon_op(t2["args"][0]) or ifl.canon_op(t2["args"][0])
                if c2 and c2[0] in vecs and ib.reaches(b2, bi_):
                    muts.append((b2, m))
        ctx.check(not muts, R, ib.key + "|sources-as-written", "SelectState.sources is the popped source tuple, unmodified",
                  "initialize_select rewrites the source list before storing it (%s): the written order / number / values of the sources decide which one "
                  "wins; a normalised list no longer does" % sorted({m for _b, m in muts}), ib.loc(muts[0][0]) if muts else ib.loc(bi_, si_))
    if not stored:
        raise CheckError("R-C05-5: the SelectState literal of initialize_select was not found")
    nexts = [bi for bi, t in b.calls() if call_matches(t, ("Iterator::next",))]
    # completion happens only while walking the sources in order, and only here
    callers = sorted({k.split("::{closure")[0] for k, _ in F.callers_of(EXEC + "::complete_select")})
    ctx.check(callers == [b.key], R, "callers(complete_select)", "a select is completed only from the ordered source walk (process_select_sources)",
              "complete_select is also called from %s: a select can complete without re-checking the sources written earlier" % [c for c in callers if c != b.key])
    for i, (bi, t) in enumerate(b.calls_to("Executor::complete_select")):
        inside = any(b.dominates(n, bi) for n in nexts)
        ctx.check(inside, R, "%s|complete#%d|inside-walk" % (b.key, i), "the completion is reached through the source loop (earlier-written sources were examined first)",
                  "complete_select is reachable without passing the source loop: a later-written source can win although an earlier one is ready", b.loc(bi))
    for i, (bi, t) in enumerate(b.calls_to("Executor::complete_select")):
        # after completing, the loop is not re-entered
        again = any(b.reaches(x, n) for x in b.succ[bi] for n in nexts)
        ctx.check(not again and t["dest"]["l"] == 0, R, "%s|complete#%d" % (b.key, i), "complete_select's result is returned immediately (first ready source wins)",
                  "after completing the select the scan continues (a later source could complete it again)", b.loc(bi))
    ms = b.calls_to("Executor::mark_selecting")
    ok = bool(ms) and all(not any(b.reaches(x, n) for x in b.succ[bi] for n in nexts) for bi, _t in ms)
    ctx.check(ok, R, b.key + "|park-after-scan", "the process parks (mark_selecting) only after the whole scan found nothing ready",
              "mark_selecting is no longer after the scan loop", b.loc(0))


def cmp_elapsed(F, body):
    """expiry tests of a select in `body`, normalised to `elapsed OP timeout`: [(OP, form)].
    Two equivalent spellings are recognised by what they compare:
      * elapsed form:  (now - start_time) OP timeout        — the elapsed time is a saturating_sub result (possibly captured by a closure);
      * deadline form: (start_time + timeout) OP' now       — the deadline is a saturating_add / checked_add / + whose operands read
        SelectState.start_time (possibly handed to a closure by an Option / iterator adaptor); `deadline <= now` is `elapsed >= timeout`."""
    fl = Flow(body, through_named=True)
    subs = {t["dest"]["l"] for bi, t in body.calls() if (t.get("callee") or "").endswith("saturating_sub")}
    # upvars whose captured variable is a saturating_sub result in the parent body
    up_elapsed = set()
    if "::{closure" in body.key:
        parent_key = body.key.rsplit("::{closure", 1)[0]
        if parent_key in F.fns and F.fns[parent_key].get("mir"):
            pb = F.body(parent_key)
            pfl = Flow(pb, through_named=True)
            psubs = {t["dest"]["l"] for bi, t in pb.calls() if (t.get("callee") or "").endswith("saturating_sub")}
            for uv in body.mir.get("upvars", []):
                for l in pb.locals:
                    if l.get("name") == uv["name"] and pfl.backward({l["i"]}) & psubs:
                        fs = [e for e in uv["place"]["pr"] if e[0] == "f"]
                        if fs:
                            up_elapsed.add(fs[0][4])

    def is_elapsed(o):
        p = op_place(o)
        if not p:
            return False
        if fl.backward({p["l"]}) & subs:
            return True
        back = fl.backward({p["l"]})
        for _bi, _si, st in body.stmts():
            if st["k"] == "assign" and st["p"]["l"] in back:
                pl = st["rv"].get("p") or (op_place(st["rv"].get("op") or {}) if st["rv"]["k"] in ("use", "cast") else None)
                if pl and pl["l"] == 1:
                    fs = [e for e in pl["pr"] if e[0] == "f"]
                    if fs and fs[0][4] in up_elapsed:
                        return True
        return False

    THROUGH = ("Try::branch", "Option::map", "Option::as_ref", "Option::copied", "Option::cloned", "Option::unwrap_or", "Iterator::min", "Iterator::next")

    def deadline_locals(bd, f2):
        out = set()
        for _bi, t in bd.calls():
            if (t.get("callee") or "").split("::")[-1] in ("saturating_add", "checked_add", "wrapping_add", "add") and t["args"]:
                reads = set()
                for a in t["args"]:
                    pl = op_place(a)
                    if pl:
                        reads |= {f for _o, f in f2.slice_reads(pl["l"], through_calls=THROUGH)[0]}
                if "start_time" in reads:
                    out.add(t["dest"]["l"])
        for _bi, _si, st in bd.stmts():
            if st["k"] == "assign" and st["rv"]["k"] == "bin" and st["rv"]["op"].startswith("Add"):
                reads = set()
                for a in (st["rv"]["l"], st["rv"]["r"]):
                    pl = op_place(a)
                    if pl:
                        reads |= {f for _o, f in f2.slice_reads(pl["l"], through_calls=THROUGH)[0]}
                if "start_time" in reads:
                    out.add(st["p"]["l"])
        return out
    dls = deadline_locals(body, fl)

    def is_deadline(o, depth=0):
        p = op_place(o)
        if not p:
            return False
        back = fl.backward({p["l"]}, through_calls=THROUGH)
        if back & dls:
            return True
        # a closure parameter: the payload of the receiver of the adaptor the closure is handed to (`opt.is_some_and(|deadline| ..)`)
        if "::{closure" in body.key and any(2 <= x <= body.mir["argc"] for x in back):
            use = F.closure_use(body.key)
            if use:
                pb, _b2, t2, ai = use
                if ai > 0 and op_place(t2["args"][0]):
                    pfl = Flow(pb, through_named=True)
                    pback = pfl.backward({op_place(t2["args"][0])["l"]}, through_calls=THROUGH)
                    if pback & deadline_locals(pb, pfl):
                        return True
        return False
    out = []
    for bi, si, s in body.stmts():
        if s["k"] == "assign" and s["rv"]["k"] == "bin" and s["rv"]["op"] in ("Ge", "Gt", "Le", "Lt"):
            op = s["rv"]["op"]
            le, re_ = is_elapsed(s["rv"]["l"]), is_elapsed(s["rv"]["r"])
            flip = {"Ge": "Le", "Gt": "Lt", "Le": "Ge", "Lt": "Gt"}
            if le and not re_:
                out.append((op, "elapsed"))
            elif re_ and not le:
                out.append((flip[op], "elapsed"))
            else:
                ld, rd = is_deadline(s["rv"]["l"]), is_deadline(s["rv"]["r"])
                if ld and not rd:
                    out.append((flip[op], "deadline"))       # deadline OP now  ==  now flip(OP) deadline  ==  elapsed flip(OP) timeout
                elif rd and not ld:
                    out.append((op, "deadline"))
    return out


def r6_timeouts(ctx):
    R = "R-C05-6"
    ctx.rule(R, "timeouts: the expiry test `elapsed >= timeout` has the same direction and strictness in handle_select_timeout, "
                "check_expired_timeouts and next_timeout_ms (a parked process is woken exactly when its select would complete); "
                "the select's start_time is written only while it is None")
    F = ctx.facts
    # the expiry tests are found by what they compare (the elapsed time of a select: a saturating_sub result, possibly captured by a closure), wherever
    # they live in the executor — the select's own test may sit in its own function or in the source walk, the re-queue scan in a loop or a closure
    sib = {}
    for k, f in sorted(F.fns.items()):
        if f["crate"] != "quiver_core" or not f.get("mir") or k in F.absorbed or "::executor::" not in k:
            continue
        found = cmp_elapsed(F, F.body(k))
        if found:
            sib.setdefault(k.split("::{closure")[0], []).extend(found)
    ctx.floor(R, "functions testing a select's elapsed time against its timeout", len(sib), 2)
    norm = {}
    for key, found in sib.items():
        short = key.split("::")[-1]
        for n_, (op, _form) in enumerate(found):
            norm[(key, n_)] = op
            ctx.check(op in ("Ge", "Gt"), R, key + "|direction" + ("#%d" % n_ if n_ else ""), "%s: expires when elapsed %s timeout" % (short, ">=" if op == "Ge" else ">"),
                      "%s: the expiry comparison is reversed (elapsed %s timeout): a timeout could fire early" % (short, op))
    ops = set(norm.values())
    ctx.check(len(ops) == 1, R, "expiry-siblings", "the sibling expiry tests agree (%s)" % sorted(ops),
              "the expiry tests disagree in strictness %s: a parked select can miss its wake-up or spin" % {k[0].split("::")[-1]: v for k, v in norm.items()})
    e = F.body(EXEC + "::ensure_select_start_time")
    fl = Flow(e, through_named=True)
    writes = [(bi, si, s) for bi, si, s in e.stmts() if s["k"] == "assign" and [x for x in s["p"]["pr"] if x[0] == "f"] and [x for x in s["p"]["pr"] if x[0] == "f"][-1][1] == "start_time"]
    ctx.floor(R, "start_time writes in ensure_select_start_time", len(writes), 1)
    # discriminant test of select_state.start_time: the write is unreachable on its Some edge
    tests = []
    for bi, si, s in e.stmts():
        if s["k"] == "assign" and s["rv"]["k"] == "discr" and any(x[0] == "f" and x[1] == "start_time" for x in s["rv"]["p"]["pr"]):
            for b2, blk in enumerate(e.blocks):
                t = blk["term"]
                if t["k"] == "switch" and op_local(t["op"]) == s["p"]["l"]:
                    tests.append((b2, {v: bb for v, bb in t["targets"]}, t["otherwise"]))
    for bi, si, s in writes:
        ok = False
        for b2, m, other in tests:
            some = m.get(1, other)
            if explore(e, [some], want="target", targets=[bi]) is None and e.dominates(b2, bi):
                ok = True
        ctx.check(ok, R, e.key + "|start-once", "start_time is written only when it is still None (the waiting period starts once)",
                  "start_time can be rewritten while already set (the timeout would restart on every re-entry)", e.loc(bi, si))
    # other writers of start_time: only initialize_select's SelectState literal
    writers = set()
    for body in F.bodies(crate="quiver_core"):
        for bi, si, s in body.stmts():
            if s["k"] == "assign":
                fs = [x for x in s["p"]["pr"] if x[0] == "f"]
                if fs and fs[-1][1] == "start_time" and (fs[-1][2] or "").endswith("SelectState"):
                    writers.add(body.key)
    ctx.check(writers <= {e.key}, R, "writers(start_time)", "start_time is assigned only in ensure_select_start_time (and the SelectState literal)",
              "start_time is also assigned in %s" % sorted(writers - {e.key}))


def r7_receive_tables(ctx):
    """which concrete values a receive source accepts comes from the parameter tables: they are recomputed, by pure functions of the FULL merged
    program, at every program update (shared with R-C08-2)"""
    from rules import c08
    before = len(ctx.obs)
    c08.r2_tables_describe_whole_program(ctx)
    c08.r1_concrete_tags(ctx)
    for o in ctx.obs[before:]:
        o["rule"] = "R-C05-7"
    ctx.rules.pop("R-C08-1", None)
    for f in ctx.floors:
        if f["rule"] == "R-C08-1":
            f["rule"] = "R-C05-7"
    if "R-C08-2" in ctx.rules:
        ctx.rules["R-C05-7"] = ctx.rules.pop("R-C08-2")
    for f in ctx.floors:
        if f["rule"] == "R-C08-2":
            f["rule"] = "R-C05-7"


def run(ctx):
    ctx.run_rules([r1_untaken_messages_stay, r2_verdict_only, r3_error_propagation, r4_latest_answer_replaces, r4b_answers_not_dropped, r5_priority_order, r6_timeouts, r7_receive_tables])
    return (
        "Decides structural clauses of the select statement: who may remove from a mailbox and under which verdict (with the removed index tied "
        "to the examined/held message), the filter result reaching only the nil test, the awaited process's own error being propagated, "
        "latest-answer-replaces in the await bookkeeping, forward source scan with first-ready-wins, sibling agreement of the timeout expiry "
        "test and single start of the waiting period. Priority-by-readiness under real arrival histories and clocks is NOT decided.",
        "obligations are MIR call/assignment sites selected by resolved callee and owner field; discharged by guarded reachability, value-source "
        "slices and sibling comparison",
    )
