"""C15 — failures are contained and propagate only to awaiters; workers never crash (structural clauses)."""
import json
import os
from collections import Counter, defaultdict

from qvlib.extract import VERIF, CheckError
from qvlib.facts import op_place
from qvlib.paths import Flow, agg_sites
from rules import c04, c05, c14, census

CRATES = None
OPTIONAL_FNS = ("Worker::notify_result", "Worker::deliver_message", "Worker::update_program")      # private Worker helpers that may be inlined into their only caller
W = "quiver_environment::worker::Worker"
E = "quiver_environment::environment::Environment"
EXEC = "quiver_core::executor::Executor"


def runtime_reach(F):
    roots = [W + "::step", W + "::flush_subscriptions", E + "::step", EXEC + "::step"]
    roots += [k for k, f in F.fns.items() if k.startswith(E + "::") and "{closure" not in k and f.get("vis", "").startswith("Public")]
    roots = [r for r in roots if r in F.fns]
    reach = F.reach(roots, follow_fnptr=False)
    return roots, {k for k in reach if F.fns[k]["crate"] in ("quiver_core", "quiver_environment") and F.fns[k].get("mir") and not F.fns[k].get("derived")
                   and "::builtins::" not in k}


def r1_census(ctx):
    R = "R-C15-1"
    ctx.rule(R, "panic-site census on the runtime paths: in the transitive local callees of Worker::step, Worker::flush_subscriptions, "
                "Environment::step, the public Environment API and Executor::step (builtins are the boundary, covered by C12) every "
                "unwrap/expect/panic/unreachable, indexing call, bounds/division assert and usize subtraction is discharged automatically or within "
                "its reviewed per-(function, kind) ceiling")
    F = ctx.facts
    roots, reach = runtime_reach(F)
    ctx.floor(R, "runtime entry points", len(roots), 25)
    ctx.floor(R, "functions on the runtime paths", len(reach), 300)
    census.run_census(ctx, R, reach, "c15.json")


def r2_error_writes(ctx):
    R = "R-C15-2"
    ctx.rule(R, "errors stay with the failing process and its awaiters: Process.result is written only by the reviewed writers (spawn_process, "
                "notify_effect_completion, step, Worker::notify_result; taken by Worker::resume_process), and frames are cleared only there")
    F = ctx.facts
    allowed_result = {EXEC + "::spawn_process", EXEC + "::notify_effect_completion", EXEC + "::step", W + "::notify_result"}
    allowed_clear = {EXEC + "::notify_effect_completion", EXEC + "::step", W + "::notify_result"}
    if (W + "::notify_result") not in F.fns:
        # the private helper was inlined by hand into its only caller: the reviewed write now lives there
        allowed_result.add(W + "::update_await_results")
        allowed_clear.add(W + "::update_await_results")
    n = 0
    for body in F.bodies():
        if body.fn["crate"] not in ("quiver_core", "quiver_environment", "quiv", "quiver_io", "quiver_web", "quiver_cli"):
            continue
        fl = Flow(body)
        base = body.key.split("::{closure")[0]
        for bi, si, s in body.stmts():
            if s["k"] == "assign":
                fs = [e for e in s["p"]["pr"] if e[0] == "f"]
                if fs and fs[-1][1] == "result" and (fs[-1][2] or "").endswith("process::Process"):
                    n += 1
                    ctx.check(base in allowed_result, R, "%s|result=" % base, "reviewed writer of Process.result",
                              "Process.result is written outside the reviewed writers: a failure (or result) can be planted into an unrelated process", body.loc(bi, si))
        for bi, t in body.calls():
            if (t.get("callee") or "").endswith("Vec::clear") and t["args"]:
                cp = fl.canon_op(t["args"][0])
                if cp and fl.ends_with_field(cp, "process::Process", "frames"):
                    n += 1
                    ctx.check(base in allowed_clear, R, "%s|frames.clear" % base, "reviewed terminator of a process",
                              "a process is terminated (frames.clear()) outside the reviewed sites", body.loc(bi))
    ctx.floor(R, "result writes / frame clears", n, 8)
    # the error arm of step writes the RUNNING process only: the object written is the local `proc` taken out of the table
    st = F.body(EXEC + "::step")
    fl = Flow(st)
    fln = Flow(st, through_named=True)
    popped = {t["dest"]["l"] for _b, t in st.calls() if (t.get("callee") or "").endswith("VecDeque::pop_front")}
    nexts = {t["dest"]["l"] for _b, t in st.calls() if (t.get("callee") or "").endswith("Iterator::next")}
    who = Counter()
    for bi, si, s in st.stmts():
        if s["k"] == "assign":
            fs = [e for e in s["p"]["pr"] if e[0] == "f"]
            if fs and fs[-1][1] == "result" and (fs[-1][2] or "").endswith("process::Process"):
                root = fl.canon_place(s["p"])[0]
                kinds = set()
                for src in fl.sources(root):
                    if src[0] != "call":
                        continue
                    c = src[2].get("callee") or ""
                    if (c.endswith("HashMap::remove") or c.endswith("Executor::get_process_mut") or c.endswith("HashMap::get_mut")) and len(src[2]["args"]) > 1:
                        kp = op_place(src[2]["args"][1])
                        back = fln.backward({kp["l"]}, through_calls=("Option::unwrap", "Option::expect", "Try::branch", "Iterator::next", "Clone::clone")) if kp else set()
                        if back & popped:
                            kinds.add("running")
                        elif back & nexts:
                            kinds.add("awaiter")
                        else:
                            kinds.add("other")
                who["/".join(sorted(kinds)) or "unknown"] += 1
    ctx.check(set(who) == {"running", "awaiter"} and who["awaiter"] == 1, R, EXEC + "::step|who",
              "step writes the result of the process it popped from the run queue (%d site(s)) and, in the awaiters loop, of an awaiter (1 site)" % who["running"],
              "the set of processes whose result Executor::step writes changed: %s (expected: the process popped from the run queue, and one awaiter-loop "
              "write)" % dict(who))
    # the awaiters loop touches only processes whose awaiting map names the finished process
    keys = F.with_closures(EXEC + "::step")
    ck = any(any((t.get("callee") or "").endswith("HashMap::contains_key") for _b, t in F.body(k).calls()) for k in keys)
    ctx.check(ck, R, EXEC + "::step|awaiters-filter", "awaiters are selected by awaiting.contains_key(&current_pid)", "the awaiters of a finished process are no longer selected by their awaiting map")


def _msg_text(t):
    """the printable part of a string / format-pieces literal as the driver prints it"""
    import re
    t = t.strip()
    if t.startswith("b\""):
        t = t[2:-1]
        t = re.sub(r"\\x[0-9a-fA-F]{2}", " ", t)
    t = t.strip("\"")
    return " ".join(t.split())


def r3_fatal_errors(ctx):
    R = "R-C15-3"
    ctx.rule(R, "fatal-error census: every EnvironmentError constructed on the runtime paths (each can end the worker loop or the environment step) "
                "is within the reviewed per-(function, variant) ceiling, with the reason a Quiver PROGRAM cannot trigger it")
    F = ctx.facts
    path = os.path.join(VERIF, "rules", "tables", "c15_fatal.json")
    table = json.load(open(path)) if os.path.exists(path) else {"fatal": {}}
    found = defaultdict(list)
    with F.raw_mode():
        _roots, reach = runtime_reach(F)
        for k in sorted(reach):
            b = F.body(k)
            for bi, si, s in agg_sites(b, "environment::EnvironmentError"):
                found[(k.split("::{closure")[0], s["rv"]["variant"])].append(b.loc(bi, si))
    WHYV = {
        "WorkerCommunication": "channel to a worker closed: host shutdown, not program behaviour",
        "ChannelDisconnected": "channel closed: host shutdown",
        "ProcessNotFound": "the id came from the environment's own allocation/routing table or from the host API (unknown pid supplied by the host)",
        "HeapData": "extract/inject_heap_data failed: an index out of the worker's own heap, ruled out by R-C06-6 (values cross workers only by copy)",
        "Executor": "an executor-level error surfaced through the host API call that asked for it",
        "ProcessNotSleeping": "host API misuse (resume of a process that is not sleeping)",
        "ProcessFailed": "host API: resume of a failed persistent process is reported to the host, the worker keeps running",
        "FunctionNotFound": "host API: resume with an unknown function index",
        "LocalNotFound": "host API: request of a local index that does not exist",
        "RequestNotFound": "host API: poll of an unknown request id",
        "UnexpectedResultType": "host API: request kind mismatch",
        "NoReplProcess": "host API",
        "VariableNotFound": "host API",
        "InvalidVariableIndex": "host API",
        "Timeout": "host-side wait helper",
    }
    # ... and every core `Error` constructed in the executor entry points that the WORKER calls outside Executor::step and propagates with `?`
    # (notify_*, spawn_process, heap extraction): inside step an error is the failing process's result, here it ends the worker loop
    found_core = defaultdict(list)
    with F.raw_mode():
        croots = set()
        for k, f in F.fns.items():
            if k.startswith("quiver_environment::worker::Worker") and f.get("mir"):
                for _bi, t in F.body(k).calls():
                    c = t.get("callee") or ""
                    if c.startswith(EXEC + "::") and c in F.fns and F.fns[c].get("mir") and not c.endswith("::step") and "error::Error" in (F.body(c).local_ty(0) or ""):
                        croots.add(c)
        creach = {k for k in F.reach(sorted(croots)) if k.startswith("quiver_core::") and F.fns[k].get("mir") and not F.fns[k].get("derived")}
        MSG_TC = ("ToString::to_string", "fmt::format", "Arguments::new_const", "Arguments::new_v1", "Arguments::new", "ToOwned::to_owned", "From::from", "String::from",
                  "must_use", "format", "Into::into")
        for k in sorted(creach):
            b = F.body(k)
            bfl = Flow(b, through_named=True)
            for bi, si, s in agg_sites(b, "error::Error"):
                # a fatal error is identified by WHAT it says (variant + message literal), not by where or how often it is constructed: duplicating a
                # reviewed error into both arms of a match, or moving it into a helper, is not a new way for the worker to die
                msgs = set()
                for o in s["rv"]["ops"]:
                    pl = op_place(o)
                    if pl:
                        for x in bfl.sources(pl["l"], through_calls=MSG_TC):
                            if x[0] == "const" and x[1].get("text") and ("str" in (x[1].get("ty") or "") or "[u8" in (x[1].get("ty") or "")):
                                msgs.add(_msg_text(x[1]["text"]))
                    elif o.get("c") == "const" and o.get("text"):
                        msgs.add(_msg_text(o["text"]))
                key = " / ".join(sorted(msgs)) if msgs else "<no literal> in " + k.split("::{closure")[0].split("::")[-1]
                found_core[(s["rv"]["variant"], key)].append(b.loc(bi, si))
    if os.environ.get("QV_CENSUS_GEN") == "1":
        tbl = {"fatal": {}, "fatal_core": {}}
        for (k, v), locs in sorted(found.items()):
            tbl["fatal"]["%s|%s" % (k, v)] = {"ceiling": len(locs), "why": WHYV.get(v, "reviewed")}
        for (v, msg), locs in sorted(found_core.items()):
            tbl["fatal_core"]["%s|%s" % (v, msg)] = {"why": "reviewed: an id / heap index that does not exist in this executor — ids come from the environment's own "
                                                     "routing tables and heap indices from this executor's extraction (R-C06-6); not reachable from a program, or "
                                                     "(effect failure text) stored as the requesting process's own result"}
        json.dump(tbl, open(path, "w"), indent=1)
        return
    n = sum(len(v) for v in found.values())
    census.reconcile(ctx, R, {k: [(loc, None) for loc in locs] for k, locs in found.items()}, table["fatal"],
                     "EnvironmentError::%s is constructed on a runtime path and is not in the reviewed table: if a program can reach it, the worker loop ends "
                     "and every other process hangs",
                     "%d constructions of EnvironmentError::%s, reviewed ceiling %d (%s)")
    ctx.floor(R, "EnvironmentError constructions on runtime paths", n, 30)
    ctx.floor(R, "executor entry points whose error ends the worker", len(croots), 4)
    reviewed = table.get("fatal_core", {})
    for (v, msg), locs in sorted(found_core.items()):
        tk = "%s|%s" % (v, msg)
        if tk in reviewed:
            ctx.exception(R, "worker-fatal|" + tk, "%d construction(s): %s" % (len(locs), reviewed[tk]["why"][:160]), locs[0])
        else:
            ctx.violated(R, "worker-fatal|" + tk, "Error::%s(\"%s\") is constructed in an executor entry point the worker calls outside step() and propagates with `?`, and is "
                         "not a reviewed fatal error: if a program history can reach it (e.g. a completion arriving for a process that has already "
                         "finished), the worker loop ends and every other process on it hangs" % (v, msg[:80]), locs[0])


def r5_ownership_and_effect_errors_are_values(ctx):
    R = "R-C15-5"
    ctx.rule(R, "effect failures and ownership violations are reported back to the requesting process as completions (report_effect_error -> "
                "Command::EffectCompletion{Err}), not propagated up the environment loop; the executor turns them into that process's error")
    F = ctx.facts
    her = F.body(E + "::handle_effect_request")
    rep = her.calls_to("Environment::report_effect_error")
    ctx.check(len(rep) >= 2, R, her.key + "|report", "ownership violation and backend submit error both go through report_effect_error (%d sites)" % len(rep),
              "handle_effect_request no longer reports failures to the process (only %d report_effect_error sites)" % len(rep), her.loc(0))
    r = F.body(E + "::report_effect_error")
    ec = agg_sites(r, "messages::Command", "EffectCompletion")
    ctx.check(len(ec) == 1, R, r.key + "|completion", "the failure travels as Command::EffectCompletion", "report_effect_error no longer sends an EffectCompletion", r.loc(0))
    n = F.body(EXEC + "::notify_effect_completion")
    errs = [s for _b, _i, s in n.stmts() if s["k"] == "assign" and [e for e in s["p"]["pr"] if e[0] == "f"] and [e for e in s["p"]["pr"] if e[0] == "f"][-1][1] == "result"]
    ctx.check(len(errs) == 1, R, n.key + "|process-error", "an Err completion becomes the requesting process's own error result", "notify_effect_completion no longer fails the requesting process on an Err completion", n.loc(0))
    # worker loop: on Err from Worker::step the transport reports WorkerError
    sp = [k for k in F.fns if "native_transport" in k and "spawn_worker" in k]
    found = False
    for k in sp:
        b = F.body(k) if F.fns[k].get("mir") else None
        if b and agg_sites(b, "messages::Event", "WorkerError"):
            found = True
    ctx.check(found, R, "native_transport::spawn_worker|WorkerError", "a worker whose step fails reports Event::WorkerError before exiting its loop",
              "the worker loop no longer reports WorkerError on failure (the environment would wait forever)")


def r4_shared_protocol(ctx):
    # propagation to every awaiter: the await registration / reporting protocol (shared with C04) and the error payload (shared with C05)
    before = len(ctx.obs)
    sub = []
    for f in (c04.r6_await_registration, c05.r3_error_propagation, c05.r4b_answers_not_dropped, c05.r4_latest_answer_replaces, c14.r3_close):
        try:
            f(ctx)
        except CheckError as e:
            sub.append(str(e))
    ren = {"R-C04-6": "R-C15-4a", "R-C05-3": "R-C15-4b", "R-C05-4": "R-C15-4c", "R-C05-4b": "R-C15-4d", "R-C14-3": "R-C15-4e"}
    for o in ctx.obs[before:]:
        o["rule"] = ren.get(o["rule"], o["rule"])
    for old, new in ren.items():
        if old in ctx.rules:
            ctx.rules[new] = ctx.rules.pop(old)
    for f in ctx.floors:
        f["rule"] = ren.get(f["rule"], f["rule"])
    if sub:
        raise CheckError("; ".join(sub))


def run(ctx):
    if os.environ.get("QV_CENSUS_GEN") == "1":
        r1_census(ctx)
        r3_fatal_errors(ctx)
        return ("table generation", "n/a")
    ctx.run_rules([r1_census, r2_error_writes, r3_fatal_errors, r4_shared_protocol, r5_ownership_and_effect_errors_are_values])
    ctx.note("worker panics reachable from pure builtins are decided under C12 (the fn-pointer call is the boundary)")
    return (
        "Decides structural clauses: a deny-by-default census of every panic-capable construct on the worker/environment/executor step paths "
        "(reviewed per-(function, kind) ceilings); the closed set of writers of Process.result / frame clears; a census of every fatal "
        "EnvironmentError constructed on those paths with the reason a program cannot trigger it; the await registration/reporting protocol and the "
        "propagation of the awaited process's own error (shared with C04/C05); effect and ownership failures delivered as values to the requesting "
        "process. Behaviour under real interleavings is NOT decided.",
        "obligations are MIR sinks and constructor sites in the runtime reach set; discharged by interval analysis / guard patterns or held to the "
        "reviewed tables rules/tables/c15.json and c15_fatal.json; protocol clauses by path exploration",
    )
