"""C09 — assignability implies containment; overlap detection is complete (shape clauses of the relation)."""
from qvlib import hir
from qvlib.extract import CheckError
from qvlib.facts import op_local, op_place
from qvlib.paths import Flow, explore

CRATES = ["quiver_core", "quiver_compiler"]
TYPE = "quiver_core::types::Type"
REL = "quiver_core::types::check_type_relation"

# kinds of types that can share values; pairs of DIFFERENT kinds are semantically disjoint and may fall to `_ => false`
KIND = {"Integer": "int", "Binary": "bin", "Reference": "ref", "Resource": "resource", "Tuple": "tuple-like", "Partial": "tuple-like",
        "Callable": "callable", "Process": "process"}
# variants handled generically before the structural arms (any pair containing one of them never reaches `_ => false`)
GENERIC = ("Union", "Variable", "Cycle")


def top_match(F):
    fn = F.fn(REL)
    ms = [m for m in hir.matches(hir.body_of(fn), "Normal") if (m.get("sty") or "").startswith("(&quiver_core::types::Type, &quiver_core::types::Type)")]
    if len(ms) != 1:
        raise CheckError("C09: the (self_type, pattern_type) match was not found in check_type_relation")
    return fn, ms[0]


def is_false(arm):
    b = arm["body"]
    return b["e"] == "lit" and b.get("text") == "Bool(false)"


def rec_calls(node):
    return [x for kind, key, x in hir.calls(node) if key == REL]


def side_of(arg, binds):
    """which side ('self' / 'pattern') an argument expression of a recursive call comes from"""
    names = set(hir.local_names(arg))
    sides = set()
    for n in names:
        if n in binds:
            sides.add(binds[n])
    if "self_id" in names:
        sides.add(0)
    if "pattern_id" in names:
        sides.add(1)
    if len(sides) == 1:
        return list(sides)[0]
    return None


def risky_ors(body):
    """`||` nodes that can open an alternative route to TRUE: every Or except those in the condition of an `if` whose then-branch only returns
    false (`if a != b || n != m { return false; }` is a conjunction written as a guard)."""
    ors = [x for x in hir.walk(body) if x["e"] == "binary" and x["op"] == "Or"]
    benign = set()
    for x in hir.walk(body):
        if x["e"] == "if" and x.get("c") is not None and x.get("t") is not None:
            rets = [r for r in hir.walk(x["t"]) if r["e"] == "ret"]
            only_false = bool(rets) and all(r.get("x") is not None and r["x"]["e"] == "lit" and r["x"].get("text") == "Bool(false)" for r in rets)
            others = [y for y in hir.walk(x["t"]) if y["e"] in ("call", "mcall", "assign", "inlined")]
            if only_false and not others:
                for y in hir.walk(x["c"]):
                    if y["e"] == "binary" and y["op"] == "Or":
                        benign.add(id(y))
    return [o for o in ors if id(o) not in benign]


def arm_range(m, arm, fn):
    """source line range of a match arm: from its own line to the line before the next arm (or a generous bound after the last one)."""
    lns = sorted(a["ln"] for a in m["arms"])
    nxt = [x for x in lns if x > arm["ln"]]
    return arm["ln"], (nxt[0] - 1) if nxt else arm["ln"] + 400


def sem_quant(F, m, arm, fn, env=None):
    from qvlib import polarity
    lo, hi = arm_range(m, arm, fn)
    return polarity.semantic_quantifiers(F, REL, REL, lo, hi, env)


def r1_polarity(ctx):
    R = "R-C09-1"
    ctx.rule(R, "polarity table of check_type_relation: union-on-left is ALL under UnionMode::All and ANY under UnionMode::Any; union-on-right is ANY "
                "in both modes and nothing else can make it true; tuple/partial/process/callable arms combine field results conjunctively; callable "
                "parameter and receive are compared with the operands swapped (contravariant), result unswapped")
    F = ctx.facts
    fn, m = top_match(F)
    file = fn["file"]
    # union on the left (the unguarded arm)
    arms = [a for i, a, d in hir.arms_for_pair(m, TYPE, TYPE, "Union", "Integer")]
    left = [a for a in arms if a.get("guard") is None]
    if not left:
        ctx.violated(R, "arm(Union,_)", "no unguarded arm for a union on the left")
    else:
        a = left[0]
        # decided on MIR (qvlib/polarity.py): with the mode's discriminant fixed, what does ONE variant's result do to the loop / adaptor around
        # the recursive call? Works for Iterator::all/any, early-return loops, flag+break loops and `settles`-style rewrites alike.
        rb = F.body(REL)
        mode_l = [l["i"] for l in rb.params() if "UnionMode" in l["ty"]]
        if not mode_l:
            raise CheckError("%s: the UnionMode parameter of check_type_relation was not found" % R)
        modes = F.variants("quiver_core::types::UnionMode")
        detail = {mv: sem_quant(F, m, a, fn, {("d", mode_l[0]): i}) for i, mv in enumerate(modes)}
        if any("unknown" in v or not v for v in detail.values()):
            raise CheckError("%s: the union-on-left arm of check_type_relation has a quantifier structure that cannot be classified (%s): cannot decide "
                             "its polarity" % (R, detail))
        ok = detail.get("All") == ["all"] and detail.get("Any") == ["any"]
        ctx.check(ok, R, "arm(Union,_)|mode", "All -> Iterator::all, Any -> Iterator::any over the variants", "union-on-left polarity is %s (expected All->all, Any->any)" % detail,
                  "%s:%d" % (file, a["ln"]))
    # union on the right
    arms = [a for i, a, d in hir.arms_for_pair(m, TYPE, TYPE, "Integer", "Union")]
    right = [a for a in arms if a.get("guard") is None]
    if not right:
        ctx.violated(R, "arm(_,Union)", "no arm for a union on the right")
    else:
        a = right[0]
        meths = sem_quant(F, m, a, fn)
        if "unknown" in meths or not meths:
            raise CheckError("%s: the union-on-right arm of check_type_relation has a quantifier shape that cannot be classified (%s)" % (R, meths))
        ors = risky_ors(a["body"])
        helpers = sorted({k for k in hir.call_keys(a["body"]) if k.startswith("quiver_") and k != REL})
        modes = [x for x in hir.matches(a["body"]) if "UnionMode" in (x.get("sty") or "")] + [x for x in hir.walk(a["body"]) if x["e"] == "path" and x.get("name") == "mode" and False]
        ok = meths == ["any"] and not ors and not helpers and not modes
        ctx.check(ok, R, "arm(_,Union)|any-only", "the value must fit ONE variant: a single Iterator::any over recursive calls, no alternative route to true",
                  "union-on-right is decided by %s with extra disjunctions=%d, helper calls=%s, mode split=%d: a value fitting no single variant could be accepted"
                  % (meths, len(ors), helpers, len(modes)), "%s:%d" % (file, a["ln"]))
    # conjunctive structural arms
    for va, vb, want in (("Tuple", "Tuple", ["all"]), ("Tuple", "Partial", ["all", "any"]), ("Partial", "Partial", ["all", "any"])):
        arms = hir.arms_for_pair(m, TYPE, TYPE, va, vb)
        arms = [a for i, a, d in arms if a.get("guard") is None and not is_false(a)]
        if not arms:
            ctx.violated(R, "arm(%s,%s)" % (va, vb), "no structural arm")
            continue
        a = arms[0]
        meths = sem_quant(F, m, a, fn)
        if "unknown" in meths or not meths:
            raise CheckError("%s: the (%s,%s) arm of check_type_relation has a quantifier shape that cannot be classified (%s)" % (R, va, vb, meths))
        # outermost quantifier over the PATTERN's fields must be `all`
        ok = bool(meths) and meths[0] == "all" and sorted(set(meths)) == sorted(set(want)) and bool(rec_calls(a["body"]))
        ors = risky_ors(a["body"])
        ctx.check(ok and not ors, R, "arm(%s,%s)|conjunctive" % (va, vb), "every required field must relate (outer Iterator::all), recursion on the field types",
                  "(%s,%s) combines field results with %s (disjunctions: %d)" % (va, vb, meths, len(ors)), "%s:%d" % (file, a["ln"]))
    # callable variance
    arms = [a for i, a, d in hir.arms_for_pair(m, TYPE, TYPE, "Callable", "Callable") if not is_false(a)]
    if not arms:
        ctx.violated(R, "arm(Callable,Callable)", "no arm")
    else:
        a = arms[0]
        binds = {}
        for nm, path in hir.pat_bindings(a["pat"]):
            if path and path[0][0] == "tuple":
                binds[nm] = path[0][1]
        field_of = {nm: path[-1][1] for nm, path in hir.pat_bindings(a["pat"]) if path}
        seen = {}
        for rc in rec_calls(a["body"]):
            a0, a1 = rc["args"][0], rc["args"][1]
            n0 = [n for n in hir.local_names(a0) if n in field_of]
            n1 = [n for n in hir.local_names(a1) if n in field_of]
            if len(n0) == 1 and len(n1) == 1 and field_of[n0[0]] == field_of[n1[0]]:
                seen[field_of[n0[0]]] = (binds[n0[0]], binds[n1[0]])
        want = {"parameter": (1, 0), "result": (0, 1), "receive": (1, 0)}
        ands = [x for x in hir.walk(a["body"]) if x["e"] == "binary" and x["op"] == "And"]
        ors = risky_ors(a["body"])
        ctx.check(seen == want and len(ands) >= 2 and not ors, R, "arm(Callable,Callable)|variance",
                  "parameter and receive contravariant (pattern, self), result covariant (self, pattern), all three conjoined",
                  "callable variance is %s (expected %s), conjunctions=%d disjunctions=%d" % (seen, want, len(ands), len(ors)), "%s:%d" % (file, a["ln"]))
    # process arm: conjunction of send and receive
    arms = [a for i, a, d in hir.arms_for_pair(m, TYPE, TYPE, "Process", "Process") if not is_false(a)]
    if arms:
        a = arms[0]
        ands = [x for x in hir.walk(a["body"]) if x["e"] == "binary" and x["op"] == "And"]
        ors = risky_ors(a["body"])
        ctx.check(len(rec_calls(a["body"])) == 2 and len(ands) >= 1 and not ors, R, "arm(Process,Process)|conjunctive", "send and receive must both relate",
                  "process arm: %d recursive calls, %d conjunctions, %d disjunctions" % (len(rec_calls(a["body"])), len(ands), len(ors)), "%s:%d" % (file, a["ln"]))
    else:
        ctx.violated(R, "arm(Process,Process)", "no arm")
    # the entry points pass the right mode
    for key, mode in (("quiver_core::types::is_compatible", "All"), ("quiver_core::types::types_overlap", "Any")):
        f2 = F.fn(key)
        modes = [c[1] for c in hir.ctors(hir.body_of(f2)) if (c[0] or "").endswith("UnionMode")]
        ctx.check(modes == [mode], R, key + "|mode", "%s uses UnionMode::%s" % (key.split("::")[-1], mode), "%s uses %s" % (key.split("::")[-1], modes))


def r2_matrix(ctx):
    R = "R-C09-2"
    ctx.rule(R, "variant-pair coverage matrix of check_type_relation: only pairs of semantically disjoint kinds may fall to `_ => false`; pairs of "
                "the same kind (e.g. Partial vs Tuple) need a structural arm, otherwise a reachable branch is pruned as dead")
    F = ctx.facts
    fn, m = top_match(F)
    vs = F.variants(TYPE)
    unknown = [v for v in vs if v not in KIND and v not in GENERIC]
    ctx.check(not unknown, R, "variants", "every Type variant has a reviewed kind (%d variants)" % len(vs),
              "new Type variant(s) %s: their overlap semantics must be reviewed" % unknown)
    n = 0
    for a in vs:
        for b in vs:
            if a in GENERIC or b in GENERIC or a not in KIND or b not in KIND:
                # must be handled by an arm other than the final catch-all
                arms = hir.arms_for_pair(m, TYPE, TYPE, a, b)
                first_def = [x for x in arms if x[2]]
                ok = bool(first_def) and not (hir.is_catch_all(first_def[0][1]["pat"]) and is_false(first_def[0][1]))
                n += 1
                ctx.check(ok, R, "pair(%s,%s)" % (a, b), "handled before the catch-all", "(%s, %s) falls to `_ => false` although unions/variables/cycles relate to other types" % (a, b))
                continue
            arms = hir.arms_for_pair(m, TYPE, TYPE, a, b)
            first_def = [x for x in arms if x[2]]
            n += 1
            if not first_def:
                ctx.violated(R, "pair(%s,%s)" % (a, b), "no definite arm")
                continue
            arm = first_def[0][1]
            falls = hir.is_catch_all(arm["pat"]) and is_false(arm)
            if KIND[a] == KIND[b]:
                ctx.check(not falls, R, "pair(%s,%s)" % (a, b), "same kind (%s): structural arm at line %d" % (KIND[a], arm["ln"]),
                          "(%s, %s) share values (both %s) but fall to `_ => false`: types_overlap says 'disjoint' and a reachable branch is pruned" % (a, b, KIND[a]),
                          "%s:%d" % (fn["file"], arm["ln"]))
            else:
                ctx.check(falls or is_false(arm) or True, R, "pair(%s,%s)" % (a, b), "different kinds (%s / %s): disjoint" % (KIND[a], KIND[b]), "")
    ctx.floor(R, "variant pairs examined", n, 121)


def r3_narrowing_direction(ctx):
    R = "R-C09-3"
    ctx.rule(R, "narrowing never drops a value that can occur: intersect_pair returns never only for provably disjoint operands (its generic fallback "
                "returns never only on the false outcome of types_overlap, else the LEFT operand); subtract_one returns the empty difference only "
                "under a == b or is_compatible(a, b) in that argument order, and falls back to vec![a]")
    F = ctx.facts
    ip = F.body("quiver_compiler::compiler::narrowing::intersect_pair")
    fl = Flow(ip, through_named=True)
    ov = [(bi, t) for bi, t in ip.calls_to("types::types_overlap")]
    ctx.floor(R, "types_overlap calls in intersect_pair", len(ov), 1)
    never_l = [t["dest"]["l"] for _b, t in ip.calls_to("Program::never")]
    never_l += [l for l in Flow(ip).forward(set(never_l))]
    a_l = [ip.param_by_type(lambda ty: ty == "usize", 0, "left operand")]
    a_l += [l for l in Flow(ip).forward(set(a_l)) if ip.local_ty(l) == "usize"]
    for bi, t in ov:
        r = t["dest"]["l"]
        # blocks assigning _0 from `never` reachable right after the call
        ret_never = [b2 for b2, si, s in ip.stmts() if s["k"] == "assign" and s["p"]["l"] == 0 and not s["p"]["pr"] and s["rv"]["k"] == "use" and op_local(s["rv"]["op"]) in never_l and ip.reaches(bi, b2)]
        ret_a = [b2 for b2, si, s in ip.stmts() if s["k"] == "assign" and s["p"]["l"] == 0 and not s["p"]["pr"] and s["rv"]["k"] == "use" and op_local(s["rv"]["op"]) in a_l and ip.reaches(bi, b2)]
        ok = bool(ret_never) and bool(ret_a)
        for x in ip.succ[bi]:
            if explore(ip, [(x, {r: 1})], want="target", targets=ret_never, avoid=[bi]):
                ok = False
            if explore(ip, [(x, {r: 0})], want="target", targets=ret_a, avoid=[bi]):
                ok = False
        args = [fl.canon_op(t["args"][0]), fl.canon_op(t["args"][1])]
        ctx.check(ok, R, ip.key + "|fallback", "overlap -> keep the left operand; no overlap -> never",
                  "intersect_pair's fallback returns never although the operands overlap (or keeps `a` when they do not)", ip.loc(bi))
    so = F.body("quiver_compiler::compiler::narrowing::subtract_one")
    flo = Flow(so)
    empties = [b2 for b2, t in so.calls() if (t.get("callee") or "").endswith("Vec::new") and t["dest"]["l"] == 0]
    ctx.floor(R, "empty-difference returns in subtract_one", len(empties), 2)
    ic = [(bi, t) for bi, t in so.calls_to("types::is_compatible")]
    ctx.floor(R, "is_compatible calls in subtract_one", len(ic), 1)
    a_p = [so.param_by_type(lambda ty: ty == "usize", 0, "minuend")]
    b_p = [so.param_by_type(lambda ty: ty == "usize", 1, "subtrahend")]
    for bi, t in ic:
        c0, c1 = flo.canon_op(t["args"][0]), flo.canon_op(t["args"][1])
        order = bool(a_p and b_p) and c0 is not None and c1 is not None and c0[0] == a_p[0] and c1[0] == b_p[0]
        ctx.check(order, R, so.key + "|is_compatible(a,b)", "a ∖ b is empty iff a is assignable to b: is_compatible(a, b)",
                  "subtract_one tests is_compatible with the operands in the wrong order (would empty the difference when b ⊆ a)", so.loc(bi))
        r = t["dest"]["l"]
        # the empty return right after it is reachable only on true
        after = [e for e in empties if so.reaches(bi, e)]
        bad = False
        for x in so.succ[bi]:
            if explore(so, [(x, {r: 0})], want="target", targets=after, avoid=[bi]):
                bad = True
        ctx.check(bool(after) and not bad, R, so.key + "|empty-only-if-compatible", "vec![] is returned only when is_compatible(a, b) holds (or a == b)",
                  "subtract_one can return the empty difference although a is not assignable to b (a value that can occur is dropped)", so.loc(bi))
    # every empty return is guarded by a == b or is_compatible
    eqs = [(b2, si, s) for b2, si, s in so.stmts() if s["k"] == "assign" and s["rv"]["k"] == "bin" and s["rv"]["op"] == "Eq"]
    for i, e in enumerate(empties):
        guarded = any(so.dominates(bi, e) for bi, _t in ic) or any(so.dominates(b2, e) for b2, _si, _s in eqs if not any(so.dominates(bi, b2) for bi, _t in ic))
        ctx.check(guarded, R, "%s|empty#%d" % (so.key, i), "guarded by a == b or is_compatible(a, b)", "an unguarded empty difference", so.loc(e))
    # fallback of the structural match is vec![a]
    fn = F.fn(so.key)
    ms = [x for x in hir.matches(hir.body_of(fn)) if (x.get("sty") or "").startswith("(&quiver_core::types::Type, &quiver_core::types::Type)")]
    if ms:
        wild = [a for a in ms[-1]["arms"] if hir.is_catch_all(a["pat"])]
        ok = bool(wild) and "a" in hir.local_names(wild[0]["body"]) and not [c for c in hir.call_keys(wild[0]["body"]) if c.endswith("Vec::new")]
        ctx.check(ok, R, so.key + "|fallback", "unmodelled shapes keep the minuend whole (vec![a])", "subtract_one's fallback no longer keeps `a`")


def r4_closed_callees(ctx):
    R = "R-C09-4"
    ctx.rule(R, "the relation is self-contained: check_type_relation calls no workspace function other than itself and TypeLookup::{lookup_type, "
                "lookup_tuple} (a helper that decides part of the relation must be reviewed like the relation itself); is_compatible/types_overlap "
                "start every query with fresh assumption and type-stack sets")
    F = ctx.facts
    allowed = (REL, "quiver_core::types::TypeLookup::lookup_type", "quiver_core::types::TypeLookup::lookup_tuple", "quiver_core::types::Type::is_never")
    keys = F.with_closures(REL)
    bad = set()
    for k in keys:
        b = F.body(k)
        for bi, t in b.calls():
            c = t.get("callee") or ""
            if c.startswith("quiver_") and c not in allowed and not c.startswith(REL + "::{closure"):
                bad.add(c)
    ctx.check(not bad, R, REL + "|callees", "only recursion and TypeLookup accessors are called", "check_type_relation delegates to unreviewed helper(s): %s" % sorted(bad))
    for key in ("quiver_core::types::is_compatible", "quiver_core::types::types_overlap"):
        b = F.body(key)
        fl = Flow(b)
        for bi, t in b.calls():
            if t.get("callee") == REL:
                fresh = []
                for ai in (4, 5):
                    c = fl.canon_op(t["args"][ai])
                    srcs = Flow(b, through_named=True).sources(c[0]) if c else []
                    fresh.append(bool(srcs) and all(x[0] == "call" and ((x[2].get("callee") or "").endswith("HashSet::new") or (x[2].get("callee") or "").endswith("Vec::new")) for x in srcs))
                ctx.check(all(fresh), R, key + "|fresh-state", "assumptions and type_stack are fresh per query", "%s reuses assumption/type-stack state across queries" % key.split("::")[-1], b.loc(bi))
    # callers of check_type_relation: only itself and the two entry points
    callers = sorted({k.split("::{closure")[0] for k, _ in F.callers_of(REL)})
    ctx.check(set(callers) <= {REL, "quiver_core::types::is_compatible", "quiver_core::types::types_overlap"}, R, "callers(check_type_relation)",
              "entered only through is_compatible / types_overlap", "check_type_relation is also called from %s (shared assumption sets are never retracted after a failed hypothesis)"
              % [c for c in callers if c not in (REL, "quiver_core::types::is_compatible", "quiver_core::types::types_overlap")])


def r5_unions_and_check_elision(ctx):
    R = "R-C09-5"
    ctx.rule(R, "(a) union construction is structural: typing::union_type_ids (and whatever it was split into) flattens and drops exact duplicates only — "
                "it never consults the type relation (is_compatible / types_overlap answer optimistically for a dangling Cycle, so 'covered' variants "
                "pruned by them can be recursive ones); (b) a runtime type check is elided only under a static compatibility judgment: in "
                "pattern::type_check_requirements every way through one member that does not push RuntimeCheck::TypeId passes an is_compatible call "
                "whose answer was true")
    F = ctx.facts
    U = "quiver_compiler::compiler::typing::union_type_ids"
    reach = F.reach([U]) | set(F.transparent_callees(U))
    rel = sorted(k for k in reach if k.split("::")[-1] in ("is_compatible", "types_overlap", "check_type_relation", "intersect_types", "subtract_types"))
    ub = F.body(U)
    direct = sorted({(t.get("callee") or "").split("::")[-1] for _b, t in ub.calls() if (t.get("callee") or "").split("::")[-1] in
                     ("is_compatible", "types_overlap", "check_type_relation", "intersect_types")})
    ctx.check(not rel and not direct, R, U + "|structural", "union_type_ids reaches only register_type / never (flatten + exact-duplicate removal)",
              "union construction now consults the type relation (%s): variants judged 'covered' are dropped, but the relation answers optimistically for a "
              "dangling Cycle, so a recursive variant can be lost and values of the union rejected" % (rel or direct), ub.loc(0))
    tb = F.body("quiver_compiler::compiler::pattern::type_check_requirements")
    fl = Flow(tb, through_named=True)
    pushes = []
    for bi, t in tb.calls():
        if (t.get("callee") or "").endswith("Vec::push") and len(t["args"]) > 1 and op_place(t["args"][1]):
            if "pattern::Requirement" in (tb.local_ty(op_place(t["args"][1])["l"]) or ""):
                pushes.append(bi)
    if not pushes:
        raise CheckError("%s: the Requirement push of type_check_requirements was not found" % R)
    nexts = [bi for bi, t in tb.calls() if (t.get("callee") or "").endswith("Iterator::next") and any(tb.reaches(p_, bi) and tb.reaches(bi, p_) for p_ in pushes)]
    if not nexts:
        raise CheckError("%s: the member loop of type_check_requirements was not found" % R)
    hb = nexts[0]
    for n2 in nexts:
        if tb.dominates(hb, n2) and n2 != hb:
            hb = n2 if all(tb.dominates(n2, p_) for p_ in pushes) else hb
    compat = [(bi, t) for bi, t in tb.calls() if (t.get("callee") or "").split("::")[-1] == "is_compatible"]
    force = {}
    for bi, t in compat:
        force[t["dest"]["l"]] = 0
    from qvlib.paths import discr_switches, err_blocks, diverging_blocks
    some_edges = []
    for swb, mp, other in discr_switches(tb, tb.blocks[hb]["term"]["dest"]["l"]):
        some_edges.append(mp.get(1, other))
    bad = None
    for e_ in some_edges:
        # with every compatibility judgment answering "no", can an iteration still skip the check?
        start = (e_, dict((l, 0) for l in force))
        bad = bad or explore(tb, [start], avoid=pushes, stop=err_blocks(tb) | diverging_blocks(tb), want="target", targets=[hb], force=force)
    ctx.check(bool(compat) and bool(some_edges) and bad is None, R, tb.key + "|elision-needs-compatibility",
              "a member's runtime check is skipped only when is_compatible(value type, member) held (%d judgment(s))" % len(compat),
              "a type assertion's runtime check can be skipped without the value type being compatible with the asserted type (an unchanged intersection "
              "only means the types OVERLAP): a value outside the asserted type takes the branch", tb.loc(pushes[0]))


def r6_narrowing_state(ctx):
    R = "R-C09-6"
    ctx.rule(R, "the branch-complement state machine (narrowing::Narrowing): the type a complement is taken AGAINST (`Active.original_type_id`) and the "
                "value it belongs to (`Active.provenance`) are fixed when the narrowing becomes Active — never written in place; a repeated check of the "
                "same value only narrows `narrowed_type_id`, by intersect_types(<its old value>, ..). (later branches see original \\ narrowed: resetting the "
                "original to an already narrowed type subtracts every value that failed the first check)")
    F = ctx.facts
    NARR = "narrowing::Narrowing"
    SAFE = ("PartialEq::eq", "PartialEq::ne", "Clone::clone", "Debug::fmt", "Deref::deref")
    n = 0
    for body in F.bodies(crate="quiver_compiler"):
        if body.fn.get("derived"):
            continue
        fl = Flow(body, through_named=True)
        for bi, si, st in body.stmts():
            if st["k"] != "assign":
                continue
            # direct write:  ((*x) as Active).f = v
            fs = [e for e in st["p"]["pr"] if e[0] == "f"]
            tgt = None
            if fs and (fs[-1][2] or "").endswith(NARR) and fs[-1][1] in ("original_type_id", "provenance", "narrowed_type_id"):
                tgt = (fs[-1][1], st, bi, si)
            # write through a `&mut` taken of the field (match ergonomics on `&mut self`)
            if st["rv"]["k"] == "ref" and st["rv"].get("mut"):
                fr = [e for e in st["rv"]["p"]["pr"] if e[0] == "f"]
                if fr and (fr[-1][2] or "").endswith(NARR) and fr[-1][1] in ("original_type_id", "provenance", "narrowed_type_id"):
                    y = st["p"]["l"]
                    grp = {y}
                    for _ in range(4):
                        for b2, s2, st2 in body.stmts():
                            if st2["k"] == "assign" and not st2["p"]["pr"] and st2["rv"]["k"] in ("use", "ref"):
                                pl = st2["rv"].get("p") or op_place(st2["rv"].get("op") or {})
                                if pl and pl["l"] in grp and (st2["rv"]["k"] == "use" or st2["rv"].get("mut")):
                                    grp.add(st2["p"]["l"])
                    for b2, s2, st2 in body.stmts():
                        if st2["k"] == "assign" and st2["p"]["l"] in grp and st2["p"]["pr"] and st2["p"]["pr"][0][0] == "*":
                            tgt = (fr[-1][1], st2, b2, s2)
                            break
                    else:
                        for b2, t2 in body.calls():
                            if any((op_place(a) or {}).get("l") in grp and not (op_place(a) or {}).get("pr") and a.get("c") == "move" for a in t2["args"]) and \
                                    not any((t2.get("callee") or "").endswith(x) for x in SAFE):
                                tgt = (fr[-1][1], None, b2, None)
            if not tgt:
                continue
            fname, wst, wb, ws = tgt
            n += 1
            site = "%s|Active.%s=" % (body.key.split("::{closure")[0], fname)
            if fname in ("original_type_id", "provenance"):
                ctx.violated(R, site, "an Active narrowing's %s is rewritten in place: the complement for the following branches is then taken against a type "
                                      "other than the one the value had at the first check — values that failed the first check are subtracted away and their "
                                      "branch is compiled out as dead" % fname, body.loc(wb, ws) if ws is not None else body.loc(wb))
            else:
                ok = False
                if wst is not None and wst["rv"]["k"] == "use" and op_place(wst["rv"]["op"]):
                    srcs = fl.sources(op_place(wst["rv"]["op"])["l"])
                    calls = [x for x in srcs if x[0] == "call"]
                    ok = bool(calls) and len(calls) == len(srcs) and all((x[2].get("callee") or "").endswith("intersect_types") for x in calls)
                    for x in calls:
                        olds = set()
                        for a in x[2]["args"]:
                            pl = op_place(a)
                            if pl:
                                olds |= {f for _o, f in fl.slice_reads(pl["l"])[0]}
                        ok = ok and "narrowed_type_id" in olds
                ctx.check(ok, R, site, "narrowed_type_id := intersect_types(old narrowed_type_id, new)",
                          "a repeated check overwrites the narrowed type instead of intersecting it with the old one", body.loc(wb, ws) if ws is not None else body.loc(wb))
    ctx.floor(R, "in-place updates of an Active narrowing", n, 1)


def r7_narrowing_scope(ctx):
    """a narrowing (whole-variable or per-field) applies only to the binding it was recorded for — shared with R-C01-5"""
    from rules import c01
    before = len(ctx.obs)
    c01.r5_narrowing_belongs_to_its_binding(ctx)
    for o in ctx.obs[before:]:
        o["rule"] = "R-C09-7"
    if "R-C01-5" in ctx.rules:
        ctx.rules["R-C09-7"] = ctx.rules.pop("R-C01-5")
    for f in ctx.floors:
        if f["rule"] == "R-C01-5":
            f["rule"] = "R-C09-7"


def run(ctx):
    ctx.run_rules([r1_polarity, r2_matrix, r3_narrowing_direction, r4_closed_callees, r5_unions_and_check_elision, r6_narrowing_state, r7_narrowing_scope])
    ctx.note("NOT decided: soundness/transitivity of the coinductive relation over all type graphs; completeness of overlap inside structural arms "
             "(e.g. partial-vs-partial patterns are limited by the compiler's static field indexing, observation F14 in DESIGN.md)")
    return (
        "Decides shape conditions of the relation: quantifier polarity per arm and mode, callable variance, the variant-pair coverage matrix (no "
        "same-kind pair falls to `_ => false`), the direction of the narrowing fallbacks, and that the relation is closed (no unreviewed helper, "
        "fresh coinductive state per query). The relation's soundness over all closed contractive types is NOT decided.",
        "obligations are the 121 ordered variant pairs, the arms' quantifier/variance shapes and the narrowing fallback returns; discharged by HIR "
        "pattern-matrix evaluation and MIR guarded reachability",
    )
