"""C12 — builtins are total (no panic / overflow / truncation on any argument) and representation independent (structural part)."""
import json
import os
from collections import Counter, defaultdict

from qvlib import hir
from qvlib.extract import VERIF, CheckError
from qvlib.facts import mir_refs, op_place
from qvlib.intervals import INT_RANGES, Intervals, ty_range
from qvlib.paths import Flow, agg_sites, call_matches, explore

CRATES = ["quiver_core"]
OPTIONAL_FNS = ("BinaryData::write_to_vec",)      # R-C12-6 falls back to to_vec when the flattening loop lives there
TABLE_PATH = os.path.join(VERIF, "rules", "tables", "c12.json")
TABLE = json.load(open(TABLE_PATH)) if os.path.exists(TABLE_PATH) else {"residual": {}}
REGS = ("register_binary_builtins", "register_integer_builtins", "register_vector_builtins")
PANIC_CALLS = ("unwrap", "expect", "panic_fmt", "panic", "unreachable_display", "panic_display", "assert_failed", "panic_explicit", "unwrap_failed", "expect_failed")
INDEX_CALLS = ("index", "index_mut", "copy_from_slice", "split_at", "split_at_mut", "swap", "remove", "insert", "split_off", "drain", "swap_remove", "truncate_front")
SIZE_CALLS = ("with_capacity", "from_elem", "resize", "reserve", "reserve_exact", "repeat")
ALLOC_LIMIT = 2 ** 26
LOOP_LIMIT = 2 ** 28


DEFAULT_WHY = {
    "loop": "reviewed: the iteration count is a difference of offsets bounded by the bit width (<= 9 bytes) or a rope's tile count already bounded by its checked length",
    "index": "reviewed: indexing guarded by a length/arity test in the same function or offsets derived from a checked total; not expressible in the interval domain",
    "panic": "reviewed: unwrap/expect/unreachable on a value whose presence was established just before",
    "overflow": "reviewed: operands bounded by a relation the interval domain cannot express (offsets <= len after the bounds tests, bit counts in 1..=64, tile arithmetic bounded by the rope's length)",
    "cast": "reviewed: value in range by a preceding BigInt sign test or fits() check, or a documented two's-complement reinterpretation",
    "alloc": "reviewed: size equals the length of an existing binary or was checked against MAX_BINARY_SIZE just above",
    "remzero": "reviewed: divisor non-zero by construction (tiled() normalises empty units; checked_width returns 4 or 8)",
    "divzero": "reviewed: divisor non-zero by construction",
}


def builtin_roots(F):
    roots = set()
    for reg in REGS:
        b = F.body("quiver_core::builtins::" + reg)
        for ref in mir_refs(b.mir):
            if ref in F.fns and "::builtin_" in ref and ref.startswith("quiver_core::builtins::"):
                roots.add(ref)
    return roots


def reach_set(F, roots):
    reach = F.reach(sorted(roots))
    return {k for k in reach if F.fns[k]["crate"] == "quiver_core" and not F.fns[k].get("derived") and F.fns[k].get("mir")}


def guarded_index(body, flow, fln, bi, t):
    """`coll[idx]` is safe when a dominating comparison `idx' < len(coll')` (same value groups) can only reach it on its true outcome."""
    if len(t["args"]) < 2:
        return None
    idx = op_place(t["args"][1])
    coll = flow.canon_op(t["args"][0])
    if idx is None or coll is None:
        return None
    if "Range" in body.local_ty(idx["l"]):
        return None
    igrp = fln.backward({idx["l"]}, through_calls=()) | {idx["l"]}
    for b2, si, s in body.stmts():
        if s["k"] != "assign" or s["rv"]["k"] != "bin" or s["rv"]["op"] not in ("Lt", "Le", "Gt", "Ge"):
            continue
        if not body.dominates(b2, bi):
            continue
        l, r = op_place(s["rv"]["l"]), op_place(s["rv"]["r"])
        op = s["rv"]["op"]
        if l is None or r is None:
            continue
        # normalise to  small < big
        if op in ("Gt", "Ge"):
            l, r = r, l
            op = {"Gt": "Lt", "Ge": "Le"}[op]
        if op != "Lt":
            continue
        if not ({l["l"]} | fln.backward({l["l"]}, through_calls=())) & igrp and l["l"] not in igrp:
            continue
        # r must be len() of the same collection
        srcs = fln.sources(r["l"])
        lens = [x for x in srcs if x[0] == "call" and (x[2].get("callee") or "").split("::")[-1] == "len"]
        if not lens:
            continue
        same = any(flow.canon_op(x[2]["args"][0]) and flow.canon_op(x[2]["args"][0])[0] == coll[0] for x in lens)
        if not same:
            continue
        # the index expression itself must be the compared expression (same local or same defining rvalue text)
        cmp_local = l["l"]
        if cmp_local != idx["l"]:
            d1 = [json.dumps(d[2]["rv"], sort_keys=True) for d in body.defs().get(cmp_local, []) if d[1] != "term"]
            d2 = [json.dumps(d[2]["rv"], sort_keys=True) for d in body.defs().get(idx["l"], []) if d[1] != "term"]

            def norm(rvj):
                rv = json.loads(rvj)
                for k in ("sp",):
                    rv.pop(k, None)
                return rv.get("k"), rv.get("op"), json.dumps(rv.get("l"), sort_keys=True), json.dumps(rv.get("r"), sort_keys=True)
            # compare through the overflow-checked pair: `_a = AddWithOverflow(i, s); _b = _a.0`
            def base(loc):
                out = set()
                for d in body.defs().get(loc, []):
                    if d[1] == "term":
                        continue
                    rv = d[2]["rv"]
                    if rv["k"] == "use" and op_place(rv["op"]) and op_place(rv["op"])["pr"]:
                        for d3 in body.defs().get(op_place(rv["op"])["l"], []):
                            if d3[1] != "term" and d3[2]["rv"]["k"] == "bin":
                                rv3 = d3[2]["rv"]
                                out.add((rv3["op"], json.dumps(flow.canon_op(rv3["l"])), json.dumps(flow.canon_op(rv3["r"])) if rv3["r"].get("p") else json.dumps(rv3["r"].get("val"))))
                    elif rv["k"] == "use" and op_place(rv["op"]):
                        out |= base(op_place(rv["op"])["l"])
                return out
            if not (base(cmp_local) & base(idx["l"])) and flow.canon_place(l) != flow.canon_place(idx):
                continue
        # reachable only on the true outcome
        from qvlib.paths import explore as ex
        force_false = {(b2, si): (0 if s["rv"]["op"] in ("Lt", "Le") else 1)}
        if ex(body, [b2], want="target", targets=[bi], force=force_false) is None:
            return "index guarded by a dominating `idx < len()` test on the same collection"
    return None


SHRINKERS = ("remove", "truncate", "clear", "pop", "drain", "retain", "retain_mut", "swap_remove", "split_off", "dedup", "dedup_by", "dedup_by_key", "pop_front",
             "pop_back", "take")


def position_index(body, flow, fln, bi, t):
    """`coll[p]` where p is the payload of `coll.iter().position(..)` (or rposition) over the SAME collection, and nothing in the function shrinks
    that collection: in bounds by construction."""
    if len(t["args"]) < 2:
        return None
    idx = op_place(t["args"][1])
    coll = fln.canon_op(t["args"][0])
    if idx is None or coll is None or idx["pr"]:
        return None
    srcs = fln.sources(idx["l"], through_calls=("Try::branch", "Option::unwrap", "Option::expect", "Option::ok_or", "Option::ok_or_else", "Result::unwrap", "Result::expect"))
    pos = [x for x in srcs if x[0] == "call" and (x[2].get("callee") or "").split("::")[-1] in ("position", "rposition") and "Iterator" in (x[2].get("callee") or "")]
    if not pos or len(pos) != len(srcs):
        return None
    for x in pos:
        recv = op_place(x[2]["args"][0])
        if recv is None:
            return None
        same = False
        for l in fln.backward({recv["l"]}, through_calls=("slice::iter", "Deref::deref", "Vec::iter", "IntoIterator::into_iter", "VecDeque::iter")):
            for _b, si, d in fln.defs.get(l, []):
                if si == "term":
                    for a in d["args"][:1]:
                        c = fln.canon_op(a)
                        if c and c == coll:
                            same = True
                elif d["rv"]["k"] == "ref" and fln.canon_place(d["rv"]["p"]) == coll:
                    same = True
        if not same:
            return None
    for b2, t2 in body.calls():
        m = (t2.get("callee") or "").split("::")[-1]
        if m in SHRINKERS and t2["args"]:
            c = fln.canon_op(t2["args"][0])
            if c and c == coll:
                return None
    return "index is the result of position() over the same collection, which nothing here shrinks"


def enumerate_index(body, flow, fln, bi, t):
    """`b[i]` where i is the counter of `a.iter().enumerate()`: in bounds when a IS b, or when a dominating `a.len() == b.len()` test lets control
    reach the index only on its equal outcome — and nothing in the function shrinks b."""
    if len(t["args"]) < 2:
        return None
    idx = op_place(t["args"][1])
    coll = fln.canon_op(t["args"][0])
    if idx is None or coll is None or idx["pr"]:
        return None
    ci = fln.canon_local(idx["l"])
    fs = [e for e in ci[1] if e[0] == "f"]
    nxt = None
    for b2, t2 in body.calls():
        if t2["dest"]["l"] == ci[0] and (t2.get("callee") or "").endswith("Iterator::next"):
            nxt = (b2, t2)
    # the counter is column 0 of the item of an Enumerate iterator
    if nxt is None or len(fs) < 2 or str(fs[1][1]) != "0":
        return None
    itp = op_place(nxt[1]["args"][0])
    if itp is None:
        return None
    ITER = ("slice::iter", "Deref::deref", "Vec::iter", "IntoIterator::into_iter", "Iterator::enumerate", "VecDeque::iter", "slice::iter_mut", "Vec::iter_mut", "DerefMut::deref_mut")
    back = fln.backward({itp["l"]}, through_calls=ITER)
    if not any("Enumerate<" in (body.local_ty(x) or "") for x in back):
        return None
    if any((t2.get("callee") or "").split("::")[-1] in ("skip", "step_by", "chain", "zip", "flat_map", "rev", "map") and t2["dest"]["l"] in back for _b, t2 in body.calls()):
        return None
    srcs = set()
    for l in back:
        for _b, si, d in fln.defs.get(l, []):
            if si == "term":
                if (d.get("callee") or "").split("::")[-1] in ("iter", "iter_mut", "into_iter", "deref", "deref_mut") and d["args"]:
                    c = fln.canon_op(d["args"][0])
                    if c:
                        srcs.add(c)
            elif d["rv"]["k"] == "ref":
                srcs.add(fln.canon_place(d["rv"]["p"]))
    srcs = {c for c in srcs if c[1] or c[0] <= body.mir["argc"] or body.local_name(c[0])}
    for b2, t2 in body.calls():
        if (t2.get("callee") or "").split("::")[-1] in SHRINKERS and t2["args"] and fln.canon_op(t2["args"][0]) == coll:
            return None
    if coll in srcs:
        return "index is the enumerate() counter of an iteration over the same collection, which nothing here shrinks"
    # a dominating length-equality test between the enumerated collection and the indexed one
    from qvlib.paths import explore as ex

    def len_of(o):
        pl = op_place(o)
        if not pl:
            return None
        for x in fln.sources(pl["l"]):
            if x[0] == "call" and (x[2].get("callee") or "").split("::")[-1] == "len" and x[2]["args"]:
                return fln.canon_op(x[2]["args"][0])
        return None
    for b2, si, st in body.stmts():
        if st["k"] == "assign" and st["rv"]["k"] == "bin" and st["rv"]["op"] in ("Eq", "Ne") and body.dominates(b2, bi):
            la, lb = len_of(st["rv"]["l"]), len_of(st["rv"]["r"])
            if la is None or lb is None:
                continue
            if (la == coll and lb in srcs) or (lb == coll and la in srcs):
                unequal = 0 if st["rv"]["op"] == "Eq" else 1
                if ex(body, [b2], want="target", targets=[bi], force={(b2, si): unequal}) is None:
                    return "index is the enumerate() counter of a collection whose length was tested equal to the indexed one's"
    return None


def guarded_bounds(body, flow, fln, bi, t):
    """the MIR bounds assert of a slice / array index `s[idx]` (ops = [len, idx]) under the same dominating `idx < s.len()` test that
    guarded_index recognises for Vec indexing."""
    if len(t.get("ops") or []) < 2:
        return None
    lp = op_place(t["ops"][0])
    if lp is None:
        return None
    for d in body.defs().get(lp["l"], []):
        if d[1] == "term":
            continue
        rv = d[2]["rv"]
        if rv["k"] == "un" and rv.get("op") == "PtrMetadata" and rv.get("x"):
            return guarded_index(body, flow, fln, bi, {"args": [rv["x"], t["ops"][1]]})
        if rv["k"] in ("len",) and rv.get("p"):
            return guarded_index(body, flow, fln, bi, {"args": [{"c": "copy", "p": rv["p"]}, t["ops"][1]]})
    return None


def summaries(F, reach, roots):
    """two-pass context: return summaries of local callees and parameter ranges joined over all call sites inside the reach set"""
    from qvlib.intervals import join, return_summary
    summ = {}
    for k in sorted(reach):
        try:
            v, pz, _iv = return_summary(F.body(k))
        except Exception:
            v, pz = None, None
        if v is not None or pz is not None:
            summ[k] = (v, pz)
    params = {}
    for _round in range(2):
        site_args = defaultdict(list)
        for k in sorted(reach):
            b = F.body(k)
            iv = Intervals(b, call_summaries=summ, param_ranges=params.get(k)).run()
            for bi, t in b.calls():
                c = t.get("callee")
                if c in reach and c not in roots and bi in iv.call_arg_facts:
                    site_args[c].append(iv.call_arg_facts[bi])
        newp = {}
        for c, lists in site_args.items():
            # every caller of c must be inside the reach set, otherwise its parameters are unconstrained
            callers = {ck.split("::{closure")[0] for ck, _b in F.callers_of(c)}
            if not callers <= {r.split("::{closure")[0] for r in reach}:
                continue
            pr = {}
            argc = F.body(c).mir["argc"]
            for i in range(argc):
                cur = None
                okp = True
                for args in lists:
                    if i >= len(args) or args[i] is None:
                        okp = False
                        break
                    cur = join(cur, args[i])
                if okp and cur is not None:
                    pr[i + 1] = cur
            if pr:
                newp[c] = pr
        params = newp
    return summ, params


def checked_mul_guard(body, flow, fln, bi, t):
    """size = a * b is safe when a dominating `a.checked_mul(b)` feeds a boolean test one of whose outcomes cannot reach the sink
    (`checked_mul(..).is_none_or(|total| total > LIMIT)` -> return Err)."""
    sizes = [op_place(a)["l"] for a in t["args"] if op_place(a) and body.local_ty(op_place(a)["l"]) == "usize"]
    if not sizes:
        return None
    roots = set()
    for l in sizes:
        roots |= fln.backward({l}, through_calls=("Try::branch", "Option::unwrap", "Clone::clone")) | {l}
    for b2, t2 in body.calls():
        if (t2.get("callee") or "").split("::")[-1] != "checked_mul" or not body.dominates(b2, bi):
            continue
        ops = set()
        for a in t2["args"]:
            p = op_place(a)
            if p:
                ops |= fln.backward({p["l"]}, through_calls=("Try::branch", "Option::unwrap", "Clone::clone")) | {p["l"]}
        if not (ops & roots):
            continue
        fw = flow.forward({t2["dest"]["l"]})
        for b3, t3 in body.calls():
            if (t3.get("callee") or "").split("::")[-1] in ("is_none_or", "is_some_and", "map_or", "is_none", "is_some") and t3["args"] and (op_place(t3["args"][0]) or {}).get("l") in fw:
                r = t3["dest"]["l"]
                for val in (0, 1):
                    if all(explore(body, [(x, {r: val})], want="target", targets=[bi], avoid=[b3]) is None for x in body.succ[b3]) and body.dominates(b3, bi):
                        return "size product checked with checked_mul(..) and rejected before the allocation"
    return None


def const_index_under_arity(body, flow, fln, bi, t):
    """`coll[c]` with a constant c is safe when a dominating test on `coll.len()` guarantees len > c on the only outcome that reaches it
    (`if elements.len() == 4`, `len >= 2`, `len < 2 { return }`)."""
    if len(t["args"]) < 2 or t["args"][1].get("c") != "const" or "val" not in t["args"][1]:
        return None
    c = t["args"][1]["val"]
    coll = flow.canon_op(t["args"][0])
    if coll is None:
        return None
    for b2, si, s in body.stmts():
        if s["k"] != "assign" or s["rv"]["k"] != "bin" or s["rv"]["op"] not in ("Eq", "Ge", "Gt", "Lt", "Le", "Ne"):
            continue
        if not body.dominates(b2, bi):
            continue
        l, r = s["rv"]["l"], s["rv"]["r"]
        op = s["rv"]["op"]
        if l.get("c") == "const" and op_place(r):
            l, r = r, l
            op = {"Ge": "Le", "Gt": "Lt", "Le": "Ge", "Lt": "Gt"}.get(op, op)
        if r.get("c") != "const" or "val" not in r or not op_place(l):
            continue
        n = r["val"]
        srcs = fln.sources(op_place(l)["l"])
        lens = [x for x in srcs if x[0] == "call" and (x[2].get("callee") or "").split("::")[-1] == "len"]
        if not lens or not any(flow.canon_op(x[2]["args"][0]) and flow.canon_op(x[2]["args"][0])[0] == coll[0] for x in lens):
            continue
        for truth in (1, 0):
            if explore(body, [b2], want="target", targets=[bi], force={(b2, si): 1 - truth}) is not None:
                continue   # the other outcome also reaches the sink
            # only `truth` reaches the sink: lower bound on len under it
            lb = None
            if truth == 1:
                lb = {"Eq": n, "Ge": n, "Gt": n + 1}.get(op)
            else:
                lb = {"Lt": n, "Le": n + 1, "Ne": n}.get(op)
            if lb is not None and lb > c:
                return "constant index %d under a dominating length test (len >= %d on the only outcome that reaches it)" % (c, lb)
    return None


def guarded_unwrap(body, flow, fln, bi, t):
    """`lookup(k).unwrap()` is safe when a dominating `lookup'(k).is_some()` / `contains_key(k)` on the same key can only reach it on its true outcome."""
    if not t["args"] or not op_place(t["args"][0]):
        return None
    srcs = fln.sources(op_place(t["args"][0])["l"])
    look = [x for x in srcs if x[0] == "call" and (x[2].get("callee") or "").split("::")[-1] in ("get_process_mut", "get_process", "get", "get_mut")]
    if len(look) != 1 or len(look[0][2]["args"]) < 2:
        return None
    key = flow.canon_op(look[0][2]["args"][1])
    if key is None:
        return None
    for b2, t2 in body.calls():
        m = (t2.get("callee") or "").split("::")[-1]
        if m not in ("is_some", "contains_key") or not body.dominates(b2, bi):
            continue
        ok_key = False
        if m == "contains_key" and len(t2["args"]) >= 2:
            ok_key = flow.canon_op(t2["args"][1]) == key
        elif m == "is_some" and op_place(t2["args"][0]):
            s2 = fln.sources(op_place(t2["args"][0])["l"])
            l2 = [x for x in s2 if x[0] == "call" and (x[2].get("callee") or "").split("::")[-1] in ("get_process_mut", "get_process", "get", "get_mut")]
            ok_key = len(l2) == 1 and len(l2[0][2]["args"]) >= 2 and flow.canon_op(l2[0][2]["args"][1]) == key
        if not ok_key:
            continue
        r = t2["dest"]["l"]
        if all(explore(body, [(x, {r: 0})], want="target", targets=[bi], avoid=[b2]) is None for x in body.succ[b2]):
            return "unwrap of a lookup that a dominating is_some()/contains_key() on the same key established"
    return None


def collect_sinks(F, key, summ=None, params=None):
    body = F.body(key)
    flow = Flow(body)
    fln = Flow(body, through_named=True)
    iv = Intervals(body, call_summaries=summ or {}, param_ranges=(params or {}).get(key)).run()
    sinks = []   # (kind, loc, discharged-why or None, detail)
    for bi, blk in enumerate(body.blocks):
        if blk.get("cleanup") or bi not in iv.state_in:
            continue
        t = blk["term"]
        if t["k"] == "assert":
            msg = t["msg"]
            if msg.startswith("other"):
                continue
            fact = iv.assert_facts.get(bi)
            ok = fact and fact[1]
            detail = {"ops": [list(o) if o else None for o in (fact[2] if fact else [])]}
            why_a = "interval analysis: operands %s cannot trip it" % detail["ops"] if ok else None
            if why_a is None and msg == "bounds":
                why_a = guarded_bounds(body, flow, fln, bi, t)
            sinks.append((msg, body.loc(bi), why_a, dict(detail, inl=blk.get("inl"))))
        elif t["k"] == "call":
            c = t.get("callee") or ""
            m = c.split("::")[-1]
            if m in PANIC_CALLS and ("core::" in c or "std::" in c):
                why = guarded_unwrap(body, flow, fln, bi, t) if m in ("unwrap", "expect") else None
                sinks.append(("panic:" + m, body.loc(bi), why, {"inl": blk.get("inl")}))
            elif m in INDEX_CALLS and ("core::" in c or "alloc::" in c or "std::" in c) and len(t["args"]) >= 2 and (
                    m in ("index", "index_mut") or "vec::Vec" in c or "vec_deque" in c or "slice" in c or "::str::" in c or "string::String" in c):
                why = None
                if m in ("index", "index_mut"):
                    why = guarded_index(body, flow, fln, bi, t) or const_index_under_arity(body, flow, fln, bi, t) or position_index(body, flow, fln, bi, t) or enumerate_index(body, flow, fln, bi, t)
                    if why is None:
                        # constant index into a collection whose length was just checked is left to the census
                        pass
                sinks.append(("index:" + m, body.loc(bi), why, {"inl": blk.get("inl")}))
            elif (m in SIZE_CALLS and ("alloc::" in c or "std::" in c or "core::" in c)) or c in ("quiver_core::binary::BinaryData::tiled", "quiver_core::binary::BinaryData::zeroed"):
                args = iv.call_arg_facts.get(bi) or []
                sizes = [a for a, o in zip(args, t["args"]) if a is not None and op_place(o) is not None and ty_range(body.local_ty(op_place(o)["l"])) or (o.get("c") == "const" and "val" in o)]
                # the size operand: first usize-typed argument
                size = None
                for a, o in zip(args, t["args"]):
                    p = op_place(o)
                    ty = body.local_ty(p["l"]) if p else o.get("ty")
                    if ty == "usize":
                        size = a
                        break
                ok = size is not None and size[1] <= ALLOC_LIMIT
                why = "interval analysis: size <= %s" % (size[1] if size else "?") if ok else None
                if not ok:
                    why = checked_mul_guard(body, flow, fln, bi, t)
                sinks.append(("alloc:" + m, body.loc(bi), why, {"size": list(size) if size else None, "inl": blk.get("inl")}))
            elif m in ("div", "rem", "div_assign", "rem_assign", "div_rem", "div_floor", "mod_floor", "div_euclid", "rem_euclid") and ("BigInt" in (t.get("self_ty") or "") + str(t.get("gargs")) or "num_" in c):
                # BigInt division panics on zero: needs a dominating is_zero() test
                z = [b2 for b2, t2 in body.calls() if (t2.get("callee") or "").split("::")[-1] == "is_zero" and body.dominates(b2, bi)]
                why = None
                for b2 in z:
                    r = body.blocks[b2]["term"]["dest"]["l"]
                    if all(explore(body, [(x, {r: 1})], want="target", targets=[bi], avoid=[b2]) is None for x in body.succ[b2]):
                        why = "divisor tested with is_zero() on every path"
                sinks.append(("bigdiv:" + m, body.loc(bi), why, {"inl": blk.get("inl")}))
    # loop bounds: a Range that is iterated must have a bounded end (a user-sized loop hangs the worker)
    for (bi, si), (lo, hi) in iv.range_facts.items():
        st_ = body.blocks[bi]["stmts"][si]
        dl = st_["p"]["l"]
        iterated = any(call_matches(t2, ("IntoIterator::into_iter", "Iterator::rev")) and op_place(t2["args"][0]) and op_place(t2["args"][0])["l"] in flow.forward({dl})
                       for _b2, t2 in body.calls() if t2["args"])
        if not iterated:
            continue   # a slice range, not a loop
        ok = hi is not None and hi[1] <= LOOP_LIMIT
        sinks.append(("loop:range", body.loc(bi, si), "interval analysis: at most %s iterations" % (hi[1] if hi else "?") if ok else None,
                      {"end": list(hi) if hi else None, "inl": body.blocks[bi].get("inl")}))
    for (bi, si), (frm, to, a, fits) in iv.cast_facts.items():
        fr, tr = INT_RANGES.get(frm), INT_RANGES.get(to)
        if fr and tr and (fr[0] < tr[0] or fr[1] > tr[1]):
            sinks.append(("cast:%s->%s" % (frm, to), body.loc(bi, si), "interval analysis: value in %s fits" % (list(a),) if fits else None,
                          {"iv": list(a), "inl": body.blocks[bi].get("inl")}))
    return sinks


def r1_sinks(ctx):
    R = "R-C12-1"
    ctx.rule(R, "totality of the pure builtins: in the transitive local callees of every function registered by register_{binary,integer,vector}_builtins, "
                "each overflow / division / bounds assert, narrowing or sign-changing cast, indexing call, allocation size, explicit panic and BigInt "
                "division is discharged by an interval analysis with branch refinement (or the guarded-index pattern), or is within the reviewed "
                "per-(function, kind) residual ceiling with its invariant; a new undischarged sink is reported")
    F = ctx.facts
    _r1_sinks(ctx, R, F)


def _r1_sinks(ctx, R, F):
    roots = builtin_roots(F)
    ctx.floor(R, "registered pure builtins", len(roots), 45)
    reach = reach_set(F, roots)
    ctx.floor(R, "functions reachable from the builtins", len(reach), 90)
    residual = defaultdict(list)
    discharged = 0
    total = 0
    summ, params = summaries(F, reach, roots)
    ctx.extra["c12_return_summaries"] = {k.split("::")[-1]: [list(x) if x else None for x in v] for k, v in sorted(summ.items())[:40]}
    ctx.extra["c12_param_ranges"] = {k.split("::")[-1]: {str(i): list(r) for i, r in v.items()} for k, v in sorted(params.items())}
    from rules.census import gather

    def collect(key):
        try:
            return collect_sinks(F, key, summ, params)
        except RecursionError:
            raise CheckError("interval analysis did not terminate on %s" % key)
    residual, total, discharged = gather(ctx, R, F, reach, collect)
    ctx.extra["c12_sinks_total"] = total
    ctx.extra["c12_sinks_discharged_automatically"] = discharged
    if os.environ.get("QV_C12_GEN") == "1":
        tbl = {"residual": {}}
        from rules.census import base_fn
        merged = defaultdict(list)
        for (key, kind), items in residual.items():
            merged[(base_fn(key), kind)] += items
        for (key, kind), items in sorted(merged.items()):
            old = TABLE["residual"].get("%s|%s" % (key, kind), {})
            tbl["residual"]["%s|%s" % (key, kind)] = {"ceiling": len(items), "why": old.get("why") or DEFAULT_WHY.get(kind.split(":")[0], "TODO"), "at": [i[0].split(":")[-1] for i in items]}
        json.dump(tbl, open(TABLE_PATH, "w"), indent=1)
        ctx.note("residual table regenerated: %d entries" % len(tbl["residual"]))
        return
    from rules.census import reconcile
    reconcile(ctx, R, residual, TABLE["residual"],
              "unreviewed %s sink in a builtin's reach set (not discharged by the interval analysis): a user-supplied argument may panic the worker or be "
              "truncated here",
              "%d undischarged %s sink(s), reviewed ceiling is %d (%s): a new panic/overflow-capable construct was added")


def r3_size_limit(ctx):
    R = "R-C12-3"
    ctx.rule(R, "the size limit is a choke point: new heap data enters Executor.heap only in allocate_binary_data after the len() > MAX_BINARY_SIZE "
                "test (materialize's in-place flattening is content preserving); every builtin reaches the heap only through allocate_binary(_data)")
    F = ctx.facts
    ab = F.body("quiver_core::executor::Executor::allocate_binary_data")
    fl = Flow(ab)
    stores = []
    for bi, t in ab.calls():
        c = t.get("callee") or ""
        if c.endswith("Vec::push") and fl.mentions_field(fl.canon_op(t["args"][0]) or (0, ()), "executor::Executor", "heap"):
            stores.append(bi)
        if call_matches(t, ("IndexMut::index_mut",)) and fl.mentions_field(fl.canon_op(t["args"][0]) or (0, ()), "executor::Executor", "heap"):
            stores.append(bi)
    ctx.floor(R, "heap stores in allocate_binary_data", len(stores), 2)
    cmp_ = [(bi, si, s) for bi, si, s in ab.stmts() if s["k"] == "assign" and s["rv"]["k"] == "bin" and s["rv"]["op"] in ("Gt", "Ge", "Lt", "Le")]
    fln = Flow(ab, through_named=True)
    guard = None
    for bi, si, s in cmp_:
        callees = set()
        for o in (s["rv"]["l"], s["rv"]["r"]):
            p = op_place(o)
            if p:
                callees |= fln.slice_reads(p["l"])[3]
        consts = [o for o in (s["rv"]["l"], s["rv"]["r"]) if o.get("c") == "const"]
        if any(c.endswith("BinaryData::len") for c in callees) and consts:
            guard = (bi, si, s)
    ok = guard is not None
    if ok:
        bi, si, s = guard
        # stores unreachable when len > MAX (Gt true)
        val = 1 if s["rv"]["op"] in ("Gt", "Ge") else 0
        ok = all(explore(ab, [bi], want="target", targets=[st], force={(bi, si): val}) is None for st in stores) and all(ab.dominates(bi, st) for st in stores)
    ctx.check(ok, R, ab.key + "|limit", "every heap store is dominated by the len() > MAX_BINARY_SIZE test and unreachable when it holds",
              "data can be stored on the heap without passing the MAX_BINARY_SIZE test", ab.loc(0))
    # builtins never touch Executor.heap directly
    roots = builtin_roots(F)
    reach = reach_set(F, roots)
    offenders = []
    for k in reach:
        if k.startswith("quiver_core::executor::Executor::"):
            continue
        b = F.body(k)
        fl2 = Flow(b)
        for bi, si, s in b.stmts():
            if s["k"] == "assign":
                pl = s["rv"].get("p") or (op_place(s["rv"]["op"]) if isinstance(s["rv"].get("op"), dict) else None)
                for pp in (s["p"], pl):
                    if pp and any(e[0] == "f" and e[1] in ("heap", "refcounts", "free", "freed", "pending_free") and (e[2] or "").endswith("executor::Executor") for e in pp["pr"]):
                        offenders.append(k)
    ctx.check(not offenders, R, "builtins|no-direct-heap", "no builtin touches the executor's heap arrays directly", "builtins touching the heap arrays: %s" % sorted(set(offenders)))


def r4_representation_independence(ctx):
    R = "R-C12-4"
    ctx.rule(R, "representation independence by encapsulation: outside quiver_core::binary no function inspects the BinaryData representation "
                "(discriminant / variant downcast) except Executor::materialize's Owned fast path; inside binary.rs every accessor's match lists all "
                "variants explicitly (a new rope shape cannot be forgotten by one accessor)")
    F = ctx.facts
    BD = "quiver_core::binary::BinaryData"
    variants = F.variants(BD)
    ctx.floor(R, "BinaryData variants", len(variants), 5)
    offenders = {}
    for body in F.bodies(crate="quiver_core"):
        if body.key.startswith("quiver_core::binary::") or body.key.startswith("<quiver_core::binary::") or body.fn.get("derived"):
            continue
        for bi, si, s in body.stmts():
            if s["k"] == "assign" and s["rv"]["k"] == "discr" and s["rv"].get("adt") == BD:
                offenders.setdefault(body.key, body.loc(bi, si))
            if s["k"] == "assign":
                pl = s["rv"].get("p") or (op_place(s["rv"]["op"]) if isinstance(s["rv"].get("op"), dict) else None)
                if pl and any(e[0] == "f" and (e[2] or "") == BD for e in pl["pr"]):
                    offenders.setdefault(body.key, body.loc(bi, si))
    for k, loc in sorted(offenders.items()):
        if k == "quiver_core::executor::Executor::materialize":
            ctx.exception(R, k + "|inspects-representation", "reviewed: the Owned fast path returns the existing Rc; flattening any other shape goes through to_vec() and is content preserving", loc)
        else:
            ctx.violated(R, k + "|inspects-representation", "inspects the BinaryData representation outside binary.rs: results may depend on how a binary was built", loc)
    # accessor matches are exhaustive without wildcard
    n = 0
    for k, fn in F.fns.items():
        if not (k.startswith("quiver_core::binary::BinaryData::") or k.startswith("<quiver_core::binary::BinaryData")) or "{closure" in k or fn.get("derived"):
            continue
        if k.endswith("ops::drop::Drop>::drop"):
            continue   # the iterative destructor only unlinks children; it never reads content
        body = hir.body_of(fn)
        if not body:
            continue
        for m in hir.matches(body, "Normal"):
            if not (m.get("sty") or "").endswith("binary::BinaryData"):
                continue
            heads = set()
            wild = False
            for a in m["arms"]:
                h = hir.pat_head(a["pat"], BD)
                if h == hir.ALL:
                    wild = True
                else:
                    heads |= h
            n += 1
            short = k.split("::")[-1]
            ctx.check(not wild and heads == set(variants), R, "%s|match@%s" % (k, "exhaustive"), "%s lists all %d representations explicitly" % (short, len(variants)),
                      "%s handles %s with a wildcard=%s: a representation can fall through to a default (content then depends on the rope shape)"
                      % (short, sorted(heads), wild), "%s:%d" % (fn["file"], m["ln"]))
    ctx.floor(R, "representation matches in binary.rs", n, 5)


def r5_rope_shape(ctx):
    R = "R-C12-5"
    ctx.rule(R, "rope shape invariants that the readers' reviewed bounds rest on: BinaryData::Tiled / Slice / Concat are constructed only in their "
                "normalising constructors; a Tiled node is unreachable when the unit is empty (otherwise `count` is not bounded by the rope's checked "
                "length and every flattening loop runs `count` times: a hang; `index % unit.len()` divides by zero); a Slice node is unreachable when "
                "offset/offset+length exceed the parent's length; Concat's total_length is the sum of both lengths")
    F = ctx.facts
    BD = "quiver_core::binary::BinaryData"
    homes = {"Tiled": BD + "::tiled", "Slice": BD + "::slice", "Concat": BD + "::concat"}
    seen = {v: 0 for v in homes}
    for body in F.bodies():
        if not body.key.startswith("quiver_"):
            continue
        for bi, si, s in agg_sites(body, "binary::BinaryData"):
            v = s["rv"]["variant"]
            if v in homes:
                seen[v] += 1
                ctx.check(body.key == homes[v], R, "%s|constructs %s" % (body.key, v), "constructed in its normalising constructor",
                          "BinaryData::%s is constructed outside %s: the invariants its readers rely on are not re-established" % (v, homes[v]), body.loc(bi, si))
    for v, n in seen.items():
        if n == 0:
            raise CheckError("%s: no construction site of BinaryData::%s found" % (R, v))
    # Tiled: unreachable when the unit is empty
    tb = F.body(homes["Tiled"])
    tfl = Flow(tb, through_named=True)
    unit = tb.param_by_type(lambda ty: ty.startswith("alloc::rc::Rc<quiver_core::binary::BinaryData"), what="unit parameter")
    aggs = [bi for bi, si, s in agg_sites(tb, "binary::BinaryData", "Tiled")]
    tests = []
    for bi, t in tb.calls():
        c = t.get("callee") or ""
        if c.endswith("BinaryData::is_empty") and unit in tfl.backward({op_place(t["args"][0])["l"]}, through_calls=("Deref::deref",)):
            tests.append((bi, t["dest"]["l"], 1))
    # `unit.len() == 0` form
    for bi, si, s in tb.stmts():
        if s["k"] == "assign" and s["rv"]["k"] == "bin" and s["rv"]["op"] in ("Eq", "Ne"):
            ops = (s["rv"]["l"], s["rv"]["r"])
            if any(o.get("c") == "const" and o.get("val") == 0 for o in ops):
                for o in ops:
                    pl = op_place(o)
                    if pl and any(c.endswith("BinaryData::len") for c in tfl.slice_reads(pl["l"], through_calls=("Deref::deref",))[3]):
                        tests.append((bi, (bi, si), 1 if s["rv"]["op"] == "Eq" else 0))
    ok = False
    for bi, key, val in tests:
        if not all(tb.dominates(bi, a) for a in aggs):
            continue
        if isinstance(key, tuple):
            bad = explore(tb, [bi], want="target", targets=aggs, force={key: val})
        else:
            bad = None
            for x in tb.succ[bi]:
                bad = bad or explore(tb, [(x, {key: val})], want="target", targets=aggs)
        if bad is None:
            ok = True
    ctx.check(ok, R, homes["Tiled"] + "|unit-non-empty", "the Tiled node is unreachable when unit.is_empty() (tile count <= rope length <= checked size)",
              "BinaryData::tiled can build a Tiled node over an EMPTY unit: its length is 0 for any count, so the builtin's size guard admits any count, "
              "and every flattening read loops `count` times (hang) / `index % unit.len()` divides by zero", tb.loc(aggs[0]) if aggs else tb.loc(0))
    # Slice: unreachable when out of bounds
    sb = F.body(homes["Slice"])
    sfl = Flow(sb, through_named=True)
    saggs = [bi for bi, si, s in agg_sites(sb, "binary::BinaryData", "Slice")]
    cmps = []
    for bi, si, s in sb.stmts():
        if s["k"] == "assign" and s["rv"]["k"] == "bin" and s["rv"]["op"] in ("Gt", "Ge", "Lt", "Le"):
            sides = []
            for o in (s["rv"]["l"], s["rv"]["r"]):
                pl = op_place(o)
                sides.append(sfl.slice_reads(pl["l"], through_calls=("Deref::deref", "Try::branch", "Option::unwrap_or", "Option::unwrap"))[3] if pl else set())
            lens = [any(c.endswith("BinaryData::len") for c in x) for x in sides]
            if lens[0] != lens[1]:
                # value > len  (Gt, len on the right) or len < value (Lt, len on the left): out of bounds when true
                oob_true = (s["rv"]["op"] in ("Gt",) and lens[1]) or (s["rv"]["op"] in ("Lt",) and lens[0])
                oob_false = (s["rv"]["op"] in ("Le",) and lens[1]) or (s["rv"]["op"] in ("Ge",) and lens[0])
                if oob_true or oob_false:
                    has_add = any(c.endswith("checked_add") for x in sides for c in x)
                    cmps.append((bi, si, 1 if oob_true else 0, has_add))
    for want_add, what in ((False, "offset <= parent.len()"), (True, "offset + length <= parent.len() (checked_add)")):
        cand = [c for c in cmps if c[3] == want_add]
        ok = bool(cand) and bool(saggs) and any(explore(sb, [bi], want="target", targets=saggs, force={(bi, si): val}) is None and all(sb.dominates(bi, a) for a in saggs) for bi, si, val, _a in cand)
        ctx.check(ok, R, homes["Slice"] + "|" + ("end" if want_add else "offset"), "the Slice node is unreachable unless %s" % what,
                  "BinaryData::slice can build a Slice node without establishing %s: readers index the parent out of bounds (panic)" % what, sb.loc(saggs[0]) if saggs else sb.loc(0))
    # Concat: total_length = left.len() + right.len()
    cb = F.body(homes["Concat"])
    cfl = Flow(cb, through_named=True)
    for bi, si, s in agg_sites(cb, "binary::BinaryData", "Concat"):
        d = dict(zip(s["rv"]["fields"], s["rv"]["ops"]))
        pl = op_place(d.get("total_length", {}))
        callees = cfl.slice_reads(pl["l"], through_calls=("Deref::deref",))[2] if pl else []
        nlen = len([c for c in cfl.slice_reads(pl["l"], through_calls=("Deref::deref",))[3] if c.endswith("BinaryData::len")]) if pl else 0
        adds = [1 for b2, s2, st in cb.stmts() if st["k"] == "assign" and st["rv"]["k"] in ("bin", "checked") and st["rv"]["op"] in ("Add", "AddWithOverflow")]
        lens = [b2 for b2, t in cb.calls() if (t.get("callee") or "").endswith("BinaryData::len")]
        ctx.check(nlen >= 1 and len(lens) == 2 and bool(adds), R, homes["Concat"] + "|total_length", "total_length is computed from len() of both halves",
                  "Concat.total_length is not the sum of both halves' len(): len()/byte_at()/flattening disagree about the rope's size", cb.loc(bi, si))


REVIEWED_RECURSION = {
    "quiver_core::binary::BinaryData::byte_at": "descends one rope level per call (Slice / Concat / Tiled child); depth = rope nesting",
    "quiver_core::binary::BinaryData::find_byte": "descends one rope level per call; depth = rope nesting",
    "quiver_core::binary::BinaryData::len": "Tiled delegates to its unit; depth = Tiled nesting",
    "quiver_core::binary::BinaryData::to_vec": "to_vec <-> write_to_vec: only through the shallow Slice / Tiled arms; Concat spines are walked with an explicit stack",
    "quiver_core::binary::BinaryData::write_to_vec": "see to_vec",
}


def r6_recursion(ctx):
    R = "R-C12-6"
    ctx.rule(R, "stack safety of the builtins: the functions reachable from the pure builtins that are (mutually) recursive are exactly the reviewed "
                "ones; a new recursive function on these paths recurses to a depth the ARGUMENT decides (a rope built by 100 000 appends), i.e. a stack "
                "overflow that aborts the worker — and the flattening walk over Concat spines stays iterative (its Concat arm makes no call back into "
                "the recursive group)")
    F = ctx.facts
    with F.raw_mode():          # recursion is a property of the functions as written (an inlined helper would hide its own cycle)
        roots = builtin_roots(F)
        reach = reach_set(F, roots)
        edges = {k: {c for c in mir_refs(F.body(k).mir, False) if c in reach or c in F.fns} for k in reach}
        locs = {k: F.body(k).loc(0) for k in reach}

    def reaches(a, b_):
        seen = set()
        work = [a]
        while work:
            k = work.pop()
            for n in edges.get(k, ()):
                if n == b_:
                    return True
                if n not in seen and n in edges:
                    seen.add(n)
                    work.append(n)
        return False
    rec = sorted(k for k in reach if reaches(k, k))
    for k in rec:
        base = k.split("::{closure")[0]
        if base in REVIEWED_RECURSION:
            ctx.exception(R, base + "|recursive", "reviewed: " + REVIEWED_RECURSION[base], locs[k])
        else:
            ctx.violated(R, base + "|recursive", "a new (mutually) recursive function on the builtins' paths: its recursion depth is decided by the shape of the "
                                                 "argument (rope nesting), so a long append-built binary overflows the stack and aborts the worker", locs[k])
    ctx.floor(R, "recursive functions on the builtins' paths", len(rec), 3)
    # the Concat arm of write_to_vec stays iterative
    wk = "quiver_core::binary::BinaryData::write_to_vec"
    if wk not in F.fns:
        wk = "quiver_core::binary::BinaryData::to_vec"       # the flattening loop folded into its only caller
    if wk in F.fns:
        fn = F.fn(wk)
        ms = [m for m in hir.matches(hir.body_of(fn)) if "BinaryData" in (m.get("sty") or "")]
        ok = False
        detail = []
        for m in ms:
            arms = hir.arms_for_variant(m, "quiver_core::binary::BinaryData", "Concat")
            for _i, arm, _d in arms:
                keys = hir.call_keys(arm["body"])
                back = [k for k in keys if not k.endswith("BinaryData::len") and
                        (k.split("::{closure")[0] in REVIEWED_RECURSION or (k in F.fns and k in reach and reaches(k, wk)))]
                detail += back
                ok = ok or not back
        if not ms:
            raise CheckError("%s: the match over BinaryData in %s was not found" % (R, wk.split("::")[-1]))
        ctx.check(ok and not detail, R, wk + "|Concat-iterative", "the Concat arm pushes its children on the explicit work stack (no recursive call)",
                  "the Concat arm of write_to_vec calls back into the recursive group (%s): flattening a long append-built rope recurses once per "
                  "append" % sorted(set(detail)), "%s:%d" % (fn["file"], fn["line"]))


def r7_per_slot_state(ctx):
    """a builtin's result depends on the BYTES of its argument, not on which heap slot holds them: any per-slot state of the executor (counts, flags,
    memoised results) is reset when a reclaimed slot is reused — shared with R-C06-2"""
    from rules import c06
    ctx.rule("R-C12-7", "identity independence: every executor array that grows with a fresh heap slot is rewritten when a reclaimed slot is reused (a memoised "
                        "per-slot result, e.g. a hash, must not survive into the slot's next occupant) — shared with R-C06-2")
    c06.per_slot_arrays_reset_on_reuse(ctx, "R-C12-7")


def run(ctx):
    ctx.run_rules([r1_sinks, r3_size_limit, r4_representation_independence, r5_rope_shape, r6_recursion, r7_per_slot_state])
    ctx.note("NOT decided: agreement of results with a reference model (value level), e.g. the 64-bit field read across 9 bytes (observation F4) or the "
             "contents produced by rope operations")
    return (
        "Decides the TOTALITY half structurally: an interval abstract interpretation with branch refinement over the MIR of every function reachable "
        "from the 45 registered pure builtins discharges arithmetic-overflow, division, bounds, narrowing-cast and allocation-size sinks; guarded "
        "indexing is recognised; what remains is held to reviewed per-(function, kind) ceilings, so a new panic- or truncation-capable construct is "
        "reported. Plus: the binary size limit is a choke point and the rope representation is encapsulated. Value-level conformance is NOT decided.",
        "obligations are MIR sinks (asserts, casts, indexing/allocation/panic calls) in the builtins' reach set; discharged by interval analysis / "
        "guard patterns, else by the reviewed residual table rules/tables/c12.json",
    )
