"""C07 — every function the compiler emits is well-formed bytecode (structural clauses: jump provenance, index-carrying fields across
every table walker, dispatch-table agreement, remap order/completeness). Shared with C10 (R-C10-1/2)."""
import json
import os

from qvlib import hir
from qvlib.extract import VERIF, CheckError
from qvlib.facts import op_local, op_place
from qvlib.paths import Flow, agg_sites, call_matches, explore

CRATES = None
EXEC = "quiver_core::executor::Executor"
INSTR = "quiver_core::bytecode::Instruction"
TYPE = "quiver_core::types::Type"
IB = "codegen::InstructionBuilder"
TABLE_FIELDS = {"constants": "constant", "constant_binaries": "constant", "functions": "function", "tuples": "tuple", "builtins": "builtin",
                "builtin_impls": "builtin", "type_compatibility": "type", "function_param_compatibility": "function", "builtin_param_compatibility": "builtin"}
# which remap table an index-carrying variant must go through (table kind -> remap variable stem)
REMAP_OF = {"constant": "constant_remap", "function": "function_remap", "tuple": "tuple_remap", "type": "type_remap", "builtin": "builtin_remap"}


def derive_index_variants(F):
    """Instruction variant -> {payload position -> table kind}, derived from the executor: the payload of the variant is passed by the
    dispatcher to a handler in which it flows into an access of one of the executor's program tables."""
    out = {}
    for disp in ("execute_hot", "execute_cold"):
        fn = F.fn(EXEC + "::" + disp)
        ms = [m for m in hir.matches(hir.body_of(fn)) if (m.get("sty") or "").endswith("bytecode::Instruction")]
        if not ms:
            raise CheckError("dispatch match not found in " + disp)
        for arm in ms[0]["arms"]:
            p = arm["pat"]
            if p["p"] not in ("tstruct",) or p.get("adt") != INSTR:
                continue
            v = p["variant"]
            binds = {nm: path[-1][1] for nm, path in hir.pat_bindings(p) if path}
            for kind, key, node in hir.calls(arm["body"]):
                if not key or not key.startswith(EXEC + "::handle_"):
                    continue
                args = node["args"] if kind == "mcall" else node["args"]
                for ai, a in enumerate(args):
                    if a["e"] == "path" and a.get("res") == "local" and a["name"] in binds:
                        # parameter index in the callee: self + args
                        pidx = ai + 2 if kind == "mcall" else ai + 1
                        tk = param_table_kind(F, key, pidx, 0)
                        if tk:
                            out.setdefault(v, {})[binds[a["name"]]] = tk
    return out


def param_table_kind(F, key, pidx, depth):
    if depth > 2 or key not in F.fns or not F.fns[key].get("mir"):
        return None
    b = F.body(key)
    fl = Flow(b)
    fw = fl.forward({pidx}, through_calls=())
    kinds = set()
    for bi, t in b.calls():
        hit = [ai for ai, a in enumerate(t["args"]) if (op_place(a) or {}).get("l") in fw]
        if not hit:
            continue
        c = t.get("callee") or ""
        # direct table access: receiver is a field of Executor
        if t["args"] and t["args"][0].get("p"):
            cp = fl.canon_op(t["args"][0])
            if cp:
                for e in cp[1]:
                    if e[0] == "f" and e[1] in TABLE_FIELDS and (e[2] or "") == EXEC and any(h > 0 for h in hit):
                        kinds.add(TABLE_FIELDS[e[1]])
        if c.startswith(EXEC + "::") and c in F.fns:
            for h in hit:
                k2 = param_table_kind(F, c, h + 1, depth + 1)
                if k2:
                    kinds.add(k2)
    # an aggregate Value::Process(pid, function_index) / Value::Function(idx,..): the payload becomes a function id carried by the value
    for bi, si, s in b.stmts():
        if s["k"] == "assign" and s["rv"]["k"] == "agg" and s["rv"].get("adt", "").endswith("value::Value") and s["rv"]["variant"] in ("Process", "Function", "Builtin"):
            for oi, o in enumerate(s["rv"]["ops"]):
                if (op_place(o) or {}).get("l") in fw:
                    if s["rv"]["variant"] == "Process" and oi == 1:
                        kinds.add("function")
                    if s["rv"]["variant"] == "Function" and oi == 0:
                        kinds.add("function")
                    if s["rv"]["variant"] == "Builtin" and oi == 0:
                        kinds.add("builtin")
    if len(kinds) == 1:
        return list(kinds)[0]
    if kinds:
        # constants + constant_binaries both map to "constant"; anything else is ambiguous
        return sorted(kinds)[0]
    return None


def arm_for(match, variant):
    arms = hir.arms_for_variant(match, INSTR, variant)
    if not arms:
        return None
    return arms[0][1]


MERGE_FEED = {"constant": ("Program::register_constant",), "builtin": ("Program::register_builtin_info",), "function": ("Program::register_function",),
              "type": ("environment::import_type",), "tuple": ("environment::import_type",)}


def merge_remap_tables(mb, fln, fl0, reviewed_inlined=()):
    """{kind: local} — merge_bytecode's old->new tables, each identified by the call that feeds it: the HashMap<usize, usize> whose inserted values are
    results of register_constant / register_builtin_info / register_function, and the two handed to import_type (4th = types, 5th = tuples)."""
    # locals of merge_bytecode itself or of a NEW helper it was split into (transparent) — not locals of the reviewed callee inlined for this rule
    hm = [l["i"] for l in mb.locals if (l["ty"] or "").startswith("std::collections::hash::map::HashMap<usize, usize") and l.get("inl") not in set(reviewed_inlined)]
    out = {}
    for bi, t in mb.calls():
        c = t.get("callee") or ""
        if c.endswith("environment::import_type") and len(t["args"]) > 4:
            for pos, kind in ((3, "type"), (4, "tuple")):
                cp = fl0.canon_op(t["args"][pos]) or fln.canon_op(t["args"][pos])
                if cp and cp[0] in hm:
                    out.setdefault(kind, cp[0])
        if c.endswith("HashMap::insert") and len(t["args"]) > 2 and op_place(t["args"][2]):
            srcs = fln.sources(op_place(t["args"][2])["l"])
            for kind in ("constant", "builtin", "function"):
                if srcs and any(x[0] == "call" and any((x[2].get("callee") or "").endswith(f) for f in MERGE_FEED[kind]) for x in srcs):
                    cp = fl0.canon_op(t["args"][0]) or fln.canon_op(t["args"][0])
                    if cp and cp[0] in hm:
                        out.setdefault(kind, cp[0])
    return out


def remap_uses(arm_body):
    """names of the `*_remap` locals consulted with .get(..) in an arm body"""
    out = []
    for x in hir.walk(arm_body):
        if x["e"] == "mcall" and x["m"] == "get":
            r = x["recv"]
            names = hir.local_names(r)
            out += [n for n in names if n.endswith("_remap")]
        elif x["e"] in ("call", "inlined"):
            # the lookup wrapped in a helper: `remap_or_keep(type_remap, *id)` — a table handed (directly, or by reference) to a call together with the id
            for a in x.get("args") or []:
                y = a
                while y and y.get("e") in ("ref", "unary", "deref") and y.get("x"):
                    y = y["x"]
                if y and y.get("e") == "path" and y.get("res") == "local" and str(y.get("name", "")).endswith("_remap") and len(x.get("args") or []) >= 2:
                    out.append(y["name"])
    return out


def target_sources(F, body, local, ADAPT, depth):
    """list of disallowed sources of a jump-target operand (empty = fine)."""
    from rules.c02 import always_none_param
    fl = Flow(body, through_named=True)
    bad = []
    for x in fl.sources(local, through_calls=ADAPT, stop_at_agg=True):
        if x[0] == "call":
            cal = (x[2].get("callee") or "")
            if cal.endswith("Vec::len") or (IB in cal and cal.split("::")[-1].startswith("emit_")) or cal.endswith("Vec::new") or cal.endswith("Vec::with_capacity"):
                continue
            bad.append("call " + cal.split("::")[-1])
        elif x[0] == "arg":
            ty = body.local_ty(x[1])
            if ty.startswith("core::option::Option<usize>") and always_none_param(F, body.key, x[1]):
                continue  # dead always-None parameter
            callers = F.callers_of(body.key)
            if depth < 3 and callers and ty in ("usize", "core::option::Option<usize>"):
                for ck, cb in callers:
                    cbody = F.body(ck)
                    ca = op_place(cbody.blocks[cb]["term"]["args"][x[1] - 1])
                    if ca is None:
                        bad.append("constant argument from %s" % ck.split("::")[-1])
                    else:
                        bad += target_sources(F, cbody, ca["l"], ADAPT, depth + 1)
            else:
                bad.append("parameter " + str(body.local_name(x[1])))
        elif x[0] == "rv":
            rv = x[2]["rv"]
            if rv["k"] == "agg" and rv.get("variant") == "None":
                continue
            if rv["k"] == "agg" and rv.get("variant") == "Some":
                for o in rv["ops"]:
                    pl = op_place(o)
                    if pl:
                        bad += target_sources(F, body, pl["l"], ADAPT, depth + 1) if depth < 4 else ["deep"]
                    else:
                        bad.append("constant")
                continue
            if rv["k"] == "agg" and rv.get("kind") == "tuple":
                for o in rv["ops"]:
                    pl = op_place(o)
                    if pl and body.local_ty(pl["l"]) == "usize":
                        bad += target_sources(F, body, pl["l"], ADAPT, depth + 1) if depth < 3 else ["deep tuple"]
                continue
            bad.append("computed (%s)" % rv.get("op", rv["k"]))
        elif x[0] == "const":
            bad.append("constant")
    return bad


def r1_jump_provenance(ctx):
    R = "R-C07-1"
    ctx.rule(R, "jumps stay inside the function: Jump/JumpIf are constructed only inside InstructionBuilder; every explicit jump target handed to it "
                "derives from instructions.len() reads / placeholder addresses / recorded branch starts with no arithmetic; the offset formula "
                "target - jump - 1 in codegen.rs and the executor's counter += offset + 1 use the same constant")
    F = ctx.facts
    n = 0
    for body in F.bodies(crate="quiver_compiler"):
        for bi, si, s in agg_sites(body, "bytecode::Instruction"):
            if s["rv"]["variant"] in ("Jump", "JumpIf"):
                n += 1
                ok = IB in body.key
                ctx.check(ok, R, "%s|%s" % (body.key, s["rv"]["variant"]), "jump constructed by the InstructionBuilder",
                          "a %s instruction is constructed outside InstructionBuilder (its offset is not computed by the one audited formula)" % s["rv"]["variant"],
                          body.loc(bi, si))
    ctx.floor(R, "Jump/JumpIf construction sites", n, 6)
    TGT = ("patch_jump_to_addr", "emit_jump_to_addr", "emit_jump_if_to_addr")
    ADAPT = ("IntoIterator::into_iter", "Iterator::next", "slice::iter", "Option::unwrap", "Clone::clone", "Iterator::copied", "Option::copied", "Vec::iter",
             "Iterator::enumerate", "Index::index", "Option::Some", "Vec::drain", "Deref::deref", "Option::unwrap_or")
    m = 0
    from rules.c02 import always_none_param
    for body in F.bodies(crate="quiver_compiler"):
        if IB in body.key:
            continue
        fl = Flow(body, through_named=True)
        ords = {}
        for bi, t in body.calls():
            c = t.get("callee") or ""
            if IB not in c or c.split("::")[-1] not in TGT:
                continue
            m += 1
            k = "%s|%s" % (body.key, c.split("::")[-1])
            o = ords.get(k, 0)
            ords[k] = o + 1
            site = "%s#%d" % (k, o)
            a = op_place(t["args"][-1])
            bad = target_sources(F, body, a["l"], ADAPT, 0) if a else ["constant"]
            ctx.check(not bad, R, site, "target derives only from instruction-vector lengths / placeholder addresses (no arithmetic)",
                      "jump target has other sources: %s — the jump may leave the function" % sorted(set(bad)), body.loc(bi))
    ctx.floor(R, "explicit jump-target sites", m, 8)
    # offset formula vs executor
    for name in ("patch_jump_to_addr", "emit_jump_to_addr", "emit_jump_if_to_addr"):
        b = F.body("quiver_compiler::compiler::codegen::InstructionBuilder::" + name)
        subs = [s for _b, _i, s in b.stmts() if s["k"] == "assign" and s["rv"]["k"] == "bin" and s["rv"]["op"].startswith("Sub")]
        ones = [s for s in subs if s["rv"]["r"].get("val") == 1]
        ctx.check(len(subs) == 2 and len(ones) == 1, R, b.key + "|offset", "offset = target - jump - 1", "the jump offset formula changed (%d subtractions, %d by one)" % (len(subs), len(ones)), b.loc(0))
    for name in ("handle_jump", "handle_jump_if"):
        b = F.body(EXEC + "::" + name)
        adds = [s for _b, _i, s in b.stmts() if s["k"] == "assign" and s["rv"]["k"] == "bin" and s["rv"]["op"].startswith("Add") and s["rv"]["r"].get("val") == 1 and "isize" in s["rv"].get("lty", "")]
        was = b.calls_to("wrapping_add_signed")
        ctx.check(len(adds) >= 1 and len(was) >= 1, R, b.key + "|offset", "counter = counter +signed (offset + 1)", "the executor's jump arithmetic no longer adds offset + 1", b.loc(0))


def r2_index_fields(ctx, rule_id="R-C07-2"):
    R = rule_id
    ctx.rule(R, "index-carrying Instruction fields agree across every table walker: the set I of variants whose payload indexes a program table is "
                "derived from the executor; tree_shake's mark match covers I, its sweep match rewrites exactly I through the matching remap table, "
                "environment::remap_function rewrites I minus Process (reviewed: already in the environment's id space); every id field of Type, "
                "TupleTypeInfo, BuiltinInfo, Function.type_id and Bytecode.entry is visited by collect_type_refs and rewritten by remap_type / "
                "import_type_value")
    F = ctx.facts
    I = derive_index_variants(F)
    expect = {"Constant": "constant", "Function": "function", "Tuple": "tuple", "IsType": "type", "Builtin": "builtin", "Process": "function"}
    got = {v: sorted(set(d.values()))[0] for v, d in I.items()}
    ctx.check(got == expect, R, "derived-index-variants", "index-carrying variants derived from the executor: %s" % got,
              "the executor's use of instruction payloads as table indices changed: derived %s, reviewed %s — every walker must be updated" % (got, expect))
    ts = F.fn("quiver_core::optimisation::tree_shake")
    ms = [m for m in hir.matches(hir.body_of(ts)) if (m.get("sty") or "").endswith("bytecode::Instruction")]
    if len(ms) < 2:
        raise CheckError("%s: expected mark and sweep matches over Instruction in tree_shake, found %d" % (R, len(ms)))
    mark, sweep = ms[0], ms[1]
    mark_calls = {"Constant": ("used_constants", "insert"), "Builtin": ("used_builtins", "insert"), "Function": ("queue", "push_back"), "Process": ("queue", "push_back")}
    for v, kind in got.items():
        arm = arm_for(mark, v)
        site = "tree_shake|mark|%s" % v
        if arm is None or hir.is_catch_all(arm["pat"]):
            ctx.violated(R, site, "the mark phase has no arm for Instruction::%s: its %s would be swept although reachable" % (v, kind), "%s:%d" % (ts["file"], mark["ln"]))
            continue
        binds = [nm for nm, _p in hir.pat_bindings(arm["pat"])]
        used = set(hir.local_names(arm["body"]))
        keys = hir.call_keys(arm["body"])
        if v in mark_calls:
            recv, meth = mark_calls[v]
            ok = any(x["e"] == "mcall" and x["m"] == meth and recv in hir.local_names(x["recv"]) and set(hir.local_names({"e": "x", "args": x["args"]})) & set(binds)
                     for x in hir.walk(arm["body"]))
            ctx.check(ok, R, site, "marks the %s via %s.%s" % (kind, recv, meth), "the mark arm for %s no longer records its %s id" % (v, kind), "%s:%d" % (ts["file"], arm["ln"]))
        elif v == "Tuple":
            # unconditional: both calls are direct statements of the arm (collect_type_refs only under the `position` lookup)
            stm = arm["body"].get("stmts", []) if arm["body"]["e"] == "block" else []
            top_keys = []
            for st in stm + ([arm["body"].get("tail")] if arm["body"].get("tail") else []):
                if st and st["e"] == "call":
                    top_keys += hir.call_keys(st)[:1]
            ok = any(k.endswith("collect_tuple_refs") for k in top_keys) and any(k.endswith("collect_type_refs") for k in keys)
            guarded = [x for x in hir.walk(arm["body"]) if x["e"] == "if" and any(k.endswith("collect_tuple_refs") for k in hir.call_keys(x))]
            guarded += [x for x in hir.walk(arm["body"]) if x["e"] in ("continue", "break", "ret")]
            ctx.check(ok and not guarded, R, site, "collect_tuple_refs is called unconditionally and collect_type_refs for the tuple's Type::Tuple entry",
                      "the Tuple mark arm no longer unconditionally marks the tuple and its Type::Tuple entry (IsType tables would lose the entry)",
                      "%s:%d" % (ts["file"], arm["ln"]))
        elif v == "IsType":
            ok = any(k.endswith("collect_type_refs") for k in keys) and bool(set(binds) & used)
            ctx.check(ok, R, site, "marks the type closure via collect_type_refs", "the IsType mark arm no longer collects the type", "%s:%d" % (ts["file"], arm["ln"]))
    # sweep: exactly I, each through the right remap table with unwrap (mark ⊇ sweep)
    sweep_variants = set()
    for arm in sweep["arms"]:
        h = hir.pat_head(arm["pat"], INSTR)
        if h != hir.ALL:
            sweep_variants |= h
    ctx.check(sweep_variants == set(got), R, "tree_shake|sweep|variants", "sweep rewrites exactly the index-carrying variants %s" % sorted(sweep_variants),
              "sweep rewrites %s but the index-carrying variants are %s" % (sorted(sweep_variants), sorted(got)), "%s:%d" % (ts["file"], sweep["ln"]))
    for v, kind in got.items():
        arm = arm_for(sweep, v)
        if arm is None or hir.is_catch_all(arm["pat"]):
            continue
        cons = [c for c in hir.ctors(arm["body"]) if c[0] == INSTR]
        remaps = remap_uses(arm["body"])
        ok = len(cons) == 1 and cons[0][1] == v and remaps == [REMAP_OF[kind]]
        ctx.check(ok, R, "tree_shake|sweep|%s" % v, "Instruction::%s(id) -> Instruction::%s(%s[id])" % (v, v, REMAP_OF[kind]),
                  "sweep arm for %s builds %s through %s (expected %s through %s)" % (v, [c[1] for c in cons], remaps, v, REMAP_OF[kind]), "%s:%d" % (ts["file"], arm["ln"]))
    # remap_function in the environment — decided on the MIR of merge_bytecode with remap_function (and whatever helpers it was split into)
    # inlined, so that each table is identified by WHAT FEEDS IT (register_* / import_*), not by a variable, parameter or field name
    MB = "quiver_environment::environment::Environment::merge_bytecode"
    RF = "quiver_environment::environment::remap_function"
    rfn = F.fn(RF)
    mbi = F.body_with(MB, {RF})
    fli = Flow(mbi, through_named=True)
    fl0i = Flow(mbi)
    tables = merge_remap_tables(mbi, fli, fl0i, reviewed_inlined={RF})
    missing = [k for k in ("constant", "function", "tuple", "type", "builtin") if k not in tables]
    if missing:
        raise CheckError("%s: the %s remap table(s) of merge_bytecode could not be identified by their feeding calls (anchor drifted)" % (R, missing))
    TCG = ("HashMap::get", "Option::copied", "Option::cloned", "Option::unwrap_or", "Option::unwrap", "Option::map", "Option::unwrap_or_else", "Deref::deref",
           "Clone::clone", "Option::expect", "Option::map_or", "Option::unwrap_or_default", "environment::remap_type_id")
    inl_blocks = {bi for bi, blk in enumerate(mbi.blocks) if blk.get("inl")}
    rebuilt = {}
    for bi, si, st in agg_sites(mbi, "bytecode::Instruction"):
        if bi not in inl_blocks:
            continue
        v = st["rv"]["variant"]
        ops = st["rv"]["ops"]
        if not ops:
            continue
        kinds_used = set()
        for o in ops:
            pl = op_place(o)
            if not pl:
                continue
            back = fli.backward({pl["l"]}, through_calls=TCG)
            for k, tl in tables.items():
                if tl in back:
                    kinds_used.add(k)
        rebuilt.setdefault(v, []).append((bi, si, kinds_used))
    # ... or inside a closure built by the inlined remap code (`.map(|inst| match inst {..})`): its captured references are mapped back to the tables
    for bi, si, st in mbi.stmts():
        if bi not in inl_blocks or st["k"] != "assign" or not st["rv"].get("closure"):
            continue
        cb_ = F.body(st["rv"]["closure"])
        cfl = Flow(cb_, through_named=True)
        cap_kinds = {}
        for j, o in enumerate(st["rv"].get("ops", [])):
            pl = op_place(o)
            if pl:
                back = fli.backward({pl["l"]}, through_calls=TCG)
                for k, tl in tables.items():
                    if tl in back:
                        cap_kinds.setdefault(str(j), set()).add(k)
        for b2, s2, st2 in agg_sites(cb_, "bytecode::Instruction"):
            v = st2["rv"]["variant"]
            if not st2["rv"]["ops"]:
                continue
            kinds_used = set()
            for o in st2["rv"]["ops"]:
                pl = op_place(o)
                if not pl:
                    continue
                for bl in cfl.backward({pl["l"]}, through_calls=TCG):
                    # reads of the closure environment: (*_1).<j>
                    for _b3, _s3, st3 in cb_.stmts():
                        if st3["k"] == "assign" and st3["p"]["l"] == bl:
                            rp = st3["rv"].get("p") or op_place(st3["rv"].get("op") or {})
                            if rp and rp["l"] == 1:
                                for e in rp["pr"]:
                                    if e[0] == "f" and str(e[2] or "").startswith("closure:"):
                                        kinds_used |= cap_kinds.get(str(e[1]), set())
                    # the environment field used directly as a call argument
                for b3, t3 in cb_.calls():
                    if t3["dest"]["l"] in cfl.backward({pl["l"]}, through_calls=TCG) and (t3.get("callee") or "").endswith("HashMap::get"):
                        cp = cfl.canon_op(t3["args"][0])
                        if cp and cp[0] == 1:
                            for e in cp[1]:
                                if e[0] == "f" and str(e[2] or "").startswith("closure:"):
                                    kinds_used |= cap_kinds.get(str(e[1]), set())
            rebuilt.setdefault(v, []).append((bi, si, kinds_used))
    want = set(got) - {"Process"}
    rv = {v for v, lst in rebuilt.items() if any(k for _b, _s, k in lst)}
    ctx.check(rv == want, R, "remap_function|variants", "merge rewrites %s; Process is deliberately left alone" % sorted(rv),
              "remap_function rewrites %s, expected %s (Instruction::Process carries an environment-space function index produced from "
              "request_process_types and must NOT be remapped; every other index-carrying variant must)" % (sorted(rv), sorted(want)), "%s:%d" % (rfn["file"], rfn["line"]))
    ctx.exception(R, "remap_function|Process", "reviewed: Instruction::Process(pid, function_index) is emitted from Environment::request_process_types data, so its "
                                              "function index is already in the environment's id space; remapping it through the incoming bytecode's table would corrupt it")
    for v in sorted(want):
        lst = rebuilt.get(v, [])
        kind = got[v]
        ok = bool(lst) and all(k == {kind} for _b, _s, k in lst)
        ctx.check(ok, R, "remap_function|%s" % v, "Instruction::%s(id) is rebuilt from a lookup in the %s table (the one fed by %s)" % (v, kind, "/".join(MERGE_FEED[kind])),
                  "the merged Instruction::%s is rebuilt through the table(s) %s (expected exactly the %s table): its index would point into the wrong table or "
                  "stay in the source program's numbering" % (v, [sorted(k) for _b, _s, k in lst], kind),
                  mbi.loc(lst[0][0], lst[0][1]) if lst else "%s:%d" % (rfn["file"], rfn["line"]))
    # Function.type_id (merge): the Function rebuilt by the inlined remap code takes type_id from the type table
    okf = False
    for bi, si, st in agg_sites(mbi, "bytecode::Function"):
        if bi not in inl_blocks:
            continue
        d = dict(zip(st["rv"]["fields"], st["rv"]["ops"]))
        pl = op_place(d.get("type_id", {}))
        if pl and tables["type"] in fli.backward({pl["l"]}, through_calls=TCG):
            okf = True
    ctx.check(okf, R, "remap_function|Function.type_id", "Function.type_id is rewritten through the type table", "remap_function no longer remaps Function.type_id")
    # Function.type_id (tree_shake)
    for fn, label in ((ts, "tree_shake"),):
        structs = [x for x in hir.walk(hir.body_of(fn)) if x["e"] == "struct" and (x.get("adt") or x.get("key") or "").endswith("bytecode::Function")]
        ok = False
        for x in structs:
            for f in x["fields"]:
                if f["name"] == "type_id" and any(n.endswith("_remap") or "remap" in n for n in hir.local_names(f["x"])):
                    ok = True
        if not structs:
            raise CheckError("%s: no Function literal in tree_shake (anchor drifted)" % R)
        ctx.check(ok, R, "%s|Function.type_id" % label, "Function.type_id is rewritten through type_remap", "%s no longer remaps Function.type_id" % label)
    # Type fields: derive id-carrying fields from the ADT (usize / Option<usize> / Vec<usize> / Vec<(.., usize)>)
    tadt = F.adt(TYPE)
    id_variants = {}
    for v in tadt["variants"]:
        idf = [f["name"] for f in v["fields"] if "usize" in f["ty"]]
        if idf and v["name"] != "Cycle":
            id_variants[v["name"]] = idf
    expect_t = {"Tuple", "Partial", "Callable", "Union", "Process"}
    ctx.check(set(id_variants) == expect_t, R, "derived-type-id-variants", "id-carrying Type variants derived from the ADT: %s" % sorted(id_variants),
              "Type variants carrying ids changed to %s (reviewed %s): collect_type_refs / remap_type / import_type_value must follow" % (sorted(id_variants), sorted(expect_t)))
    walkers = []
    ctr = [k for k in F.fns if k.endswith("tree_shake::collect_type_refs")]
    if not ctr:
        raise CheckError("%s: collect_type_refs not found" % R)
    walkers.append(("collect_type_refs", F.fns[ctr[0]], ("collect_type_refs", "collect_tuple_refs"), None))
    walkers.append(("import_type_value", F.fn("quiver_environment::environment::import_type_value"), ("import_type", "import_tuple"), None))
    rt_matches = [m for m in hir.matches(hir.body_of(ts)) if (m.get("sty") or "").endswith("types::Type") and m is not None]
    for name, fn, rec, _ in walkers:
        ms2 = [m for m in hir.matches(hir.body_of(fn)) if (m.get("sty") or "").endswith("types::Type")]
        if not ms2:
            raise CheckError("%s: match over Type not found in %s" % (R, name))
        m2 = ms2[0]
        for v, fields in id_variants.items():
            arms = hir.arms_for_variant(m2, TYPE, v)
            site = "%s|Type::%s" % (name, v)
            if not arms or hir.is_catch_all(arms[0][1]["pat"]):
                ctx.violated(R, site, "%s has no arm for Type::%s: ids in %s are not followed" % (name, v, fields))
                continue
            arm = arms[0][1]
            keys = hir.call_keys(arm["body"])
            n_rec = sum(1 for k in keys if any(k.endswith(r) for r in rec))
            binds = {nm for nm, path in hir.pat_bindings(arm["pat"])}
            need = len(fields)
            ok = n_rec >= need and binds <= (set(hir.local_names(arm["body"])) | {"name"})
            # every bound id-field binding is used
            ok = n_rec >= need and all(b in set(hir.local_names(arm["body"])) for b in binds if b != "name")
            ctx.check(ok, R, site, "follows %d id field(s) %s" % (need, fields),
                      "%s follows %d of the %d id fields %s of Type::%s" % (name, n_rec, need, fields, v), "%s:%d" % (fn["file"], arm["ln"]))
    # remap_type closure inside tree_shake: the Type match whose arms construct Type
    rts = [m for m in hir.matches(hir.body_of(ts)) if (m.get("sty") or "").endswith("types::Type") and any(c[0] == TYPE for a in m["arms"] for c in hir.ctors(a["body"]))]
    if not rts:
        raise CheckError("%s: remap_type match not found in tree_shake" % R)
    rtm = rts[0]
    for v, fields in id_variants.items():
        arms = hir.arms_for_variant(rtm, TYPE, v)
        site = "remap_type|Type::%s" % v
        if not arms or hir.is_catch_all(arms[0][1]["pat"]):
            ctx.violated(R, site, "remap_type has no arm for Type::%s" % v)
            continue
        arm = arms[0][1]
        remaps = remap_uses(arm["body"])
        want_r = "tuple_remap" if v == "Tuple" else "type_remap"
        ok = len(remaps) >= len(fields) and set(remaps) == {want_r} and any(c[0] == TYPE and c[1] == v for c in hir.ctors(arm["body"]))
        ctx.check(ok, R, site, "%d id field(s) rewritten through %s" % (len(fields), want_r),
                  "remap_type rewrites Type::%s through %s (expected %d lookups in %s)" % (v, remaps, len(fields), want_r), "%s:%d" % (ts["file"], arm["ln"]))
    # TupleTypeInfo.fields / BuiltinInfo.{param_type,result_type} / Bytecode.entry in tree_shake
    body = hir.body_of(ts)
    for adt, fields in (("types::TupleTypeInfo", ("fields",)), ("types::BuiltinInfo", ("param_type", "result_type")), ("bytecode::Bytecode", ("entry",))):
        structs = [x for x in hir.walk(body) if x["e"] == "struct" and (x.get("adt") or x.get("key") or "").endswith(adt)]
        for fname in fields:
            ok = False
            for x in structs:
                for f in x["fields"]:
                    if f["name"] == fname:
                        names = hir.local_names(f["x"])
                        ok = ok or ("type_remap" in names) or (fname == "entry" and "function_remap" in names)
            ctx.check(ok, R, "tree_shake|%s.%s" % (adt.split("::")[-1], fname), "rewritten through its remap table",
                      "tree_shake no longer remaps %s.%s" % (adt.split("::")[-1], fname))
    # merge: builtin info type ids remapped (MIR: the BuiltinInfo registered by merge takes both type ids from lookups in the type table)
    for fname in ("param_type", "result_type"):
        ok = False
        for bi, si, st in agg_sites(mbi, "types::BuiltinInfo"):
            d = dict(zip(st["rv"]["fields"], st["rv"]["ops"]))
            pl = op_place(d.get(fname, {}))
            if pl and tables["type"] in fli.backward({pl["l"]}, through_calls=TCG + ("environment::remap_type_id",)):
                ok = True
        ctx.check(ok, R, "merge_bytecode|BuiltinInfo.%s" % fname, "rewritten through the type table", "merge_bytecode no longer remaps BuiltinInfo.%s" % fname)


def r7_emitted_stack_discipline(ctx, rule_id="R-C07-7"):
    R = rule_id
    ctx.rule(R, "operand-stack discipline of the emitted code, decided on the GENERATOR: every code-emitting function of the compiler is interpreted "
                "abstractly over the height of the stack its emitted code will have (qvlib/emit.py; stack effect per instruction from the executor's "
                "handlers). Wherever emitted control flow joins — patch_jump_to_here, emit_jump*_to_addr, patch_jump_to_addr, jumps to an external "
                "label parameter — all arriving heights must be equal on every generator path; functions whose net effect is determinate keep their "
                "reviewed contract (net height change, height of jumps to their label parameters). Data-dependent effects (Tuple(n), calls into the "
                "recursive compile_* family) end the decided part of a path: no verdict there")
    from qvlib import emit
    F = ctx.facts
    # exhaustiveness of the stack-effect table against the Instruction enum
    variants = F.variants(INSTR)
    known = set(emit.FIXED) | set(emit.DATA_DEPENDENT)
    ctx.check(set(variants) == known, R, "stack-effect-table", "every Instruction variant has a reviewed stack effect (%d)" % len(variants),
              "Instruction variants without a reviewed stack effect: %s (stale: %s)" % (sorted(set(variants) - known), sorted(known - set(variants))))
    results, summaries = emit.analyse_all(F, rounds=3, limit=12000)
    path = os.path.join(VERIF, "rules", "tables", "c07_emit.json")
    table = json.load(open(path)) if os.path.exists(path) else {"contracts": {}}
    # conditional contracts: functions whose effect depends only on flag / Option PARAMETERS (per combination: net effect, heights of tail calls)
    conds = {}
    for k, a in results.items():
        if k in summaries or "::{closure" in k or a.unknown_at or a.conflicts:
            continue
        c = a.conditional()
        if c and all("?" not in v["ret"] for v in c.values()) and any(v["at"] or v["ret"] != ["dead"] for v in c.values()):
            conds[k] = c
    if os.environ.get("QV_C07_GEN") == "1":
        json.dump({"contracts": {k: {"ret": v["ret"], "labels": {str(a): b for a, b in v["labels"].items()}} for k, v in sorted(summaries.items())
                                 if "::{closure" not in k},
                   "conditional": {k: v for k, v in sorted(conds.items())}},
                  open(path, "w"), indent=1)
        ctx.note("%s: contract table regenerated (%d + %d functions)" % (R, len(summaries), len(conds)))
        return
    n_obl = 0
    decided = 0
    lost = []
    n_conf = 0
    for k, a in sorted(results.items()):
        seen_c = set()
        for bi, msg in sorted(a.conflicts, key=lambda c: (c[0], len(c[1]), c[1])):
            key = a.body.loc(bi)
            if key in seen_c:
                continue
            seen_c.add(key)
            n_conf += 1
            ctx.violated(R, "%s|join" % k, "the code emitted by this function is not stack-balanced on some path: %s — a consistent height at each join is what "
                                          "lets the failure/merge code pop and fill the right slots" % msg, a.body.loc(bi))
        n_obl += len({(b, w, v) for b, w, v in a.obligations})
        if a.obligations and not a.conflicts:
            ctx.ok(R, "%s|joins" % k, "%d emitted join(s) with equal heights on every generator path explored (%s)" % (
                len({(b, w) for b, w, _v in a.obligations}), "complete" if a.complete and not a.unknown_at else "partial: data-dependent beyond"), a.body.loc(0))
        sm = summaries.get(k)
        ent = table["contracts"].get(k)
        if ent is not None:
            if sm is None:
                ctx.note("%s: %s no longer has a determinate net stack effect (reviewed: %s) — not decided" % (R, k.split("::")[-1], ent))
                lost.append(k.split("::")[-1])
            else:
                decided += 1
                labs = {str(p): v for p, v in sm["labels"].items()}
                ok = sm["ret"] == ent["ret"] and labs == ent["labels"]
                ctx.check(ok, R, "%s|contract" % k, "net effect %+d, jumps to its label parameters at %s (as reviewed)" % (sm["ret"], labs or "-"),
                          "the emitted code of %s now changes the stack height by %+d with label jumps at %s (reviewed contract: %+d, %s): its callers "
                          "(which cannot be analysed: data-dependent) still assume the old effect" % (k.split("::")[-1], sm["ret"], labs, ent["ret"], ent["labels"]),
                          a.body.loc(0))
    for k, ent in sorted((table.get("conditional") or {}).items()):
        a = results.get(k)
        cur = conds.get(k)
        if a is None or cur is None:
            ctx.note("%s: %s no longer has a parameter-determined stack effect — not decided" % (R, k.split("::")[-1]))
            continue
        decided += 1
        for facts, want in sorted(ent.items()):
            got_ = cur.get(facts)
            if got_ is None:
                continue      # that combination of parameter facts no longer reaches a return: nothing to compare
            ok = got_ == want
            ctx.check(ok, R, "%s|contract[%s]" % (k, facts), "net effect %s, tail calls / label jumps at %s (as reviewed)" % (want["ret"], want["at"] or "-"),
                      "with the parameters %s the emitted code of %s now has net effect %s and tail calls / label jumps at %s (reviewed: %s, %s): e.g. a "
                      "tail call executing one cell higher leaves a dead operand-stack cell per iteration" % (
                          facts, k.split("::")[-1], got_["ret"], got_["at"], want["ret"], want["at"]), a.body.loc(0))
    if not n_conf:
        ctx.floor(R, "generator functions with a decided contract", decided, 6)
        ctx.floor(R, "emitted-join equalities discharged", n_obl, 4)
    if lost and not n_conf:
        # fail closed: a reviewed determinate contract that can no longer be re-established is an obligation nobody discharges any more — the
        # callers of these functions are data-dependent and rely on it
        raise CheckError("%s: the reviewed net-effect contract of %s can no longer be established (the function's emitted stack effect became "
                         "path- or data-dependent) — cannot decide whether its callers are still balanced" % (R, ", ".join(sorted(lost))))
    ctx.extra["c07_emit"] = {"functions_analysed": len(results), "with_contract": decided, "join_equalities": n_obl,
                             "undecided": sorted(k.split("::")[-1] for k in results if k not in summaries)[:60]}


def r3_dispatch_tables(ctx):
    R = "R-C07-3"
    ctx.rule(R, "dispatch tables agree: is_cold's variant set = the arms of execute_cold; execute_hot's arms = all other variants; "
                "InstructionType::from_instruction is total")
    F = ctx.facts
    variants = F.variants(INSTR)

    def arm_variants(key, exclude_wild=True):
        fn = F.fn(key)
        ms = [m for m in hir.matches(hir.body_of(fn)) if (m.get("sty") or "").endswith("bytecode::Instruction")]
        if not ms:
            raise CheckError("%s: match over Instruction not found in %s" % (R, key))
        s = set()
        for arm in ms[0]["arms"]:
            h = hir.pat_head(arm["pat"], INSTR)
            if h != hir.ALL:
                s |= h
        return s, ms[0]
    cold_set, _ = arm_variants(EXEC + "::is_cold")
    cold_arms, _ = arm_variants(EXEC + "::execute_cold")
    hot_arms, _ = arm_variants(EXEC + "::execute_hot")
    ctx.check(cold_set == cold_arms, R, "is_cold==execute_cold", "is_cold marks exactly the variants execute_cold handles: %s" % sorted(cold_set),
              "is_cold says %s but execute_cold handles %s: the other dispatcher hits unreachable!() (worker panic)" % (sorted(cold_set), sorted(cold_arms)))
    ctx.check(hot_arms == set(variants) - cold_set, R, "execute_hot==complement", "execute_hot handles every non-cold variant (%d)" % len(hot_arms),
              "execute_hot handles %s; missing %s; extra %s" % (len(hot_arms), sorted(set(variants) - cold_set - hot_arms), sorted(hot_arms & cold_set)))
    fi = [k for k in F.fns if k.endswith("InstructionType::from_instruction")]
    if fi:
        s, m = arm_variants(fi[0])
        wild = any(hir.is_catch_all(a["pat"]) for a in m["arms"])
        ctx.check(s == set(variants) and not wild, R, "from_instruction-total", "from_instruction lists every variant explicitly",
                  "from_instruction misses %s" % sorted(set(variants) - s))


def r5_remap_order_and_freshness(ctx, rule_id="R-C07-5"):
    R = rule_id
    ctx.rule(R, "remap construction: tree_shake numbers every table by ascending old index (sort() before enumerate) so relative order — which "
                "merge_bytecode's single in-order function pass relies on — is preserved; merge_bytecode's five remap tables are fresh function-local "
                "maps, filled only from register_* / import_* results, and function_remap only from register_function(remap_function(..))")
    F = ctx.facts
    ts = F.body("quiver_core::optimisation::tree_shake")
    fl = Flow(ts, through_named=True)
    sorts = [(bi, t) for bi, t in ts.calls() if (t.get("callee") or "").split("::")[-1] in ("sort", "sort_unstable")]
    fl0t = Flow(ts)
    TCS = ("Iterator::collect", "Iterator::map", "Iterator::enumerate", "slice::iter", "Deref::deref", "IntoIterator::into_iter", "Iterator::next",
           "Iterator::copied", "Iterator::cloned", "Vec::iter", "FromIterator::from_iter", "Iterator::zip")
    # a sorted vector of old ids is OF KIND k when its elements index bytecode.<k> (that is how the new table is assembled)
    sorted_vecs = {}     # canonical local -> sort block
    for bi, t in sorts:
        c = fl0t.canon_op(t["args"][0]) or fl.canon_op(t["args"][0])
        if c:
            sorted_vecs[c[0]] = bi
            for l2 in fl.backward({c[0]}, through_calls=("Deref::deref", "DerefMut::deref_mut")):
                if "Vec<usize>" in (ts.local_ty(l2) or ""):
                    sorted_vecs.setdefault(l2, bi)
    kind_of = {}
    for bi, t in ts.calls():
        c = t.get("callee") or ""
        if (c.endswith("Index::index") or c.endswith("slice::get") or c.endswith("Vec::get")) and len(t["args"]) > 1:
            cp = fl.canon_op(t["args"][0])
            ip = op_place(t["args"][1])
            if not cp or not ip:
                continue
            fields = [e[1] for e in cp[1] if e[0] == "f" and (e[2] or "").endswith("bytecode::Bytecode")]
            if not fields:
                continue
            back = fl.backward({ip["l"]}, through_calls=TCS)
            for sv in sorted_vecs:
                if sv in back:
                    kind_of.setdefault(fields[0], set()).add(sv)
    # ... or the indexing happens in the closure handed to the iterator over the sorted vector (the closure captures &bytecode.<k>)
    for bi, t in ts.calls():
        c = t.get("callee") or ""
        if c.split("::")[-1] not in ("map", "filter_map", "for_each", "flat_map") or len(t["args"]) < 2:
            continue
        clp = op_place(t["args"][1])
        itp = op_place(t["args"][0])
        if not clp or not itp:
            continue
        back = fl.backward({itp["l"]}, through_calls=TCS)
        svs_here = [sv for sv in sorted_vecs if sv in back]
        if not svs_here:
            continue
        for _b2, _s2, st in ts.stmts():
            if st["k"] == "assign" and st["p"]["l"] == clp["l"] and st["rv"].get("closure"):
                cb_ = F.body(st["rv"]["closure"])
                cfl = Flow(cb_, through_named=True)
                for b3, t3 in cb_.calls():
                    if (t3.get("callee") or "").endswith("Index::index") and len(t3["args"]) > 1:
                        cp = cfl.canon_op(t3["args"][0])
                        if not cp or cp[0] != 1:
                            continue
                        up = [e[1] for e in cp[1] if e[0] == "f" and str(e[2] or "").startswith("closure:")]
                        if not up or not up[0].isdigit() or int(up[0]) >= len(st["rv"].get("ops", [])):
                            continue
                        pop = op_place(st["rv"]["ops"][int(up[0])])
                        pc = fl.canon_place(pop) if pop else None
                        srcs = [pc] if pc else []
                        # the captured reference: `&bytecode.<k>`
                        if pop:
                            for _b4, _s4, st4 in ts.stmts():
                                if st4["k"] == "assign" and st4["p"]["l"] == pop["l"] and st4["rv"]["k"] == "ref":
                                    srcs.append(fl.canon_place(st4["rv"]["p"]))
                        for sc in srcs:
                            fields = [e[1] for e in sc[1] if e[0] == "f" and (e[2] or "").endswith("bytecode::Bytecode")]
                            if fields:
                                for sv in svs_here:
                                    kind_of.setdefault(fields[0], set()).add(sv)
    maps = [l["i"] for l in ts.locals if (l["ty"] or "").startswith("std::collections::hash::map::HashMap<usize, usize")]
    for stem in ("functions", "constants", "tuples", "types", "builtins"):
        nm = "sorted_" + stem
        svs = kind_of.get(stem, set())
        ok = False
        for sv in svs:
            for m in maps:
                back = fl.backward({m}, through_calls=TCS)
                if sv in back:
                    # the sort happens before the numbering: the block that defines the map is reachable from the sort, not the other way round
                    defs = [d for d in ts.defs().get(m, []) if d[1] == "term"]
                    if any(ts.reaches(sorted_vecs[sv], d[0]) and not ts.reaches(d[0], sorted_vecs[sv]) for d in defs) or not defs:
                        ok = True
        if not sorted_vecs:
            raise CheckError("%s: no sorted id vector found in tree_shake (anchor drifted)" % R)
        ctx.check(ok, R, "tree_shake|%s" % nm, "the %s remap is built by enumerating the SORTED old indices that also select the new %s table" % (stem[:-1], stem),
                  "tree_shake no longer numbers %s by ascending old index (relative order of surviving items may change)" % stem)
    mb = F.body("quiver_environment::environment::Environment::merge_bytecode")
    flm = Flow(mb, through_named=True)
    fl0 = Flow(mb)
    feeders = {"constant_remap": ("register_constant",), "tuple_remap": ("import_tuple", "import_type"), "type_remap": ("import_type", "import_tuple"),
               "builtin_remap": ("register_builtin_info",), "function_remap": ("register_function",)}
    for nm, feed in feeders.items():
        # the table of this kind: the HashMap<usize, usize> local whose inserted values come from the kind's issuing call, or (type / tuple) the one
        # handed to import_type in the corresponding argument position — not looked up by variable name
        loc = []
        hm = [l["i"] for l in mb.locals if (l["ty"] or "").startswith("std::collections::hash::map::HashMap<usize, usize")]
        if nm in ("type_remap", "tuple_remap"):
            pos = 3 if nm == "type_remap" else 4
            for bi_, t_ in mb.calls():
                if (t_.get("callee") or "").endswith("environment::import_type") and len(t_["args"]) > pos:
                    c_ = fl0.canon_op(t_["args"][pos]) or flm.canon_op(t_["args"][pos])
                    if c_ and c_[0] in hm and c_[0] not in loc:
                        loc.append(c_[0])
        else:
            for bi_, t_ in mb.calls():
                if (t_.get("callee") or "").endswith("HashMap::insert") and len(t_["args"]) > 2 and op_place(t_["args"][2]):
                    srcs_ = flm.sources(op_place(t_["args"][2])["l"])
                    if srcs_ and any(x[0] == "call" and any((x[2].get("callee") or "").endswith(f) for f in feed) for x in srcs_):
                        c_ = fl0.canon_op(t_["args"][0]) or flm.canon_op(t_["args"][0])
                        if c_ and c_[0] in hm and c_[0] not in loc:
                            loc.append(c_[0])
        site = "merge_bytecode|%s" % nm
        if not loc:
            ctx.violated(R, site, "remap table %s is not a local of merge_bytecode (a table kept across merges answers a new program's ids with stale entries)" % nm)
            continue
        l = loc[0]
        defs = mb.defs().get(l, [])
        fresh = len(defs) == 1 and defs[0][1] == "term" and (defs[0][2].get("callee") or "").endswith("HashMap::new")
        ctx.check(fresh, R, site + "|fresh", "created empty by HashMap::new() in this call", "%s is not a fresh empty map per merge" % nm, mb.loc(0))
        ins = [(bi, t) for bi, t in mb.calls() if (t.get("callee") or "").endswith("HashMap::insert") and (fl0.canon_op(t["args"][0]) or (None,))[0] == l]
        for i, (bi, t) in enumerate(ins):
            v = op_place(t["args"][2])
            srcs = flm.sources(v["l"]) if v else []
            okv = bool(srcs) and all(x[0] == "call" and any((x[2].get("callee") or "").endswith(f) for f in feed) for x in srcs)
            ctx.check(okv, R, "%s|insert#%d" % (site, i), "new index comes from %s" % "/".join(feed),
                      "%s receives an index that is not the result of %s (sources %s)" % (nm, feed, [(x[0], (x[2].get("callee") or "").split("::")[-1] if x[0] == "call" else "") for x in srcs]),
                      mb.loc(bi))
        if nm in ("type_remap", "tuple_remap"):
            # filled inside import_type/import_tuple which receive &mut to it
            passed = any(any((fl0.canon_op(a) or (None,))[0] == l for a in t["args"]) for bi, t in mb.calls() if any((t.get("callee") or "").endswith(f) for f in ("environment::import_type", "environment::import_tuple")))
            ctx.check(passed, R, site + "|passed", "handed to import_type/import_tuple which memoise into it", "%s is no longer threaded through import_type/import_tuple" % nm)
        elif not ins:
            ctx.violated(R, site + "|insert", "no insert into %s found" % nm)
        # complete before use: a consultation of the table (`&table` handed to a remapper, or .get) is never followed by a loop that still fills it —
        # unless both sit in one loop (function_remap: a function refers to functions merged before it). remap_type_id & co. fall back to the
        # identity for a missing entry, so an early consultation silently keeps the incoming program's ids
        writes, reads = [], []
        for bi, t in mb.calls():
            for a in t["args"]:
                pl = op_place(a)
                if not pl:
                    continue
                c_ = fl0.canon_op(a) or flm.canon_op(a)
                if not c_ or c_[0] != l or c_[1]:
                    continue
                ty = mb.local_ty(pl["l"]) or ""
                if ty.startswith("&mut"):
                    writes.append(bi)
                elif ty.startswith("&"):
                    reads.append(bi)
        early = [(r, w) for r in reads for w in writes if r != w and mb.reaches(r, w) and not mb.reaches(w, r)]
        ctx.check(not early, R, site + "|complete-before-use", "every consultation of %s comes after the loop that fills it (or inside it)" % nm,
                  "%s is consulted at %s while a later loop (%s) still fills it: the lookup falls back to the identity and the merged item keeps ids of the "
                  "incoming program" % (nm, mb.loc(early[0][0]) if early else "?", mb.loc(early[0][1]) if early else "?"), mb.loc(early[0][0]) if early else mb.loc(0))
    # register_function argument is the remap_function result
    for bi, t in mb.calls_to("Program::register_function"):
        a = op_place(t["args"][1])
        srcs = flm.sources(a["l"]) if a else []
        ok = bool(srcs) and all(x[0] == "call" and (x[2].get("callee") or "").endswith("environment::remap_function") for x in srcs)
        ctx.check(ok, R, "merge_bytecode|register_function-arg", "every merged function is the output of remap_function",
                  "a function is registered without passing through remap_function", mb.loc(bi))
    # import loops cover every source index: 0..bytecode.types.len() and 0..bytecode.tuples.len()
    for fname, table in (("import_type", "types"), ("import_tuple", "tuples")):
        calls = [(bi, t) for bi, t in mb.calls() if (t.get("callee") or "").endswith("environment::" + fname)]
        ok = False
        for bi, t in calls:
            idx = op_place(t["args"][-1])
            fields, _d, consts, callees = flm.slice_reads(idx["l"], through_calls=("Iterator::next", "IntoIterator::into_iter", "Vec::len")) if idx else (set(), 0, [], set())
            if any(f == table for _o, f in fields) and mb.reaches(mb.succ[bi][0], bi):
                ok = True
        ctx.check(ok, R, "merge_bytecode|%s-loop" % fname, "%s is applied to every index 0..bytecode.%s.len()" % (fname, table),
                  "merge no longer imports every source %s index (ids reachable only through instructions would be missing from the remap table)" % table)


ID_SOURCES = {  # callee suffix -> kind of the returned id
    "Program::register_constant": "constant", "Program::register_tuple": "tuple", "Program::register_type": "type", "Program::register_function": "function",
    "Program::register_builtin": "builtin", "Program::register_builtin_info": "builtin", "Program::never": "type", "environment::import_type": "type",
    "environment::import_tuple": "tuple", "typing::union_type_ids": "type", "Program::inject_function_captures": "function",
}
ID_SINK_CALLS = {  # callee suffix -> {arg index: kind}
    "types::is_compatible": {0: "type", 1: "type"}, "types::types_overlap": {0: "type", 1: "type"}, "TypeLookup::lookup_type": {1: "type"},
    "TypeLookup::lookup_tuple": {1: "tuple"}, "Program::lookup_type": {1: "type"}, "Program::lookup_tuple": {1: "tuple"}, "Program::get_function": {1: "function"},
}
ID_SINK_INSTR = {"Constant": {0: "constant"}, "Tuple": {0: "tuple"}, "IsType": {0: "type"}, "Function": {0: "function"}, "Builtin": {0: "builtin"}, "Process": {1: "function"}}
ID_SINK_TYPE = {"Tuple": {0: "tuple"}}


def r4_id_kinds(ctx, rule_id="R-C07-4"):
    R = rule_id
    ctx.rule(R, "id-kind discipline: an index is only meaningful for the table it was issued for. Wherever the backward slice of an id operand "
                "(Instruction payloads, Type::Tuple, lookup_type/lookup_tuple/is_compatible arguments) reaches an issuing call in the same function "
                "(register_constant/tuple/type/function/builtin, never(), import_type/tuple, or the tuple-id constants NIL/OK), the issued kind "
                "must equal the kind the sink expects (ids that arrive through parameters or fields are unknown and not judged)")
    F = ctx.facts
    n = judged = 0
    for body in F.bodies():
        if body.fn["crate"] not in ("quiver_compiler", "quiver_core", "quiver_environment", "quiv") or body.fn.get("derived"):
            continue
        sinks = []
        for bi, si, s in agg_sites(body, "bytecode::Instruction"):
            for idx, kind in ID_SINK_INSTR.get(s["rv"]["variant"], {}).items():
                if idx < len(s["rv"]["ops"]):
                    sinks.append((bi, "Instruction::%s" % s["rv"]["variant"], s["rv"]["ops"][idx], kind))
        for bi, si, s in agg_sites(body, "types::Type"):
            for idx, kind in ID_SINK_TYPE.get(s["rv"]["variant"], {}).items():
                if idx < len(s["rv"]["ops"]):
                    sinks.append((bi, "Type::%s" % s["rv"]["variant"], s["rv"]["ops"][idx], kind))
        for bi, t in body.calls():
            c = t.get("callee") or ""
            for suf, m in ID_SINK_CALLS.items():
                if c.endswith(suf):
                    for idx, kind in m.items():
                        if idx < len(t["args"]):
                            sinks.append((bi, suf.split("::")[-1], t["args"][idx], kind))
        if not sinks:
            continue
        fl = Flow(body, through_named=True)
        for bi, what, op, kind in sinks:
            n += 1
            kinds = set()
            if op.get("c") == "const":
                d = op.get("def") or ""
                if d.endswith("types::NIL") or d.endswith("types::OK"):
                    kinds.add("tuple")
            p = op_place(op)
            if p is not None:
                for x in fl.sources(p["l"], through_calls=("Clone::clone", "Option::unwrap", "Try::branch", "Option::ok_or", "Option::ok_or_else", "Option::unwrap_or", "Option::copied", "Option::Some")):
                    if x[0] == "call":
                        cal = x[2].get("callee") or ""
                        for suf, k in ID_SOURCES.items():
                            if cal.endswith(suf):
                                kinds.add(k)
                    elif x[0] == "const":
                        d = x[1].get("def") or ""
                        if d.endswith("types::NIL") or d.endswith("types::OK"):
                            kinds.add("tuple")
            if not kinds:
                continue
            judged += 1
            site = "%s|%s<-%s" % (body.key, what, "/".join(sorted(kinds)))
            ctx.check(kinds == {kind}, R, site, "%s id feeds %s" % (kind, what),
                      "a %s id is used where %s expects a %s id: it addresses an unrelated entry of another table" % ("/".join(sorted(kinds)), what, kind), body.loc(bi))
    ctx.extra["id_kind_sinks"] = {"examined": n, "with_known_source": judged}
    ctx.floor(R, "id sinks with a known issuing call", judged, 20)


def r6_nil_fill(ctx, rule_id="R-C07-6"):
    R = rule_id
    ctx.rule(R, "failure-path nil fill keeps local indices aligned: in compile_match, after the fail trampoline is patched (on_no_match is None) "
                "every path to the failure-path `Pop` emission passes the loop that emits Tuple(NIL)+Store once per binding")
    F = ctx.facts
    b = F.body("quiver_compiler::compiler::Compiler::compile_match")
    fl = Flow(b, through_named=True)
    phs = [(bi, t) for bi, t in b.calls() if IB in (t.get("callee") or "") and t["callee"].endswith("emit_jump_placeholder")]
    if len(phs) < 2:
        raise CheckError("%s: the start/fail placeholder pair was not found in compile_match" % R)
    fail_ph = phs[1][1]["dest"]["l"]
    fw = Flow(b).forward({fail_ph})
    P = [bi for bi, t in b.calls() if IB in (t.get("callee") or "") and t["callee"].endswith("patch_jump_to_here") and (op_place(t["args"][1]) or {}).get("l") in fw]
    if len(P) != 1:
        raise CheckError("%s: expected one patch_jump_to_here(fail_jump_addr), found %d" % (R, len(P)))
    # the nil-fill loop: into_iter over a Range bounded by bindings.len(), with a Store emitted inside
    stores = [bi for bi, si, s in agg_sites(b, "bytecode::Instruction", "Store")]
    L = []
    for bi, t in b.calls():
        if call_matches(t, ("IntoIterator::into_iter",)) and t["args"] and "Range<usize>" in b.local_ty(op_place(t["args"][0])["l"] if op_place(t["args"][0]) else 0):
            callees = fl.slice_reads(op_place(t["args"][0])["l"], through_calls=())[3]
            inside = [sb for sb in stores if b.reaches(bi, sb) and b.reaches(sb, sb)]
            if any(c.endswith("Vec::len") for c in callees) and inside:
                L.append(bi)
    pops = [bi for bi, si, s in agg_sites(b, "bytecode::Instruction", "Pop") if b.reaches(P[0], bi)]
    ctx.floor(R, "nil-fill loops after the fail patch", len([l for l in L if b.reaches(P[0], l)]), 1)
    ctx.floor(R, "failure-path Pop emissions", len(pops), 1)
    w = None
    for x in b.succ[P[0]]:
        w = w or explore(b, [x], avoid=L, want="target", targets=pops)
    ctx.check(w is None, R, b.key + "|nil-fill", "the per-binding Tuple(NIL)+Store loop is passed on every path from the fail patch to the failure-path Pop",
              "a path from the failure trampoline reaches the failure-path Pop without the per-binding nil fill (later Loads read shifted slots): %s"
              % (w and " -> ".join("bb%d" % x for x in w[:12])), b.loc(P[0]))
    # the loop emits exactly Tuple(NIL) then Store
    tn = [bi for bi, si, s in agg_sites(b, "bytecode::Instruction", "Tuple") if any(b.reaches(l, bi) and b.reaches(bi, l) is not None for l in L) and b.reaches(bi, bi)]
    ctx.check(bool(tn), R, b.key + "|nil-fill-shape", "the loop body emits Instruction::Tuple(..) before Instruction::Store", "the nil-fill loop no longer emits a Tuple before its Store", b.loc(P[0]))


def run(ctx):
    ctx.run_rules([r1_jump_provenance, r2_index_fields, r3_dispatch_tables, r4_id_kinds, r5_remap_order_and_freshness, r6_nil_fill, r7_emitted_stack_discipline])
    ctx.note("NOT decided: per-path stack height, single argument/result, definite locals of emitted functions — properties of compiler output for all inputs")
    return (
        "Decides structural clauses only: jumps are built by one audited formula from in-range targets; the index-carrying instruction and type "
        "fields (derived from the executor and the ADTs) are followed by every mark / sweep / merge-remap walker through the right table; the "
        "hot/cold dispatch tables agree; remap tables are order-preserving, fresh per merge and fed only by register_*/import_* results. The main "
        "claim (stack discipline and definite locals of emitted bytecode on every path) is NOT decidable from the compiler's source and is not claimed.",
        "obligations are constructor sites, match arms and struct-literal fields of the resolved workspace; discharged by HIR pattern matrices, "
        "MIR value-source slices and who-may-construct censuses",
    )
