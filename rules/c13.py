"""C13 — equality is structural and construction-independent; refs are unique (structural clauses)."""
from qvlib import hir
from qvlib.extract import CheckError
from qvlib.facts import op_local, op_place
from qvlib.paths import Flow, agg_sites, explore

CRATES = None
OPTIONAL_FNS = ("Executor::canonical_tuple", "Worker::notify_result", "Worker::deliver_message", "Worker::update_program")      # R-C13-1 / R-C13-3 fall back to direct reads of Executor.canonical_tuples
EXEC = "quiver_core::executor::Executor"
VALUE = "quiver_core::value::Value"
BINARY = "quiver_core::value::Binary"


def is_false_arm(arm):
    b = arm["body"]
    return b["e"] == "lit" and b.get("text") == "Bool(false)"


def r1_equality_table(ctx):
    R = "R-C13-1"
    ctx.rule(R, "values_equal: every diagonal pair (V,V) of Value variants has an explicit arm, every off-diagonal pair falls to `_ => false` "
                "(symmetric by construction); binaries are compared by bytes for all four Constant/Heap pairs, tuples by canonical shape + length + "
                "recursive fields, functions by index + recursive captures")
    F = ctx.facts
    fn = F.fn(EXEC + "::values_equal")
    body = hir.body_of(fn)
    ms = hir.matches(body, "Normal")
    top = [m for m in ms if m.get("sty", "").startswith("(&quiver_core::value::Value, &quiver_core::value::Value)")]
    if len(top) != 1:
        raise CheckError("R-C13-1: top-level match (a, b) over Value x Value not found in values_equal")
    m = top[0]
    vs = F.variants(VALUE)
    for a in vs:
        for b in vs:
            arms = hir.arms_for_pair(m, VALUE, VALUE, a, b)
            site = "%s|(%s,%s)" % (fn["key"], a, b)
            if not arms:
                ctx.violated(R, site, "pair not covered")
                continue
            _i, arm, definite = arms[0]
            if a == b:
                ok = definite and not is_false_arm(arm) and not hir.is_catch_all(arm["pat"])
                ctx.check(ok, R, site, "explicit arm compares two %s values" % a,
                          "no explicit arm for (%s, %s): a %s value is not equal to itself (equality not reflexive)" % (a, b, a),
                          "%s:%d" % (fn["file"], arm["ln"]))
            else:
                ok = is_false_arm(arm) and definite
                if not ok:
                    # symmetric handling is acceptable if the mirrored pair hits the same arm
                    mirror = hir.arms_for_pair(m, VALUE, VALUE, b, a)
                    ok = bool(mirror) and mirror[0][0] == arms[0][0]
                ctx.check(ok, R, site, "distinct kinds are unequal (or handled by one arm symmetric with its mirror)",
                          "(%s, %s) is handled by an arm that its mirror (%s, %s) does not share: equality not symmetric" % (a, b, b, a),
                          "%s:%d" % (fn["file"], arm["ln"]))
    # Binary sub-match
    sub = [x for x in ms if x.get("sty", "").startswith("(&quiver_core::value::Binary, &quiver_core::value::Binary)")]
    if len(sub) != 1:
        raise CheckError("R-C13-1: Binary x Binary sub-match not found")
    sm = sub[0]
    for a in F.variants(BINARY):
        for b in F.variants(BINARY):
            arms = hir.arms_for_pair(sm, BINARY, BINARY, a, b)
            site = "%s|Binary(%s,%s)" % (fn["key"], a, b)
            if not arms or hir.is_catch_all(arms[0][1]["pat"]):
                ctx.violated(R, site, "binary representation pair (%s, %s) has no explicit arm: equal bytes built differently would compare unequal" % (a, b))
                continue
            arm = arms[0][1]
            keys = hir.call_keys(arm["body"])
            reads = []
            for side, v in (("a", a), ("b", b)):
                pass
            need = set()
            if "Constant" in (a, b):
                need.add("get_constant")
            if "Heap" in (a, b):
                need.add("heap.get")
            have = set()
            if any(k.endswith("Executor::get_constant") for k in keys):
                have.add("get_constant")
            for x in hir.walk(arm["body"]):
                if x["e"] == "mcall" and x["m"] == "get" and x["recv"]["e"] == "field" and x["recv"]["name"] == "heap":
                    have.add("heap.get")
            # no comparison of the raw indices
            idx_names = {nm for nm, _p in hir.pat_bindings(arm["pat"])}
            raw_cmp = False
            for x in hir.walk(arm["body"]):
                if x["e"] == "binary" and x["op"] in ("Eq", "Ne"):
                    names = set(hir.local_names(x["l"])) | set(hir.local_names(x["r"]))
                    direct = [n for n in (x["l"], x["r"]) if n["e"] in ("path", "unary") and set(hir.local_names(n)) & idx_names and not hir.calls(n)]
                    if len(direct) == 2:
                        raw_cmp = True
            ok = need <= have and not raw_cmp
            ctx.check(ok, R, site, "bytes are fetched (%s) and compared, never the indices" % sorted(have),
                      "binary pair (%s, %s) does not compare contents (needs %s, has %s, raw index comparison=%s)" % (a, b, sorted(need), sorted(have), raw_cmp),
                      "%s:%d" % (fn["file"], arm["ln"]))
    # Tuple / Function arms
    for v, needs in (("Tuple", ("canonical_tuple", "values_equal", "len")), ("Function", ("values_equal", "len"))):
        arm = hir.arms_for_pair(m, VALUE, VALUE, v, v)[0][1]
        keys = hir.call_keys(arm["body"]) + hir.method_names(arm["body"])
        # the canonical shape of a tuple id: the canonical_tuple() accessor, or (accessor inlined by hand) a read of the canonical_tuples table itself
        table_reads = sum(1 for x in hir.walk(arm["body"]) if x["e"] == "field" and x.get("name") == "canonical_tuples")
        ok = all(any(k.endswith(n) for k in keys) or (n == "canonical_tuple" and table_reads >= 2) for n in needs)
        qs = hir.quantifiers(arm["body"], lambda c: "values_equal" in (hir._callee_key(c) or c.get("key") or ""))
        if "unknown" in qs or not qs:
            raise CheckError("%s: the element-wise comparison of the %s arm of values_equal has a shape that cannot be classified (%s)" % (R, v, qs))
        if v == "Tuple":
            ok = ok and (sum(1 for k in hir.call_keys(arm["body"]) if k.endswith("canonical_tuple")) >= 2 or table_reads >= 2)
            ok = ok and "all" in qs and "any" not in qs
        if v == "Function":
            binds = [nm for nm, path in hir.pat_bindings(arm["pat"]) if path and path[-1][1] == 0]
            idx_eq = False
            for x in hir.walk(arm["body"]):
                if x["e"] == "binary" and x["op"] == "Eq" and set(hir.local_names(x)) >= set(binds) and len(binds) == 2:
                    idx_eq = True
            ok = ok and idx_eq and "all" in qs and "any" not in qs
        ctx.check(ok, R, "%s|%s-arm" % (fn["key"], v), "%s arm: %s" % (v, ", ".join(needs)),
                  "%s arm no longer compares %s" % (v, needs), "%s:%d" % (fn["file"], arm["ln"]))
    # Equal instruction uses values_equal
    he = F.body(EXEC + "::handle_equal")
    ctx.check(bool(he.calls_to("Executor::values_equal")) or any("values_equal" in k for k in F.reach([he.key])), R, he.key + "|uses", "Equal(n) is decided by values_equal",
              "handle_equal no longer calls values_equal")


def r2_ref_minting(ctx):
    R = "R-C13-2"
    ctx.rule(R, "Value::Reference is minted only in Executor::create_ref ((worker_id << 48) | next_ref, counter advanced on every path); every other "
                "construction copies an existing ref; create_ref is called only by builtin_reference; the worker id reaches Executor::new unchanged; "
                "no compile-time ref can be re-emitted as an instruction")
    F = ctx.facts
    n = 0
    for body in F.bodies():
        sites = [(bi, si, s["rv"]["ops"][0], "agg") for bi, si, s in agg_sites(body, "value::Value", "Reference")]
        for bi, t in body.calls():
            if t.get("callee") == VALUE + "::Reference":
                sites.append((bi, "term", t["args"][0], "ctor-call"))
        for i, (bi, si, op, kind) in enumerate(sites):
            n += 1
            site = "%s|Value::Reference#%d" % (body.key, i)
            loc = body.loc(bi, si if si != "term" else None)
            if body.key == EXEC + "::create_ref":
                ctx.ok(R, site, "the mint", loc)
                continue
            fl = Flow(body, through_named=True)
            p = op_place(op)
            copies = False
            if p:
                _f, downs, _c, _callees = fl.slice_reads(p["l"], through_calls=("Clone::clone",))
                copies = "Reference" in downs or any(e[0] == "d" and e[1] == "Reference" for e in p["pr"])
            if copies:
                ctx.ok(R, site, "copies the payload of an existing Value::Reference", loc)
            elif body.fn["crate"] == "quiver_web" and body.key.startswith("quiver_web::types::Value::to_core"):
                ctx.exception(R, site, "reviewed: quiver-web's JS bridge reconstructs refs that were previously exported from a core value (host round trip)", loc)
            elif "_serde" in body.key or "Deserialize" in body.key or "deserialize" in body.key:
                ctx.exception(R, site, "reviewed: serde-derived deserialisation of a Value that was serialised from an existing ref (worker transport)", loc)
            else:
                ctx.violated(R, site, "a ref is fabricated outside Executor::create_ref (two refs from different mintings could be equal)", loc)
    ctx.floor(R, "Value::Reference construction sites", n, 3)
    cr = F.body(EXEC + "::create_ref")
    fl = Flow(cr, through_named=True)
    # counter advanced on every path
    incs = []
    for bi, si, s in cr.stmts():
        if s["k"] == "assign":
            fs = [e for e in s["p"]["pr"] if e[0] == "f"]
            if fs and fs[-1][1] == "next_ref":
                srcs = fl.sources(op_place(s["rv"]["op"])["l"]) if s["rv"]["k"] == "use" and op_place(s["rv"]["op"]) else []
                add = [x for x in srcs if x[0] == "rv" and x[2]["rv"]["k"] == "bin" and x[2]["rv"]["op"].startswith("Add")]
                one = any((x[2]["rv"]["r"].get("val") == 1) or (x[2]["rv"]["l"].get("val") == 1) for x in add)
                reads = any("next_ref" in str(x[2]["rv"]) for x in add)
                if add and one and reads:
                    incs.append(bi)
    bad = explore(cr, [0], avoid=incs, want="return") if incs else [0]
    ctx.check(bool(incs) and bad is None, R, cr.key + "|advance", "next_ref = next_ref + 1 on every path through create_ref",
              "create_ref can return without advancing next_ref (the next mint repeats the id)", cr.loc(0))
    # the id formula
    ors = [(bi, si, s) for bi, si, s in cr.stmts() if s["k"] == "assign" and s["rv"]["k"] == "bin" and s["rv"]["op"] == "BitOr"]
    shl = [(bi, si, s) for bi, si, s in cr.stmts() if s["k"] == "assign" and s["rv"]["k"] == "bin" and s["rv"]["op"].startswith("Shl")]
    ok = len(ors) == 1 and len(shl) >= 1 and any(s["rv"]["r"].get("val") == 48 for _b, _i, s in shl)
    if ok:
        bi, si, s = ors[0]
        fields, _d, _c, _cal = fl.slice_reads(s["p"]["l"])
        names = {f for _o, f in fields}
        ok = {"next_ref", "worker_id"} <= names
        sh_fields = set()
        for _b, _i, s2 in shl:
            sh_fields |= {f for _o, f in fl.slice_reads(s2["p"]["l"])[0]}
        ok = ok and "worker_id" in sh_fields and "next_ref" not in sh_fields
        # the read of next_ref that feeds the id precedes the increment's write (the id itself may be assembled later)
        back = fl.backward({s["p"]["l"]})
        reads = []
        for b3, s3, st3 in cr.stmts():
            if st3["k"] == "assign" and st3["p"]["l"] in back and not st3["p"]["pr"]:
                rp = op_place(st3["rv"].get("op") or {}) if st3["rv"]["k"] == "use" else (st3["rv"].get("p") if st3["rv"]["k"] in ("ref",) else None)
                ops_ = [rp] if rp else [op_place(st3["rv"].get(k_) or {}) for k_ in ("l", "r")]
                if any(o_ and any(e[0] == "f" and e[1] == "next_ref" for e in o_["pr"]) for o_ in ops_):
                    reads.append((b3, s3))
        writes = [(b3, s3) for b3, s3, st3 in cr.stmts() if st3["k"] == "assign" and [e for e in st3["p"]["pr"] if e[0] == "f"] and
                  [e for e in st3["p"]["pr"] if e[0] == "f"][-1][1] == "next_ref"]
        ok = ok and bool(reads) and bool(writes) and all((rb != wb and cr.dominates(rb, wb) and not cr.reaches(wb, rb)) or (rb == wb and rs < ws)
                                                         for rb, rs in reads for wb, ws in writes)
    ctx.check(ok, R, cr.key + "|formula", "ref = (worker_id << 48) | next_ref, read before the increment",
              "the ref id is no longer (worker_id << 48) | next_ref", cr.loc(0))
    callers = sorted({k for k, _ in F.callers_of(cr.key)})
    ctx.check(callers == ["quiver_core::builtins::reference::builtin_reference"], R, "callers(create_ref)", "create_ref has one caller (builtin_reference)",
              "create_ref callers: %s" % callers)
    ctx.check(cr.fn.get("vis", "").startswith("Restricted"), R, cr.key + "|visibility", "create_ref is not public outside quiver_core",
              "create_ref became public (%s)" % cr.fn.get("vis"))
    # next_ref writers
    writers = set()
    for body in F.bodies(crate="quiver_core"):
        for bi, si, s in body.stmts():
            if s["k"] == "assign":
                fs = [e for e in s["p"]["pr"] if e[0] == "f"]
                if fs and fs[-1][1] in ("next_ref", "worker_id") and (fs[-1][2] or "").endswith("executor::Executor"):
                    writers.add(body.key)
        for bi, si, s in agg_sites(body, "executor::Executor"):
            writers.add(body.key)
    ctx.check(writers <= {cr.key, EXEC + "::new"}, R, "writers(next_ref, worker_id)", "next_ref/worker_id are written only by create_ref and Executor::new",
              "next_ref/worker_id written by %s" % sorted(writers))
    # worker id plumbing
    wn = F.body("quiver_environment::worker::Worker::new")
    flw = Flow(wn)
    wid = [l["i"] for l in wn.params() if l["ty"] == "u16"]
    ok = False
    for bi, t in wn.calls_to("Executor::new"):
        c = flw.canon_op(t["args"][2]) if len(t["args"]) > 2 else None
        ok = ok or (c is not None and wid and c[0] == wid[0] and not c[1])
    ctx.check(ok, R, wn.key + "|worker_id", "Worker::new passes its worker_id parameter unchanged to Executor::new",
              "Worker::new no longer forwards its worker_id to the executor (refs of different workers may collide)", wn.loc(0))
    ctx.note("assumption: worker ids are distinct at spawn_worker call sites (loop index) and a worker mints fewer than 2^48 refs")
    # converters: no instruction for Reference / Process / Resource
    for key, crate in (("quiver_core::program::Program::value_to_instructions", None), ("quiver_compiler::compiler::Compiler::value_to_instructions_from_cache", None)):
        fn = F.fn(key)
        ms = [x for x in hir.matches(hir.body_of(fn), "Normal") if "value::Value" in x.get("sty", "")]
        if not ms:
            raise CheckError("R-C13-2: match over Value not found in %s" % key)
        m = ms[0]
        for v in ("Reference", "Process", "Resource"):
            arms = hir.arms_for_variant(m, VALUE, v)
            site = "%s|%s" % (key, v)
            if not arms:
                ctx.violated(R, site, "variant not covered")
                continue
            arm = arms[0][1]
            emits = [c for c in hir.ctors(arm["body"]) if (c[0] or "").endswith("bytecode::Instruction")]
            diverges = any((k or "").endswith("panic_fmt") or (k or "").endswith("panicking::panic") for k in hir.call_keys(arm["body"])) or any(
                c[1] == "Err" for c in hir.ctors(arm["body"]))
            ctx.check(not emits and diverges, R, site, "a compile-time %s value is never re-emitted as an instruction (error/diverge)" % v,
                      "a compile-time %s value can be converted into instructions (a compile-time ref could alias a runtime ref)" % v,
                      "%s:%d" % (fn["file"], arm["ln"]))


def r3_canonical_shapes(ctx):
    R = "R-C13-3"
    ctx.rule(R, "the canonical-shape table is recomputed from the full tuple table at every program update and replaced in the executor "
                "(shared with R-C08-2/3); compute_canonical_tuples keys shapes by (name, field labels) only")
    from rules import c08
    before = len(ctx.obs)
    c08.r2_tables_describe_whole_program(ctx)
    c08.r3_update_program_replaces(ctx)
    # keep only the canonical_tuples-related obligations under this rule id
    kept = []
    for o in ctx.obs[before:]:
        if "canonical" in o["site"] or "ProgramUpdate literals" in o["site"]:
            o = dict(o)
            o["rule"] = R
            kept.append(o)
    ctx.obs[before:] = kept
    ctx.floors[:] = [f for f in ctx.floors if not f["rule"].startswith("R-C08")]
    for k in list(ctx.rules):
        if k.startswith("R-C08"):
            del ctx.rules[k]
    F = ctx.facts
    fn = F.fn("quiver_core::compatibility::compute_canonical_tuples")
    cl = [F.fns[k] for k in F.closures_of(fn["key"])]
    body = hir.body_of(fn)
    fields = [x["name"] for x in hir.walk(body) if x["e"] == "field" and x.get("xadt", "") and x["xadt"].endswith("TupleTypeInfo")]
    ok = "name" in fields and "fields" in fields and any(m == "or_insert" for m in hir.method_names(body))
    ctx.check(ok, R, fn["key"] + "|shape-key", "shape key = (info.name, labels of info.fields), first id wins (or_insert)",
              "canonical shape key no longer built from the tuple name and field labels", "%s:%d" % (fn["file"], fn["line"]))
    ce = F.body(EXEC + "::canonical_tuple") if (EXEC + "::canonical_tuple") in F.fns else F.body(EXEC + "::values_equal")     # accessor inlined by hand
    flc = Flow(ce)
    ok = any(t["args"] and flc.canon_op(t["args"][0]) and flc.mentions_field(flc.canon_op(t["args"][0]), "executor::Executor", "canonical_tuples") for bi, t in ce.calls())
    ctx.check(ok, R, ce.key + "|lookup", "canonical_tuple reads Executor.canonical_tuples", "canonical_tuple no longer consults the table", ce.loc(0))


def r4_process_handle_identity(ctx):
    R = "R-C13-4"
    ctx.rule(R, "a process handle means the same process wherever it was produced: Value::Process(pid, function_index) is constructed only at the "
                "reviewed sites, and the handle a process makes of ITSELF (handle_self) takes function_index from the process's ENTRY frame "
                "(frames.first()), the same index the spawn result carries — never from the frame that happens to be running (equality compares both "
                "components)")
    F = ctx.facts
    allowed = {
        EXEC + "::handle_self": "self handle",
        EXEC + "::handle_process_ref": "Instruction::Process payload (emitted from environment data)",
        "quiver_core::executor::remap_heap_indices": "copy of an existing handle",
        "quiver_environment::worker::Worker::handle_command": "spawn notification: the spawned function's index from the environment's command",
    }
    n = 0
    for body in F.bodies():
        if body.fn.get("derived") or body.fn["crate"] not in ("quiver_core", "quiver_environment", "quiver_io"):
            continue
        for bi, si, s in agg_sites(body, "value::Value", "Process"):
            n += 1
            base = body.key.split("::{closure")[0]
            site = "%s|Value::Process" % base
            if "_serde" in body.key or "eserialize" in body.key or "Clone" in body.key:
                continue
            ctx.check(base in allowed, R, site, "reviewed construction site (%s)" % allowed.get(base, ""),
                      "a process handle is fabricated outside the reviewed sites: handles of one process made in different places may not compare equal",
                      body.loc(bi, si))
    ctx.floor(R, "Value::Process construction sites", n, 3)
    hs = F.body(EXEC + "::handle_self")
    fl = Flow(hs, through_named=True)
    for bi, si, s in agg_sites(hs, "value::Value", "Process"):
        ops = s["rv"]["ops"]
        p = op_place(ops[1]) if len(ops) > 1 else None
        TC = ("Option::ok_or", "Try::branch", "Option::unwrap", "Option::expect", "Option::map", "Deref::deref", "Option::unwrap_or", "Option::ok_or_else")
        callees = set()
        fields = set()
        if p:
            back = fl.backward({p["l"]}, through_calls=TC + ("slice::first", "slice::last", "Vec::first", "Vec::last", "slice::get", "Vec::get", "Index::index",
                                                            "slice::first_mut", "slice::last_mut", "Vec::last_mut", "Vec::first_mut"))
            for b2, t2 in hs.calls():
                if t2["dest"]["l"] in back:
                    callees.add((t2.get("callee") or "").split("::")[-1])
            fields = fl.slice_reads(p["l"], through_calls=TC + ("slice::first", "slice::last", "slice::first_mut", "slice::last_mut"))[0]
        from_frames = any(f == "frames" and (o or "").endswith("process::Process") for o, f in fields) and any(f == "function_index" for _o, f in fields)
        first = "first" in callees or "first_mut" in callees
        other = callees & {"last", "last_mut", "get", "index", "get_mut", "index_mut", "pop"}
        ctx.check(from_frames and first and not other, R, hs.key + "|entry-frame", "function_index = process.frames.first().function_index",
                  "handle_self takes the handle's function index from %s instead of the entry frame (frames.first()): a pid obtained inside a called "
                  "function differs from every other handle of the same process" % (sorted(other) or "something else"), hs.loc(bi, si))


NARROWING = ("to_i64", "to_u64", "to_i32", "to_u32", "to_i128", "to_u128", "to_usize", "to_isize", "to_i16", "to_u16", "to_i8", "to_u8", "to_f64", "to_f32",
             "try_from", "try_into")


def r5_no_lossy_comparison(ctx):
    R = "R-C13-5"
    ctx.rule(R, "equality is decided on the values themselves: in the executor's equality code (handle_equal, values_equal, their closures and helpers) no "
                "`==` / `!=` compares the results of two NARROWING conversions (to_i64, to_u64, try_into, to_f64, ...) — `a.to_i64() == b.to_i64()` makes "
                "every pair of out-of-range integers equal (None == None) and a float round-trip merges neighbours")
    F = ctx.facts
    keys = []
    for k in (EXEC + "::handle_equal", EXEC + "::values_equal"):
        keys += F.with_closures(k)
    n = 0
    bad = []
    for k in keys:
        if k not in F.fns or not F.fns[k].get("mir"):
            continue
        b = F.body(k)
        fl = Flow(b, through_named=True)

        def narrowed(o):
            """the operand is the RAW result of a narrowing conversion (an Option / Result compared as such: None == None), or its payload with a default
            substituted for out-of-range values (unwrap_or ..). A payload taken after a Some / Ok test (pattern, unwrap, `?`) is a checked fast path."""
            pl = op_place(o)
            if not pl:
                return None
            ty = b.local_ty(pl["l"]) or ""
            while ty.startswith("&"):
                ty = ty[1:].lstrip()
            raw = ty.startswith(("core::option::Option<", "core::result::Result<", "std::option::Option<", "std::result::Result<"))
            through = ("Deref::deref", "Clone::clone", "Option::as_ref", "Option::copied", "Option::cloned") if raw else \
                ("Option::unwrap_or", "Option::unwrap_or_default", "Option::unwrap_or_else", "Result::unwrap_or", "Result::unwrap_or_default", "Option::map_or")
            srcs = fl.sources(pl["l"], through_calls=through)
            if not raw and not any(x[0] == "const" for x in srcs) and not any(True for _b, t in b.calls() if t["dest"]["l"] in fl.backward({pl["l"]}, through_calls=through)
                                                                                and (t.get("callee") or "").split("::")[-1].startswith(("unwrap_or", "map_or"))):
                return None
            calls = [x for x in srcs if x[0] == "call" and (x[2].get("callee") or "").split("::")[-1] in NARROWING]
            if not calls:
                return None
            if not raw:
                # payload-with-default form: the defaulting adaptor must be on the way
                used = any((t.get("callee") or "").split("::")[-1].startswith(("unwrap_or", "map_or")) and t["dest"]["l"] in (fl.backward({pl["l"]}, through_calls=through) | {pl["l"]})
                           for _b, t in b.calls())
                if not used:
                    return None
            return calls[0][2].get("callee").split("::")[-1]
        for bi, si, st in b.stmts():
            if st["k"] == "assign" and st["rv"]["k"] == "bin" and st["rv"]["op"] in ("Eq", "Ne"):
                n += 1
                l, r = narrowed(st["rv"]["l"]), narrowed(st["rv"]["r"])
                if l and r:
                    bad.append((k, "%s == %s" % (l, r), b.loc(bi, si)))
        for bi, t in b.calls():
            c = t.get("callee") or ""
            if c.split("::")[-1] in ("eq", "ne") and "PartialEq" in c and len(t["args"]) >= 2:
                n += 1
                l, r = narrowed(t["args"][0]), narrowed(t["args"][1])
                if l and r:
                    bad.append((k, "%s == %s" % (l, r), b.loc(bi)))
    ctx.floor(R, "comparisons in the equality code", n, 3)
    ctx.check(not bad, R, EXEC + "::handle_equal|no-lossy-comparison", "no comparison of narrowed operands among %d comparisons" % n,
              "equality is decided by comparing narrowed conversions (%s): all values outside the target range compare equal" %
              "; ".join("%s in %s at %s" % (w, k.split("::")[-1], loc) for k, w, loc in bad[:3]), bad[0][2] if bad else None)


def run(ctx):
    ctx.run_rules([r1_equality_table, r2_ref_minting, r3_canonical_shapes, r4_process_handle_identity, r5_no_lossy_comparison])
    return (
        "Decides: coverage/symmetry of the values_equal variant-pair table (diagonal explicit, off-diagonal false, all binary representation "
        "pairs compared by content, tuples by canonical shape), single minting site for refs with an advancing counter and unchanged worker-id "
        "plumbing, no re-emission of compile-time refs, canonical-shape table recomputed at each update. Does NOT decide that every construction "
        "path yields ids the canonical table reconciles.",
        "obligations are variant pairs of the equality match, Value::Reference construction sites, and table-update sites; discharged by HIR "
        "pattern matrices and MIR value-source checks",
    )
