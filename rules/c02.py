"""C02 — compiled execution agrees with the reference semantics (one structural clause: placeholder <-> patch pairing)."""
from qvlib.extract import CheckError
from qvlib.facts import op_place
from qvlib.paths import Flow, call_matches, diverging_blocks, err_blocks, explore, path_desc

CRATES = ["quiver_compiler", "quiver_core"]
PH = ("emit_jump_placeholder", "emit_jump_if_placeholder", "emit_duplicate_jump_if_nil", "emit_type_check_branch")
PATCH = ("patch_jump_to_here", "patch_jump_to_addr")
ADAPT = ("IntoIterator::into_iter", "Iterator::next", "Vec::drain", "slice::iter", "Option::unwrap", "Clone::clone", "Iterator::copied", "Option::copied",
         "Vec::iter", "Iterator::enumerate", "Iterator::rev", "Option::Some")
IB = "codegen::InstructionBuilder"
import json, os
from qvlib.extract import VERIF
TABLE = json.load(open(os.path.join(VERIF, "rules", "tables", "c02.json")))


def ib_call(t, names):
    c = t.get("callee") or ""
    return IB in c and c.split("::")[-1] in names


def always_none_param(F, fn_key, param_local, seen=None):
    """True if every call site passes a `None` aggregate for this parameter, or forwards its own always-None parameter."""
    seen = seen or set()
    if (fn_key, param_local) in seen:
        return True
    seen.add((fn_key, param_local))
    callers = F.callers_of(fn_key)
    if not callers:
        return False
    for ck, cb in callers:
        b = F.body(ck)
        t = b.blocks[cb]["term"]
        if param_local - 1 >= len(t["args"]):
            return False
        a = t["args"][param_local - 1]
        p = op_place(a)
        if p is None:
            return False
        fl = Flow(b, through_named=True)
        srcs = fl.sources(p["l"], stop_at_agg=True)
        if not srcs:
            return False
        for s in srcs:
            if s[0] == "rv" and s[2]["rv"]["k"] == "agg" and s[2]["rv"].get("variant") == "None":
                continue
            if s[0] == "arg" and always_none_param(F, ck, s[1], seen):
                continue
            return False
    return True


def none_env(F, body):
    """start environment: discriminant 0 (None) for Option parameters that are None at every call site (dead parameters)."""
    env = {}
    for l in body.locals:
        i = l["i"]
        if 0 < i <= body.mir["argc"] and l["ty"].startswith("core::option::Option<"):
            if always_none_param(F, body.key, i):
                env[("d", i)] = 0
    return env


def r1_placeholders_patched(ctx):
    R = "R-C02-1"
    ctx.rule(R, "every forward-jump placeholder the code generator plants outside codegen.rs flows to a patch_jump_to_here/patch_jump_to_addr (as the "
                "jump operand) on every non-error path: directly, through an Option, or through a Vec that is drained by a patching loop")
    F = ctx.facts
    n = 0
    for body in F.bodies(crate="quiver_compiler"):
        if "codegen::" in body.key:
            continue
        sites = [(bi, t) for bi, t in body.calls() if ib_call(t, PH)]
        if not sites:
            continue
        fl = Flow(body)
        errb = err_blocks(body) | diverging_blocks(body)
        env0 = none_env(F, body)
        ords = {}
        for bi, t in sites:
            n += 1
            m = t["callee"].split("::")[-1]
            k = "%s|%s" % (body.key, m)
            o = ords.get(k, 0)
            ords[k] = o + 1
            site = "%s#%d" % (k, o)
            fw = fl.forward({t["dest"]["l"]}, through_calls=ADAPT)
            patches = [b2 for b2, t2 in body.calls() if ib_call(t2, PATCH) and (op_place(t2["args"][1]) or {}).get("l") in fw]
            loops = [b2 for b2, t2 in body.calls() if call_matches(t2, ("IntoIterator::into_iter",)) and (op_place(t2["args"][0]) or {}).get("l") in fw
                     and any(body.reaches(b2, pb) and body.reaches(pb, pb) for pb in patches)]
            if not patches:
                if 0 in fw:
                    ctx.ok(R, site, "the placeholder address is returned to the caller (helper); audited at the caller", body.loc(bi))
                else:
                    ctx.violated(R, site, "the placeholder is never passed to a patch call: the jump stays Jump(0)/JumpIf(0)", body.loc(bi))
                continue
            bad = None
            track = set(fw) | {i for (_d, i) in env0}
            exempt = []
            ex = TABLE["dead_on_path"].get(site)
            if ex:
                for b2, t2 in body.calls_to(ex["after_true_outcome_of"]):
                    r = t2["dest"]["l"]
                    from qvlib.paths import result_switch_edges
                    te, _der = result_switch_edges(body, fl, r, truthy=True)
                    exempt += te
            for x in body.succ[bi]:
                bad = bad or explore(body, [(x, dict(env0))], avoid=patches + loops, stop=errb, want="return", flow=fl, track=track, exempt_edges=exempt)
            if ex and exempt:
                ctx.exception(R, site + "|dead-path", ex["reason"], body.loc(bi))
            dead = [body.local_name(i) for (_d, i) in env0] if env0 else []
            ctx.check(bad is None, R, site, "patched on every non-error path (%d patch site(s)%s%s)" % (
                len(patches), ", via a drained Vec" if loops else "", (", dead always-None parameter(s) %s pruned" % dead) if dead else ""),
                "a non-error path leaves the placeholder unpatched (the branch would jump to the next instruction): %s" % path_desc(body, bad), body.loc(bi))
    ctx.floor(R, "placeholder sites outside codegen.rs", n, 14)
    # helper-internal placeholders are returned (codegen.rs)
    for name in ("emit_duplicate_jump_if_nil", "emit_type_check_branch"):
        b = F.body("quiver_compiler::compiler::codegen::InstructionBuilder::" + name)
        calls = [(bi, t) for bi, t in b.calls() if ib_call(t, ("emit_jump_if_placeholder", "emit_jump_placeholder"))]
        ok = len(calls) == 1 and calls[0][1]["dest"]["l"] == 0
        ctx.check(ok, R, b.key + "|returns-placeholder", "the helper returns its placeholder address to the caller", "the helper no longer returns the placeholder it plants", b.loc(0))
    # a placeholder really is the address of the Jump it pushes: addr = instructions.len() read before the push
    for name in ("emit_jump_placeholder", "emit_jump_if_placeholder"):
        b = F.body("quiver_compiler::compiler::codegen::InstructionBuilder::" + name)
        lens = [bi for bi, t in b.calls() if (t.get("callee") or "").endswith("Vec::len")]
        adds = [bi for bi, t in b.calls() if ib_call(t, ("add_instruction",))]
        ok = len(lens) == 1 and len(adds) == 1 and b.dominates(lens[0], adds[0])
        ctx.check(ok, R, b.key + "|addr-before-push", "addr = instructions.len() is read before the placeholder is pushed", "placeholder address no longer read before the push", b.loc(0))


def run(ctx):
    r1_placeholders_patched(ctx)
    ctx.note("NOT decided: stack offsets (Pick/Rotate), local-slot alignment (nil fill, Reset), branch ordering, instruction semantics — the values programs compute are out of reach of a static analysis of the compiler's source")
    return (
        "Decides ONE structural necessary condition of C02: every placeholder jump planted by the code generator is pointed at its join on every "
        "non-error path (value-flow of the returned address into a patch call, through Options and drained Vecs, with dead always-None parameters "
        "pruned after verifying every call site). An unpatched placeholder is Jump(0): still in range, so this is a behaviour condition. Everything "
        "else about evaluation order and values is NOT decided.",
        "obligations are the placeholder-emitting call sites in quiver_compiler; discharged by forward value-flow closure + path exploration",
    )
