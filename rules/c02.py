"""C02 — compiled execution agrees with the reference semantics (one structural clause: placeholder <-> patch pairing)."""
from qvlib.extract import CheckError
from qvlib.facts import op_place
from qvlib.paths import Flow, call_matches, diverging_blocks, err_blocks, explore, path_desc

CRATES = ["quiver_compiler", "quiver_core"]
PH = ("emit_jump_placeholder", "emit_jump_if_placeholder", "emit_duplicate_jump_if_nil", "emit_type_check_branch")
PATCH = ("patch_jump_to_here", "patch_jump_to_addr")
ADAPT = ("IntoIterator::into_iter", "Iterator::next", "Vec::drain", "slice::iter", "Option::unwrap", "Clone::clone", "Iterator::copied", "Option::copied",
         "Vec::iter", "Iterator::enumerate", "Iterator::rev", "Option::Some")
IB = "codegen::InstructionBuilder"
import json, os
from qvlib.extract import VERIF
TABLE = json.load(open(os.path.join(VERIF, "rules", "tables", "c02.json")))


def ib_call(t, names):
    c = t.get("callee") or ""
    return IB in c and c.split("::")[-1] in names


def always_none_param(F, fn_key, param_local, seen=None):
    """True if every call site passes a `None` aggregate for this parameter, or forwards its own always-None parameter."""
    seen = seen or set()
    if (fn_key, param_local) in seen:
        return True
    seen.add((fn_key, param_local))
    callers = F.callers_of(fn_key)
    if not callers:
        return False
    for ck, cb in callers:
        b = F.body(ck)
        t = b.blocks[cb]["term"]
        if param_local - 1 >= len(t["args"]):
            return False
        a = t["args"][param_local - 1]
        p = op_place(a)
        if p is None:
            return False
        fl = Flow(b, through_named=True)
        srcs = fl.sources(p["l"], stop_at_agg=True)
        if not srcs:
            return False
        for s in srcs:
            if s[0] == "rv" and s[2]["rv"]["k"] == "agg" and s[2]["rv"].get("variant") == "None":
                continue
            if s[0] == "arg" and always_none_param(F, ck, s[1], seen):
                continue
            return False
    return True


def none_env(F, body):
    """start environment: discriminant 0 (None) for Option parameters that are None at every call site (dead parameters)."""
    env = {}
    for l in body.locals:
        i = l["i"]
        if 0 < i <= body.mir["argc"] and l["ty"].startswith("core::option::Option<"):
            if always_none_param(F, body.key, i):
                env[("d", i)] = 0
    return env


def r1_placeholders_patched(ctx):
    R = "R-C02-1"
    ctx.rule(R, "every forward-jump placeholder the code generator plants outside codegen.rs flows to a patch_jump_to_here/patch_jump_to_addr (as the "
                "jump operand) on every non-error path: directly, through an Option, or through a Vec that is drained by a patching loop")
    F = ctx.facts
    n = 0
    for body in F.bodies(crate="quiver_compiler"):
        if "codegen::" in body.key:
            continue
        sites = [(bi, t) for bi, t in body.calls() if ib_call(t, PH)]
        if not sites:
            continue
        fl = Flow(body)
        errb = err_blocks(body) | diverging_blocks(body)
        env0 = none_env(F, body)
        ords = {}
        for bi, t in sites:
            n += 1
            m = t["callee"].split("::")[-1]
            k = "%s|%s" % (body.key, m)
            o = ords.get(k, 0)
            ords[k] = o + 1
            site = "%s#%d" % (k, o)
            fw = fl.forward({t["dest"]["l"]}, through_calls=ADAPT)
            patches = [b2 for b2, t2 in body.calls() if ib_call(t2, PATCH) and (op_place(t2["args"][1]) or {}).get("l") in fw]
            loops = [b2 for b2, t2 in body.calls() if call_matches(t2, ("IntoIterator::into_iter",)) and (op_place(t2["args"][0]) or {}).get("l") in fw
                     and any(body.reaches(b2, pb) and body.reaches(pb, pb) for pb in patches)]
            if not patches:
                if 0 in fw:
                    ctx.ok(R, site, "the placeholder address is returned to the caller (helper); audited at the caller", body.loc(bi))
                else:
                    ctx.violated(R, site, "the placeholder is never passed to a patch call: the jump stays Jump(0)/JumpIf(0)", body.loc(bi))
                continue
            bad = None
            track = set(fw) | {i for (_d, i) in env0}
            exempt = []
            ex = TABLE["dead_on_path"].get(site)
            if ex:
                for b2, t2 in body.calls_to(ex["after_true_outcome_of"]):
                    r = t2["dest"]["l"]
                    from qvlib.paths import result_switch_edges
                    te, _der = result_switch_edges(body, fl, r, truthy=True)
                    exempt += te
            for x in body.succ[bi]:
                bad = bad or explore(body, [(x, dict(env0))], avoid=patches + loops, stop=errb, want="return", flow=fl, track=track, exempt_edges=exempt)
            if ex and exempt:
                ctx.exception(R, site + "|dead-path", ex["reason"], body.loc(bi))
            dead = [body.local_name(i) for (_d, i) in env0] if env0 else []
            ctx.check(bad is None, R, site, "patched on every non-error path (%d patch site(s)%s%s)" % (
                len(patches), ", via a drained Vec" if loops else "", (", dead always-None parameter(s) %s pruned" % dead) if dead else ""),
                "a non-error path leaves the placeholder unpatched (the branch would jump to the next instruction): %s" % path_desc(body, bad), body.loc(bi))
    ctx.floor(R, "placeholder sites outside codegen.rs", n, 14)
    # helper-internal placeholders are returned (codegen.rs)
    for name in ("emit_duplicate_jump_if_nil", "emit_type_check_branch"):
        b = F.body("quiver_compiler::compiler::codegen::InstructionBuilder::" + name)
        calls = [(bi, t) for bi, t in b.calls() if ib_call(t, ("emit_jump_if_placeholder", "emit_jump_placeholder"))]
        ok = len(calls) == 1 and calls[0][1]["dest"]["l"] == 0
        ctx.check(ok, R, b.key + "|returns-placeholder", "the helper returns its placeholder address to the caller", "the helper no longer returns the placeholder it plants", b.loc(0))
    # a placeholder really is the address of the Jump it pushes: addr = instructions.len() read before the push
    for name in ("emit_jump_placeholder", "emit_jump_if_placeholder"):
        b = F.body("quiver_compiler::compiler::codegen::InstructionBuilder::" + name)
        lens = [bi for bi, t in b.calls() if (t.get("callee") or "").endswith("Vec::len")]
        adds = [bi for bi, t in b.calls() if ib_call(t, ("add_instruction",))]
        ok = len(lens) == 1 and len(adds) == 1 and b.dominates(lens[0], adds[0])
        ctx.check(ok, R, b.key + "|addr-before-push", "addr = instructions.len() is read before the placeholder is pushed", "placeholder address no longer read before the push", b.loc(0))


def r2_branch_reset(ctx):
    R = "R-C02-2"
    ctx.rule(R, "Reset on branch exit: in compile_scoped_expression every path through one iteration of the branch loop — from the successful "
                "compilation of the branch condition back to the loop head — passes the `local_count > param_local + 1` test that emits "
                "Instruction::Reset (both for branches with and without a consequence); the only exempt path is the statically-nil condition "
                "`continue`. A failed condition may already have stored locals, so a branch that skips the Reset shifts the slots of later branches")
    F = ctx.facts
    from qvlib.paths import agg_sites, discr_switches, result_switch_edges
    b = F.body("quiver_compiler::compiler::Compiler::compile_scoped_expression")
    fl = Flow(b)
    fln = Flow(b, through_named=True)
    resets = [bi for bi, si, s in agg_sites(b, "bytecode::Instruction", "Reset")]
    ctx.floor(R, "Reset emission sites in compile_scoped_expression", len(resets), 1)
    cs = [(bi, t) for bi, t in b.calls_to("Compiler::compile_sequence")]
    nexts = [bi for bi, t in b.calls() if call_matches(t, ("Iterator::next",))]
    cond = None
    for bi, t in cs:
        heads = [n for n in nexts if b.dominates(n, bi) and b.reaches(bi, n)]
        if heads:
            cond = (bi, t, heads)
            break
    if cond is None:
        raise CheckError("%s: the branch-condition compile_sequence call inside the branch loop was not found" % R)
    cbi, ct, heads = cond
    head = max(heads, key=lambda n: len(b.dominators()[n]))   # innermost enclosing loop head
    # guards: Gt comparisons reading self.local_count whose true outcome reaches a Reset emission without passing the loop head
    guards = []
    for bi, si, s in b.stmts():
        if s["k"] == "assign" and s["rv"]["k"] == "bin" and s["rv"]["op"] in ("Gt", "Lt", "Ge", "Le"):
            reads = set()
            for o in (s["rv"]["l"], s["rv"]["r"]):
                p = op_place(o)
                if p:
                    reads |= {f for _o, f in fln.slice_reads(p["l"])[0]}
            if "local_count" in reads:
                tv = 1 if s["rv"]["op"] in ("Gt", "Ge") else 0
                if any(explore(b, [bi], want="target", targets=[r], avoid=[head], force={(bi, si): tv}) for r in resets):
                    guards.append(bi)
    ctx.note("R-C02-2: %d Reset sites, %d guards" % (len(resets), len(guards)))
    # start: the Continue edge of the `?` on the condition compile
    fw = fl.forward({ct["dest"]["l"]})
    br = [bi for bi, t in b.calls() if call_matches(t, ("Try::branch",)) and (op_place(t["args"][0]) or {}).get("l") in fw]
    starts = []
    for x in br:
        for sw in discr_switches(b, b.blocks[x]["term"]["dest"]["l"]):
            starts.append(sw[1].get(0, sw[2]))
    if not starts:
        raise CheckError("%s: success edge of the condition compile not found" % R)
    # exempt: the statically-nil `continue` (true outcome of the first is_nil(condition_type) test after the compile)
    exempt = []
    isn = [(bi, t) for bi, t in b.calls_to("Compiler::is_nil") if b.dominates(cbi, bi)]
    if isn:
        first = min(isn, key=lambda x: len(b.dominators()[x[0]]))
        te, _d = result_switch_edges(b, fl, first[1]["dest"]["l"], truthy=True)
        exempt = te
    bad = None
    for s0 in starts:
        bad = bad or explore(b, [s0], avoid=set(guards) | set(resets), want="target", targets=[head], exempt_edges=exempt,
                             stop=err_blocks(b) | diverging_blocks(b), track=set())
    ctx.check(bad is None, R, b.key + "|reset-per-branch", "every compiled branch passes a local_count test that emits Reset before the next branch starts",
              "a branch can finish (or fall through to the next branch) without the Reset that clears the locals its condition stored: %s" % path_desc(b, bad), b.loc(cbi))


def r3_lift_only_sole_term(ctx):
    R = "R-C02-3"
    ctx.rule(R, "block lifting keeps nil short-circuit local: simplify::strip_sequence splices a block's chains into the enclosing sequence only "
                "when the block is the SOLE term of its chain (terms.len() == 1) — lifting a leading block of a longer chain would let a nil step "
                "inside the block abort the whole enclosing sequence instead of flowing on as the block's value")
    F = ctx.facts
    b = F.body("quiver_compiler::simplify::strip_sequence")
    fl = Flow(b)
    fln = Flow(b, through_named=True)
    from qvlib.paths import agg_sites as _aggs
    chains = []
    for _bi, _si, _s in _aggs(b, "ast::Sequence"):
        for _o in _s["rv"]["ops"]:
            _p = op_place(_o)
            if _p:
                chains.append(fl.canon_place(_p)[0])
    ext = [bi for bi, t in b.calls() if ((t.get("callee") or "").endswith("Extend::extend") or (t.get("callee") or "").endswith("Vec::extend")) and fl.canon_op(t["args"][0]) and fl.canon_op(t["args"][0])[0] in chains]
    ctx.floor(R, "lift splice sites in strip_sequence", len(ext), 1)
    # length tests on chain.terms dominating the splice
    tests = []

    def const_of(o):
        if o.get("val") is not None:
            return o["val"]
        p = op_place(o)
        if p and not p["pr"]:
            ds = b.defs().get(p["l"], [])
            if len(ds) == 1 and ds[0][1] != "term" and ds[0][2]["rv"]["k"] == "use" and ds[0][2]["rv"]["op"].get("val") is not None:
                return ds[0][2]["rv"]["op"]["val"]
        return None
    for bi, si, s in b.stmts():
        if s["k"] == "assign" and s["rv"]["k"] == "bin" and s["rv"]["op"] in ("Eq", "Ne", "Ge", "Gt", "Le", "Lt"):
            cl, cr = const_of(s["rv"]["l"]), const_of(s["rv"]["r"])
            if (cl is None) == (cr is None):
                continue
            other = s["rv"]["r"] if cl is not None else s["rv"]["l"]
            p = op_place(other)
            if not p:
                continue
            fields, _d, _c, callees = fln.slice_reads(p["l"], through_calls=("Vec::as_slice", "Deref::deref", "Vec::len", "slice::len"))
            if any(f == "terms" for _o, f in fields) and any(b.dominates(bi, e) for e in ext):
                tests.append((bi, si, s["rv"]["op"], cl if cl is not None else cr))
    eq1 = [t for t in tests if t[2] == "Eq" and t[3] == 1]
    ok = False
    for bi, si, op, val in eq1:
        if all(explore(b, [bi], want="target", targets=[e], force={(bi, si): 0}) is None for e in ext):
            ok = True
    ctx.check(ok, R, b.key + "|sole-term", "the splice is unreachable unless chain.terms.len() == 1",
              "strip_sequence lifts a block that is not the sole term of its chain (length tests found: %s)" % [(t[2], t[3]) for t in tests], b.loc(ext[0]))


def r5_written_order(ctx):
    R = "R-C02-5"
    ctx.rule(R, "written order decides: (a) the alternatives of a pattern are tried in the order they were written — no sort / reverse / swap / rotate / "
                "dedup is applied to a Vec<BindingSet> anywhere in compiler::pattern (overlapping alternatives bind differently); (b) a named field of a "
                "tuple literal with spreads takes its value from the RIGHTMOST source — every FieldSource stored for a named field in "
                "spread::build_field_sources_for_variant is stored from inside the forward scan over compiled_values (last store wins), as the typing "
                "pass build_field_variants assumes")
    F = ctx.facts
    bad = []
    n = 0
    for body in F.bodies(crate="quiver_compiler"):
        if "::pattern::" not in body.key:
            continue
        for bi, t in body.calls():
            m = (t.get("callee") or "").split("::")[-1]
            if t["args"] and op_place(t["args"][0]) and "BindingSet" in (body.local_ty(op_place(t["args"][0])["l"]) or ""):
                n += 1
                if m in ("sort", "sort_by", "sort_by_key", "sort_unstable", "sort_unstable_by", "sort_unstable_by_key", "sort_by_cached_key", "reverse", "swap",
                         "rotate_left", "rotate_right", "dedup", "dedup_by", "dedup_by_key", "select_nth_unstable", "swap_remove"):
                    bad.append((body, bi, m))
    for body, bi, m in bad:
        ctx.violated(R, "%s|%s(binding sets)" % (body.key, m), "the binding sets of a pattern are re-ordered (%s): alternatives are no longer tried in written "
                                                              "order, so an overlapping later alternative can bind the variables" % m, body.loc(bi))
    if not bad:
        ctx.ok(R, "compiler::pattern|binding-set order", "%d operations on Vec<BindingSet>, none re-orders" % n)
    ctx.floor(R, "operations on binding-set vectors", n, 5)
    b = F.body("quiver_compiler::compiler::spread::build_field_sources_for_variant")
    fl = Flow(b, through_named=True)
    cv = b.param_by_type(lambda ty: "spread::CompiledValue" in ty, what="compiled_values parameter")
    TCI = ("slice::iter", "Iterator::enumerate", "IntoIterator::into_iter", "Iterator::rev", "Deref::deref")
    headers = [bi for bi, t in b.calls() if (t.get("callee") or "").endswith("Iterator::next") and op_place(t["args"][0]) and
               cv in fl.backward({op_place(t["args"][0])["l"]}, through_calls=TCI)]
    stores = []
    for bi, si, st in b.stmts():
        if st["k"] == "assign" and st["rv"]["k"] == "agg" and (st["rv"].get("adt") or "").endswith("spread::FieldSource") and st["rv"]["variant"] in ("CompiledField", "SpreadField"):
            # stores into field_sources (Vec<Option<FieldSource>>), not pushes onto the unnamed list
            fw = Flow(b).forward({st["p"]["l"]})
            into_sources = False
            for b2, t2 in b.calls():
                if (t2.get("callee") or "").endswith("IndexMut::index_mut") and "Option<quiver_compiler::compiler::spread::FieldSource" in (b.local_ty(t2["dest"]["l"]) or ""):
                    if b.reaches(bi, b2) or b.reaches(b2, bi):
                        for b3, s3, st3 in b.stmts():
                            if st3["k"] == "assign" and st3["p"]["l"] == t2["dest"]["l"] and st3["p"]["pr"] and op_place(st3["rv"].get("op") or {}) and \
                                    op_place(st3["rv"]["op"])["l"] in fw:
                                into_sources = True
            if into_sources:
                stores.append((bi, si, st["rv"]["variant"]))
    ctx.floor(R, "named-field source stores", len(stores), 2)
    for i, (bi, si, v) in enumerate(stores):
        inside = any(b.dominates(h, bi) and b.reaches(bi, h) for h in headers)     # nested loops share a cycle: the scan header must DOMINATE the store
        ctx.check(inside, R, "%s|store#%d(%s)" % (b.key, i, v), "stored from inside the forward scan over compiled_values (a later source overwrites it)",
                  "a named field's source is fixed OUTSIDE the scan over all sources (%s): a spread to the right of an explicit field no longer "
                  "overrides it, while build_field_variants still types the field from the rightmost source — the tuple's static type and its "
                  "contents disagree" % v, b.loc(bi, si))


def r4_emitted_stack_discipline(ctx):
    """the stack bookkeeping of the emitted code (where the flowing value sits, what each branch leaves behind) — shared with R-C07-7"""
    from rules import c07
    c07.r7_emitted_stack_discipline(ctx, "R-C02-4")


def r6_narrowing_scope(ctx):
    """which branch runs depends on runtime checks the compiler may only drop for the variable that was actually narrowed — shared with R-C01-5"""
    from rules import c01
    before = len(ctx.obs)
    c01.r5_narrowing_belongs_to_its_binding(ctx)
    for o in ctx.obs[before:]:
        o["rule"] = "R-C02-6"
    if "R-C01-5" in ctx.rules:
        ctx.rules["R-C02-6"] = ctx.rules.pop("R-C01-5")
    for f in ctx.floors:
        if f["rule"] == "R-C01-5":
            f["rule"] = "R-C02-6"


def r7_one_index_for_every_variant(ctx):
    """the single Get(index) a named access compiles to addresses the same field in every variant of a union — shared with R-C01-7"""
    from rules import c01
    c01.r7_one_index_for_every_variant(ctx, "R-C02-7")


def run(ctx):
    ctx.run_rules([r1_placeholders_patched, r2_branch_reset, r3_lift_only_sole_term, r4_emitted_stack_discipline, r5_written_order, r6_narrowing_scope,
                   r7_one_index_for_every_variant])
    ctx.note("NOT decided: stack offsets (Pick/Rotate), local-slot alignment (nil fill, Reset), branch ordering, instruction semantics — the values programs compute are out of reach of a static analysis of the compiler's source")
    return (
        "Decides ONE structural necessary condition of C02: every placeholder jump planted by the code generator is pointed at its join on every "
        "non-error path (value-flow of the returned address into a patch call, through Options and drained Vecs, with dead always-None parameters "
        "pruned after verifying every call site). An unpatched placeholder is Jump(0): still in range, so this is a behaviour condition. Everything "
        "else about evaluation order and values is NOT decided.",
        "obligations are the placeholder-emitting call sites in quiver_compiler; discharged by forward value-flow closure + path exploration",
    )
