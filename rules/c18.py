"""C18 — the front end is total: any text yields a program or a located error (no-panic clause)."""
import os

from qvlib import hir
from qvlib.extract import CheckError
from qvlib.facts import op_place
from qvlib.paths import Flow
from rules import census

CRATES = ["quiver_compiler", "quiver_core"]


def frontend_reach(F):
    roots = ["quiver_compiler::parser::parse", "quiver_compiler::compiler::Compiler::compile"]
    for r in roots:
        F.fn(r)
    reach = F.reach(roots, follow_fnptr=True)
    return roots, {k for k in reach if F.fns[k]["crate"] == "quiver_compiler" and F.fns[k].get("mir") and not F.fns[k].get("derived")
                   and "::format::" not in k and "::pretty::" not in k}


def r1_census(ctx):
    R = "R-C18-1"
    ctx.rule(R, "panic-site census for the front end: in the transitive local callees of quiver_compiler::parse and Compiler::compile (typing, "
                "pattern, narrowing, spread, simplify, resolver; the formatter is C17's) every unwrap/expect/panic/unreachable, slice/str indexing, "
                "bounds assert and usize subtraction is discharged automatically or within its reviewed per-(function, kind) ceiling")
    F = ctx.facts
    roots, reach = frontend_reach(F)
    ctx.floor(R, "front-end functions", len(reach), 500)
    census.run_census(ctx, R, reach, "c18.json")


def r2_no_unwrap_on_parsed_numbers(ctx):
    R = "R-C18-2"
    ctx.rule(R, "numbers taken from source text are never unwrapped: in parser.rs no unwrap/expect is applied to the result of str::parse / "
                "from_str_radix / BigInt parsing (literals of any length are input); they go through map_res or an explicit error")
    F = ctx.facts
    n = 0
    for body in F.bodies(crate="quiver_compiler"):
        if "::parser::" not in body.key:
            continue
        fl = Flow(body, through_named=True)
        parses = {t["dest"]["l"]: (bi, t) for bi, t in body.calls() if (t.get("callee") or "").split("::")[-1] in ("parse", "from_str_radix", "from_str", "parse_bytes", "to_digit")}
        if not parses:
            continue
        n += len(parses)
        for bi, t in body.calls():
            m = (t.get("callee") or "").split("::")[-1]
            if m in ("unwrap", "expect", "unwrap_unchecked") and t["args"]:
                p = op_place(t["args"][0])
                if p and fl.backward({p["l"]}, through_calls=("Result::ok", "Option::map", "Result::map")) & set(parses):
                    ctx.violated(R, "%s|%s-on-parse" % (body.key, m), "the result of parsing a number taken from the input is unwrapped: an over-long literal panics the parser", body.loc(bi))
    ctx.floor(R, "number-parsing calls in parser.rs", n, 3)
    if not [o for o in ctx.obs if o["rule"] == R]:
        ctx.ok(R, "parser.rs|parsed-numbers", "no unwrap/expect on a parsed number (%d parsing calls examined)" % n)


def r4_byte_offset_discipline(ctx):
    R = "R-C18-4"
    ctx.rule(R, "byte-offset discipline in string post-processing: wherever parser.rs advances a byte position by 1 per character accepted by a "
                "predicate (is_hspace), that predicate admits single-byte (ASCII) characters only — otherwise the next slice lands inside a "
                "multi-byte character and panics")
    F = ctx.facts
    users = []
    for k, fn in F.fns.items():
        if not k.startswith("quiver_compiler::parser::") or "{closure" in k or not fn.get("hir"):
            continue
        body = hir.body_of(fn)
        for lp in [x for x in hir.walk(body) if x["e"] == "loop"]:
            keys = hir.call_keys(lp)
            preds = [kk for kk in keys if kk.startswith("quiver_compiler::parser::") and kk.split("::")[-1].startswith("is_")]
            # also predicates passed by name (`.is_some_and(is_hspace)`)
            preds += [x.get("key") for x in hir.walk(lp) if x["e"] == "path" and x.get("res") == "fn" and (x.get("key") or "").startswith("quiver_compiler::parser::is_")]
            plus1 = [x for x in hir.walk(lp) if x["e"] == "assignop" and x["op"] == "AddAssign" and x["r"]["e"] == "lit" and x["r"].get("text", "").startswith("Int(Pu128(1)")]
            if preds and plus1:
                for pk in set(preds):
                    if (k, pk) not in [(u[0], u[1]) for u in users]:
                        users.append((k, pk, lp["ln"]))
    ctx.floor(R, "byte-stepping loops driven by a char predicate", len(users), 1)
    for k, pk, ln in users:
        pf = F.fn(pk)
        pb = hir.body_of(pf)
        calls = [kk for kk in hir.call_keys(pb)]
        lits = []
        import re
        for x in hir.walk(pb):
            if x["e"] == "lit" and x.get("text", "").startswith("Char("):
                lits += re.findall(r"^Char\('(.*)'\)$", x["text"])
        for m in hir.matches(pb):
            for a in m["arms"]:
                pj = str(a["pat"])
                import re
                lits += re.findall(r"Char\('((?:[^'\\\\]|\\\\.)[^']*)'\)", pj)

        def is_ascii_lit(c):
            if len(c) == 1:
                return ord(c) < 128
            if c in ("\\t", "\\n", "\\r", "\\\\", "\\'", "\\0", "\\\\t", "\\\\n", "\\\\r"):
                return True
            mm = re.match(r"^\\+u\{([0-9a-fA-F]+)\}$", c)
            if mm:
                return int(mm.group(1), 16) < 128
            return False
        nonascii = [c for c in lits if not is_ascii_lit(c)]
        ok = not calls and bool(lits) and not nonascii
        ctx.check(ok, R, "%s|steps-by-1-under-%s" % (k, pk.split("::")[-1]), "%s matches only ASCII literals %s, so `pos += 1` stays on a char boundary" % (pk.split("::")[-1], lits),
                  "%s is no longer a match over ASCII literals (calls %s, literals %s) but %s still advances one BYTE per accepted char: slicing at the new position "
                  "panics on a multi-byte space" % (pk.split("::")[-1], calls, lits, k.split("::")[-1]), "%s:%d" % (F.fns[k]["file"], ln))


def r3_errors_are_values(ctx):
    R = "R-C18-3"
    ctx.rule(R, "compile errors are values: parse and Compiler::compile return Result, and the compiler's InternalError variant exists for broken "
                "invariants (so internal inconsistencies need not panic)")
    F = ctx.facts
    p = F.body("quiver_compiler::parser::parse")
    c = F.body("quiver_compiler::compiler::Compiler::compile")
    ctx.check("Result<" in p.local_ty(0), R, p.key + "|returns-result", "parse returns a Result", "parse no longer returns a Result")
    ctx.check("Result<" in c.local_ty(0), R, c.key + "|returns-result", "compile returns a Result", "Compiler::compile no longer returns a Result")
    err = F.adt("quiver_compiler::compiler::Error", required=False)
    if err:
        ctx.check("InternalError" in [v["name"] for v in err["variants"]], R, "compiler::Error|InternalError", "InternalError variant present", "the InternalError variant was removed")


def r5_no_exponential_backtracking(ctx):
    R = "R-C18-5"
    ctx.rule(R, "parsing terminates in practice: no `alt` of the nom grammar has two alternatives that can both consume the same opening (nothing, or "
                "one literal token) and then both descend into the SAME recursive rule that re-enters the enclosing parser — when the earlier one "
                "fails after the descent, the later one parses the nested text again, so the time doubles with every nesting level (2^depth; the "
                "property bounds nesting by 100). FIRST-parser / first-token sets are computed over the resolved combinator trees (rules/peg.py)")
    from rules import peg
    F = ctx.facts
    G = peg.Grammar(F)
    n_alts = 0
    n_pairs = 0

    def label(a):
        kind, name = peg.callee_name(a)
        if kind in ("fn", "fncall"):
            return name.split("::")[-1]
        inner = a
        while kind == "nom" and name in ("map", "verify", "map_res", "cut", "context", "recognize") and inner["args"]:
            inner = inner["args"][1] if name == "context" and len(inner["args"]) > 1 else inner["args"][0]
            kind, name = peg.callee_name(inner)
            if kind in ("fn", "fncall"):
                return name.split("::")[-1]
        firsts = sorted(x.split("::")[-1] for x in G.first(a))
        return "%s(%s)" % (name or "expr", firsts[0] if firsts else "")
    for g, node, alts in G.alts():
        n_alts += 1
        hs = [G.heads(a, g) for a in alts]
        seen = set()
        for i in range(len(alts)):
            for j in range(i + 1, len(alts)):
                n_pairs += 1
                for (ta, ra) in hs[i]:
                    for (tb, rb) in hs[j]:
                        same = (ta is None and tb is None) or (ta and tb and (ta & tb))
                        if not same or not (ra & rb):
                            continue
                        opener = sorted(ta & tb)[0] if ta else "start"
                        site = "%s|%s~%s|%s" % (g, label(alts[i]), label(alts[j]), opener)
                        if site in seen:
                            continue
                        seen.add(site)
                        ctx.violated(R, site, "both alternatives consume %s and then descend into %s, which re-enters %s: a failure of the first after the "
                                              "descent makes the second parse the nested text again — parse time doubles per nesting level" % (
                                                  "the same token %s" % opener if ta else "nothing", sorted(c.split("::")[-1] for c in ra & rb)[:3], g.split("::")[-1]),
                                     "%s:%d" % (F.fns[g]["file"], node.get("ln") or F.fns[g]["line"]))
    if G.opaque:
        ctx.note("%s: hand-written parser functions (statements before their combinator; not judged): %s" % (R, sorted(k.split("::")[-1] for k in G.opaque)))
    ctx.floor(R, "alt combinators examined", n_alts, 30)
    ctx.ok(R, "grammar|alternative pairs", "%d alt combinators, %d alternative pairs examined" % (n_alts, n_pairs))


def r6_unify_no_self_binding(ctx):
    R = "R-C18-6"
    ctx.rule(R, "compilation terminates: typing::unify never binds a type variable to ITSELF — every insert of a fresh (non-widened) binding "
                "`bindings[name] = id` taken from the concrete side is unreachable when the name of the variable that `id` resolves to equals `name` "
                "(the `(_, Variable)` arm follows bindings and calls unify again with the resolved id: a self-binding makes it call itself with "
                "identical arguments for ever — stack overflow, not a compile error)")
    F = ctx.facts
    from qvlib.facts import op_place
    from qvlib.paths import Flow, explore
    b = F.body("quiver_compiler::compiler::typing::unify")
    fl = Flow(b, through_named=True)
    fl0 = Flow(b)
    bind = b.param_by_type(lambda ty: ty.startswith("&mut std::collections::hash::map::HashMap<alloc::string::String, usize"), what="bindings parameter")
    conc = b.param_by_type(lambda ty: ty == "usize", 1, "concrete type id parameter")
    n = 0
    TC = ("Option::copied", "Option::unwrap_or", "HashMap::get", "Clone::clone", "Option::cloned", "Deref::deref")
    for bi, t in b.calls():
        if not (t.get("callee") or "").endswith("HashMap::insert") or len(t["args"]) < 3:
            continue
        recv = fl0.canon_op(t["args"][0]) or fl.canon_op(t["args"][0])
        if not recv or recv[0] != bind:
            continue
        vp = op_place(t["args"][2])
        kp = op_place(t["args"][1])
        if not vp or not kp:
            continue
        vback = fl.backward({vp["l"]}, through_calls=TC)
        srcs = fl.sources(vp["l"], through_calls=TC)
        if any(x[0] == "call" and (x[2].get("callee") or "").endswith("typing::union_type_ids") for x in srcs):
            continue      # widening an existing binding
        if conc not in vback:
            continue      # merged from a nested unification's bindings (each of which passed this rule)
        n += 1
        NAME_TC = ("Clone::clone", "Deref::deref", "ToString::to_string", "ToOwned::to_owned", "From::from", "Into::into", "String::as_str", "Borrow::borrow",
                   "AsRef::as_ref", "str::to_owned", "str::to_string")
        kback = fl.backward({kp["l"]}, through_calls=NAME_TC)
        guard = False
        for eb, et in b.calls():
            c = (et.get("callee") or "")
            if c.split("::")[-1] not in ("eq", "ne") or "PartialEq" not in c or len(et["args"]) < 2:
                continue
            if not b.reaches(eb, bi):
                continue
            sides = [fl.backward({op_place(a)["l"]}, through_calls=NAME_TC + ("TypeLookup::lookup_type", "Program::lookup_type", "Option::cloned")) if op_place(a) else set()
                     for a in et["args"][:2]]
            # one side: the name inside the type `id` resolves to (a lookup of something derived from the value); other side: the key's name
            def via_lookup(sd):
                return any(t2["dest"]["l"] in sd and (t2.get("callee") or "").endswith("lookup_type") and op_place(t2["args"][-1]) and
                           (fl.backward({op_place(t2["args"][-1])["l"]}, through_calls=TC) & vback) for _b2, t2 in b.calls())
            key_side = [bool(sd & kback) for sd in sides]
            look_side = [via_lookup(sd) for sd in sides]
            if (key_side[0] and look_side[1]) or (key_side[1] and look_side[0]):
                equal = 1 if c.split("::")[-1] == "eq" else 0
                r = et["dest"]["l"]
                if all(explore(b, [(s2, {r: equal})], want="target", targets=[bi], avoid=[eb]) is None for s2 in b.succ[eb]):
                    guard = True
        ctx.check(guard, R, "%s|fresh-binding#%d" % (b.key, n - 1), "unreachable when the bound id resolves to the variable being bound (name equality test)",
                  "unify can bind a type variable to itself (no reachable-only-if-different test between the inserted id's variable name and the key): "
                  "the (_, Variable) arm then recurses with identical arguments — the compiler overflows its stack instead of reporting an error", b.loc(bi))
    ctx.floor(R, "fresh variable bindings in unify", n, 1)


def run(ctx):
    if os.environ.get("QV_CENSUS_GEN") == "1":
        r1_census(ctx)
        return ("table generation", "n/a")
    ctx.run_rules([r1_census, r2_no_unwrap_on_parsed_numbers, r3_errors_are_values, r4_byte_offset_discipline, r5_no_exponential_backtracking, r6_unify_no_self_binding])
    ctx.note("NOT decided: termination of parsing/compilation and that a reported error position lies inside the input")
    return (
        "Decides the no-panic clause structurally: a deny-by-default census of every panic-capable construct reachable from parse and "
        "Compiler::compile with reviewed per-(function, kind) ceilings (new unwrap/expect/indexing/slicing/usize subtraction on a front-end path is "
        "reported), plus a taint rule that numbers parsed from the source text are never unwrapped. Termination and error positions are NOT decided.",
        "obligations are MIR sinks in the front end's reach set; discharged by interval analysis / guard patterns or held to the reviewed table "
        "rules/tables/c18.json; the parsed-number rule by backward slices",
    )
