"""C18 — the front end is total: any text yields a program or a located error (no-panic clause)."""
import os

from qvlib import hir
from qvlib.extract import CheckError
from qvlib.facts import op_place
from qvlib.paths import Flow
from rules import census

CRATES = ["quiver_compiler", "quiver_core"]


def frontend_reach(F):
    roots = ["quiver_compiler::parser::parse", "quiver_compiler::compiler::Compiler::compile"]
    for r in roots:
        F.fn(r)
    reach = F.reach(roots, follow_fnptr=True)
    return roots, {k for k in reach if F.fns[k]["crate"] == "quiver_compiler" and F.fns[k].get("mir") and not F.fns[k].get("derived")
                   and "::format::" not in k and "::pretty::" not in k}


def r1_census(ctx):
    R = "R-C18-1"
    ctx.rule(R, "panic-site census for the front end: in the transitive local callees of quiver_compiler::parse and Compiler::compile (typing, "
                "pattern, narrowing, spread, simplify, resolver; the formatter is C17's) every unwrap/expect/panic/unreachable, slice/str indexing, "
                "bounds assert and usize subtraction is discharged automatically or within its reviewed per-(function, kind) ceiling")
    F = ctx.facts
    with F.raw_mode():
        roots, reach = frontend_reach(F)
        ctx.floor(R, "front-end functions", len(reach), 500)
        census.run_census(ctx, R, reach, "c18.json")


def r2_no_unwrap_on_parsed_numbers(ctx):
    R = "R-C18-2"
    ctx.rule(R, "numbers taken from source text are never unwrapped: in parser.rs no unwrap/expect is applied to the result of str::parse / "
                "from_str_radix / BigInt parsing (literals of any length are input); they go through map_res or an explicit error")
    F = ctx.facts
    n = 0
    for body in F.bodies(crate="quiver_compiler"):
        if "::parser::" not in body.key:
            continue
        fl = Flow(body, through_named=True)
        parses = {t["dest"]["l"]: (bi, t) for bi, t in body.calls() if (t.get("callee") or "").split("::")[-1] in ("parse", "from_str_radix", "from_str", "parse_bytes", "to_digit")}
        if not parses:
            continue
        n += len(parses)
        for bi, t in body.calls():
            m = (t.get("callee") or "").split("::")[-1]
            if m in ("unwrap", "expect", "unwrap_unchecked") and t["args"]:
                p = op_place(t["args"][0])
                if p and fl.backward({p["l"]}, through_calls=("Result::ok", "Option::map", "Result::map")) & set(parses):
                    ctx.violated(R, "%s|%s-on-parse" % (body.key, m), "the result of parsing a number taken from the input is unwrapped: an over-long literal panics the parser", body.loc(bi))
    ctx.floor(R, "number-parsing calls in parser.rs", n, 3)
    if not [o for o in ctx.obs if o["rule"] == R]:
        ctx.ok(R, "parser.rs|parsed-numbers", "no unwrap/expect on a parsed number (%d parsing calls examined)" % n)


def r4_byte_offset_discipline(ctx):
    R = "R-C18-4"
    ctx.rule(R, "byte-offset discipline in string post-processing: wherever parser.rs advances a byte position by 1 per character accepted by a "
                "predicate (is_hspace), that predicate admits single-byte (ASCII) characters only — otherwise the next slice lands inside a "
                "multi-byte character and panics")
    F = ctx.facts
    users = []
    for k, fn in F.fns.items():
        if not k.startswith("quiver_compiler::parser::") or "{closure" in k or not fn.get("hir"):
            continue
        body = hir.body_of(fn)
        for lp in [x for x in hir.walk(body) if x["e"] == "loop"]:
            keys = hir.call_keys(lp)
            preds = [kk for kk in keys if kk.startswith("quiver_compiler::parser::") and kk.split("::")[-1].startswith("is_")]
            # also predicates passed by name (`.is_some_and(is_hspace)`)
            preds += [x.get("key") for x in hir.walk(lp) if x["e"] == "path" and x.get("res") == "fn" and (x.get("key") or "").startswith("quiver_compiler::parser::is_")]
            plus1 = [x for x in hir.walk(lp) if x["e"] == "assignop" and x["op"] == "AddAssign" and x["r"]["e"] == "lit" and x["r"].get("text", "").startswith("Int(Pu128(1)")]
            if preds and plus1:
                for pk in set(preds):
                    if (k, pk) not in [(u[0], u[1]) for u in users]:
                        users.append((k, pk, lp["ln"]))
    ctx.floor(R, "byte-stepping loops driven by a char predicate", len(users), 1)
    for k, pk, ln in users:
        pf = F.fn(pk)
        pb = hir.body_of(pf)
        calls = [kk for kk in hir.call_keys(pb)]
        lits = []
        import re
        for x in hir.walk(pb):
            if x["e"] == "lit" and x.get("text", "").startswith("Char("):
                lits += re.findall(r"^Char\('(.*)'\)$", x["text"])
        for m in hir.matches(pb):
            for a in m["arms"]:
                pj = str(a["pat"])
                import re
                lits += re.findall(r"Char\('((?:[^'\\\\]|\\\\.)[^']*)'\)", pj)

        def is_ascii_lit(c):
            if len(c) == 1:
                return ord(c) < 128
            if c in ("\\t", "\\n", "\\r", "\\\\", "\\'", "\\0", "\\\\t", "\\\\n", "\\\\r"):
                return True
            mm = re.match(r"^\\+u\{([0-9a-fA-F]+)\}$", c)
            if mm:
                return int(mm.group(1), 16) < 128
            return False
        nonascii = [c for c in lits if not is_ascii_lit(c)]
        ok = not calls and bool(lits) and not nonascii
        ctx.check(ok, R, "%s|steps-by-1-under-%s" % (k, pk.split("::")[-1]), "%s matches only ASCII literals %s, so `pos += 1` stays on a char boundary" % (pk.split("::")[-1], lits),
                  "%s is no longer a match over ASCII literals (calls %s, literals %s) but %s still advances one BYTE per accepted char: slicing at the new position "
                  "panics on a multi-byte space" % (pk.split("::")[-1], calls, lits, k.split("::")[-1]), "%s:%d" % (F.fns[k]["file"], ln))


def r3_errors_are_values(ctx):
    R = "R-C18-3"
    ctx.rule(R, "compile errors are values: parse and Compiler::compile return Result, and the compiler's InternalError variant exists for broken "
                "invariants (so internal inconsistencies need not panic)")
    F = ctx.facts
    p = F.body("quiver_compiler::parser::parse")
    c = F.body("quiver_compiler::compiler::Compiler::compile")
    ctx.check("Result<" in p.local_ty(0), R, p.key + "|returns-result", "parse returns a Result", "parse no longer returns a Result")
    ctx.check("Result<" in c.local_ty(0), R, c.key + "|returns-result", "compile returns a Result", "Compiler::compile no longer returns a Result")
    err = F.adt("quiver_compiler::compiler::Error", required=False)
    if err:
        ctx.check("InternalError" in [v["name"] for v in err["variants"]], R, "compiler::Error|InternalError", "InternalError variant present", "the InternalError variant was removed")


def run(ctx):
    if os.environ.get("QV_CENSUS_GEN") == "1":
        r1_census(ctx)
        return ("table generation", "n/a")
    ctx.run_rules([r1_census, r2_no_unwrap_on_parsed_numbers, r3_errors_are_values, r4_byte_offset_discipline])
    ctx.note("NOT decided: termination of parsing/compilation and that a reported error position lies inside the input")
    return (
        "Decides the no-panic clause structurally: a deny-by-default census of every panic-capable construct reachable from parse and "
        "Compiler::compile with reviewed per-(function, kind) ceilings (new unwrap/expect/indexing/slicing/usize subtraction on a front-end path is "
        "reported), plus a taint rule that numbers parsed from the source text are never unwrapped. Termination and error positions are NOT decided.",
        "obligations are MIR sinks in the front end's reach set; discharged by interval analysis / guard patterns or held to the reviewed table "
        "rules/tables/c18.json; the parsed-number rule by backward slices",
    )
