"""C04 — messages exactly-once, per-sender FIFO, no lost wake-ups (structural clauses)."""
from qvlib.extract import CheckError
from qvlib.facts import op_place
from qvlib.paths import Flow, agg_sites, consumer_calls, discr_switches, diverging_blocks, err_blocks, explore, path_desc, result_switch_edges

CRATES = None  # whole workspace: who-may-construct / who-may-write rules are workspace-wide
OPTIONAL_FNS = ("Worker::notify_result", "Worker::deliver_message", "Worker::update_program")      # private Worker helpers that may be inlined into their only caller

EXEC = "quiver_core::executor::Executor"
PARKED = ("spawning", "selecting", "effecting")
WORKSPACE_RUNTIME = ("quiver_core", "quiver_environment", "quiver_io", "quiv", "quiver_cli", "quiver_web", "quiver_lsp", "quiver_compiler")


def field_calls(ctx, body, flow, method_suffixes, owner_suffix, fields):
    """calls to <method> whose receiver (arg 0) is a place ending in owner.field"""
    out = []
    for bi, t in body.calls():
        c = t.get("callee") or ""
        if not any(c.endswith(m) for m in method_suffixes):
            continue
        if not t["args"]:
            continue
        cp = flow.canon_op(t["args"][0])
        if cp is None:
            continue
        for f in fields:
            if flow.ends_with_field(cp, owner_suffix, f):
                out.append((bi, t, f))
    return out


def process_missing_edges(body, flow):
    """None-edges of switches on the discriminant of a process lookup (HashMap::get_mut / get_process*)."""
    edges = []
    lookups = set()
    for bi, t in body.calls():
        c = t.get("callee") or ""
        if c.endswith("HashMap::get_mut") or c.endswith("HashMap::get") or c.endswith("Executor::get_process") or c.endswith("Executor::get_process_mut"):
            lookups.add(t["dest"]["l"])
    for bi, si, s in body.stmts():
        if s["k"] == "assign" and s["rv"]["k"] == "discr":
            root, _pr = flow.canon_place(s["rv"]["p"])
            if root in lookups or s["rv"]["p"]["l"] in lookups:
                d = s["p"]["l"]
                for bj, b in enumerate(body.blocks):
                    t = b["term"]
                    if t["k"] == "switch" and (op_place(t["op"]) or {}).get("l") == d:
                        some_t = [bb for v, bb in t["targets"] if v == 1]
                        for v, bb in body.switch_edges(bj):
                            if bb not in some_t:
                                edges.append((bj, bb))
    return edges


def r1_unpark_enqueue(ctx):
    R = "R-C04-1"
    ctx.rule(R, "every removal from a parked set (spawning/selecting/effecting) is paired with queue.push_back of the same id: "
                "reachable through the was-parked edge, on every non-error path from it, and not reachable when nothing was parked")
    F = ctx.facts
    n = 0
    for body in F.bodies(crate=None):
        if not body.fn["crate"] in WORKSPACE_RUNTIME:
            continue
        flow = Flow(body)
        removes = field_calls(ctx, body, flow, ("HashSet::remove", "HashSet::take", "HashSet::clear", "HashSet::retain", "HashSet::drain"), EXEC, PARKED)
        if not removes:
            continue
        pushes = field_calls(ctx, body, flow, ("VecDeque::push_back", "VecDeque::push_front"), EXEC, ("queue",))
        push_blocks = {bi for bi, _t, _f in pushes}
        errb = err_blocks(body) | diverging_blocks(body)
        exempt = process_missing_edges(body, flow)
        all_true_edges = []
        results = {}
        for bi, t, f in removes:
            r = t["dest"]["l"]
            te, derived = result_switch_edges(body, flow, r, truthy=True)
            results[bi] = (r, te, derived)
            all_true_edges += te
        for bi, t, f in removes:
            n += 1
            site = "%s|remove(%s)#%d" % (body.key, f, [x[0] for x in removes if x[2] == f].index(bi))
            loc = body.loc(bi)
            if not (t.get("callee") or "").endswith("HashSet::remove"):
                ctx.violated(R, site, "parked set %s is emptied with %s — wake-ups of every parked process are dropped" % (f, t["callee"]), loc)
                continue
            id_c = flow.canon_op(t["args"][1]) if len(t["args"]) > 1 else None
            same_id = [pb for pb, pt, _ in pushes if len(pt["args"]) > 1 and flow.canon_op(pt["args"][1]) == id_c]
            if not same_id:
                ctx.violated(R, site, "no queue.push_back(%s) for the id removed from %s in this function: the wake-up is dropped"
                             % (flow.canon_str(id_c), f), loc)
                continue
            # push before remove in straight-line code (check_expired_timeouts)
            if any(body.dominates(pb, bi) and body.must_pass(bi, [pb]) for pb in same_id):
                ctx.ok(R, site, "queue.push_back(%s) dominates the removal (push-then-unpark)" % flow.canon_str(id_c), loc)
                continue
            r, te, derived = results[bi]
            false_edges, _ = result_switch_edges(body, flow, r, truthy=False)
            # (a) reachable when it was parked
            starts = body.succ[bi]
            w = None
            for s in starts:
                w = explore(body, [(s, {r: 1})], want="target", targets=same_id)
                if w:
                    break
            if not w:
                ctx.violated(R, site, "queue.push_back is not reachable on the was-parked (true) outcome of %s.remove — condition inverted or push deleted" % f, loc)
                continue
            # (b) every non-error path from the was-parked outcome enqueues
            bad = None
            for s in starts:
                bad = explore(body, [(s, {r: 1})], avoid=same_id, stop=errb, exempt_edges=exempt, want="return")
                if bad:
                    break
            if bad:
                ctx.violated(R, site, "a path from the was-parked outcome of %s.remove reaches a normal return without queue.push_back: %s"
                             % (f, path_desc(body, [bi] + bad)), loc, {"path": [bi] + bad})
                continue
            # (c) not enqueued when nothing was parked (double scheduling)
            w2 = None
            for s in starts:
                w2 = explore(body, [s], want="target", targets=same_id, exempt_edges=all_true_edges)
                if w2:
                    break
            if w2:
                ctx.violated(R, site, "queue.push_back reachable although no parked-set removal succeeded (process may be queued twice): %s"
                             % path_desc(body, [bi] + w2), loc)
                continue
            ctx.ok(R, site, "push_back(queue, %s) on every non-error was-parked path; unreachable when not parked" % flow.canon_str(id_c), loc)
    ctx.floor(R, "parked-set removals", n, 4)
    # every wake-up entry point still unparks (directly or through a callee): a deleted removal is invisible to the pairing rule above
    expected = {"notify_spawn": "spawning", "notify_result": "selecting", "notify_message": "selecting", "notify_effect_completion": "effecting",
                "mark_active": "selecting", "check_expired_timeouts": "selecting"}
    removed_in = {}
    for body in F.bodies(crate="quiver_core"):
        flow = Flow(body)
        for bi, t, f in field_calls(ctx, body, flow, ("HashSet::remove",), EXEC, PARKED):
            removed_in.setdefault(body.key.split("::{closure")[0], set()).add(f)
    for fn_name, pset in expected.items():
        key = EXEC + "::" + fn_name
        F.fn(key)
        reach = F.reach([key])
        sets = set()
        for k in reach:
            sets |= removed_in.get(k.split("::{closure")[0], set())
        ctx.check(pset in sets, R, "%s|unparks(%s)" % (key, pset), "the wake-up entry point removes the process from `%s` (and the pairing rule covers the enqueue)" % pset,
                  "%s no longer removes the woken process from `%s`: a process parked there is never made runnable by this event (lost wake-up)" % (fn_name, pset))


def r2_park_dequeue(ctx):
    R = "R-C04-2"
    ctx.rule(R, "only mark_spawning/selecting/effecting insert into a parked set and each also dequeues the process; step re-queues the "
                "running process unless it parked itself; the RequestEffect arm parks (mark_effecting) before sending the request")
    F = ctx.facts
    allowed = {EXEC + "::mark_spawning": "spawning", EXEC + "::mark_selecting": "selecting", EXEC + "::mark_effecting": "effecting"}
    n = 0
    for body in F.bodies():
        flow = Flow(body)
        ins = field_calls(ctx, body, flow, ("HashSet::insert", "HashSet::extend", "HashSet::replace"), EXEC, PARKED)
        for bi, t, f in ins:
            n += 1
            site = "%s|insert(%s)" % (body.key, f)
            if allowed.get(body.key) != f:
                ctx.violated(R, site, "parked set %s is written outside its mark_* function" % f, body.loc(bi))
                continue
            ret = field_calls(ctx, body, flow, ("VecDeque::retain",), EXEC, ("queue",))
            ok = bool(ret) and all(explore(body, [s], avoid={rb for rb, _t, _f in ret}, want="return") is None for s in body.succ[bi])
            # closure of retain must compare with the id (p != id): the closure captures the id
            ctx.check(ok, R, site, "insert into %s is followed on every path by queue.retain (process leaves the run queue)" % f,
                      "parking into %s without removing the process from the run queue" % f, body.loc(bi))
    ctx.floor(R, "parked-set inserts", n, 3)
    # direct writes (assignment) to the parked sets / queue outside new()
    for body in F.bodies():
        if body.key.endswith("Executor::new"):
            continue
        for bi, si, s in body.stmts():
            if s["k"] != "assign":
                continue
            fs = [e for e in s["p"]["pr"] if e[0] == "f"]
            if fs and fs[-1][1] in PARKED + ("queue",) and (fs[-1][2] or "").endswith("executor::Executor"):
                ctx.violated(R, "%s|assign(%s)" % (body.key, fs[-1][1]), "scheduler set %s is overwritten wholesale" % fs[-1][1], body.loc(bi, si))
    # step: requeue switch
    step = F.body(EXEC + "::step")
    flow = Flow(step)
    pushes = field_calls(ctx, step, flow, ("VecDeque::push_back",), EXEC, ("queue",))
    pops = field_calls(ctx, step, flow, ("VecDeque::pop_front",), EXEC, ("queue",))
    ctx.floor(R, "step: queue.pop_front", len(pops), 1)
    ctx.floor(R, "step: queue.push_back", len(pushes), 1)
    contains = field_calls(ctx, step, flow, ("HashSet::contains",), EXEC, PARKED)
    # For the requeue: from the push block, going backwards, it must be guarded exactly by spawning.contains==false and selecting.contains==false.
    pb = pushes[-1][0]
    guards = []
    for bi, t, f in contains:
        r = t["dest"]["l"]
        # does the push become unreachable if this contains() returned true?
        w = None
        for s in step.succ[bi]:
            w = explore(step, [(s, {r: 1})], want="target", targets=[pb])
            if w:
                break
        if w is None and step.reaches(bi, pb):
            guards.append(f)
    site = EXEC + "::step|requeue"
    ok = set(guards) >= {"spawning", "selecting"} and "effecting" not in guards
    ctx.check(ok, R, site,
              "the not-finished path re-queues the running process unless it is in spawning/selecting (guards found: %s); "
              "effecting is parked later by Worker::handle_action" % sorted(set(guards)),
              "requeue guard changed: push_back(current_pid) is guarded by %s, expected exactly spawning+selecting" % sorted(set(guards)),
              step.loc(pb))
    # every path from pop_front to a return on which the process is not finished and not parked reaches push_back:
    # weaker structural form: the push is reachable from the pop.
    ctx.check(step.reaches(pops[0][0], pb), R, EXEC + "::step|requeue-reachable", "push_back(current_pid) reachable from pop_front",
              "the re-queue of the running process is unreachable", step.loc(pb))
    # Worker::handle_action RequestEffect arm
    ha = F.body("quiver_environment::worker::Worker::handle_action")
    fl = Flow(ha)
    sends = []
    for bi, si, s in agg_sites(ha, "messages::Event", "EffectRequest"):
        for cb, ct, ai in consumer_calls(ha, fl, s["p"]["l"]):
            if (ct.get("callee") or "").endswith("::send"):
                sends.append(cb)
    ctx.floor(R, "Event::EffectRequest sends in handle_action", len(sends), 1)
    marks = [bi for bi, _t in ha.calls_to("Executor::mark_effecting")]
    for sb in sends:
        ok = bool(marks) and ha.must_pass(sb, marks)
        ctx.check(ok, R, "quiver_environment::worker::Worker::handle_action|EffectRequest",
                  "mark_effecting is passed on every path to the EffectRequest send (an effecting process is parked before its request leaves)",
                  "EffectRequest is sent without parking the process (it would re-execute the effect call)", ha.loc(sb))


def constructors(ctx, adt_suffix, variant):
    out = []
    for body in ctx.facts.bodies():
        for bi, si, s in agg_sites(body, adt_suffix, variant):
            out.append((body, bi, si, s))
    return out


def r3_pipeline(ctx):
    R = "R-C04-3"
    ctx.rule(R, "single-forward delivery pipeline: Action::Deliver only in handle_send, Event::DeliverAction only in Worker::handle_action, "
                "Command::DeliverMessage only in Environment::handle_deliver, mailbox.push_back only in Executor::notify_message; each stage "
                "forwards exactly once on every non-error path and not inside a loop")
    F = ctx.facts
    stages = [
        ("process::Action", "Deliver", "quiver_core::executor::Executor::handle_send", None),
        ("messages::Event", "DeliverAction", "quiver_environment::worker::Worker::handle_action", "::send"),
        ("messages::Command", "DeliverMessage", "quiver_environment::environment::Environment::handle_deliver", "::send"),
    ]
    for adt, variant, owner, sink in stages:
        cons = constructors(ctx, adt, variant)
        ctx.floor(R, "%s::%s constructions" % (adt, variant), len(cons), 1)
        for body, bi, si, s in cons:
            site = "%s|construct %s::%s" % (body.key, adt.split("::")[-1], variant)
            if body.key != owner and not body.key.startswith(owner + "::{closure"):
                # serde-derived Deserialize visitors construct variants too: they are not producers of new messages
                if body.fn.get("derived") or "_serde" in body.key or "::deserialize" in body.key or "<impl" in body.key and "Deserialize" in body.key:
                    continue
                if body.fn["crate"] in ("quiver_web",) and "Clone" in body.key:
                    continue
                if "std::clone::Clone" in body.key:
                    continue
                ctx.violated(R, site, "%s::%s constructed outside %s (a second producer can duplicate or reorder deliveries)" % (adt, variant, owner), body.loc(bi, si))
                continue
            if len([c for c in cons if c[0].key == body.key]) != 1:
                ctx.violated(R, site, "%s::%s constructed %d times in %s" % (adt, variant, len(cons), owner), body.loc(bi, si))
                continue
            if sink:
                fl = Flow(body)
                sends = [(cb, ct) for cb, ct, _ai in consumer_calls(body, fl, s["p"]["l"]) if (ct.get("callee") or "").endswith(sink)]
                if len(sends) != 1:
                    ctx.violated(R, site, "the constructed %s is passed to %d send calls (expected exactly 1)" % (variant, len(sends)), body.loc(bi, si))
                    continue
                sb = sends[0][0]
                in_loop = body.reaches(body.succ[sb][0], sb) if body.succ[sb] else False
                if in_loop:
                    ctx.violated(R, site, "the %s send sits inside a loop (a message could be forwarded more than once)" % variant, body.loc(sb))
                    continue
                # from construction every non-error path passes the send
                bad = explore(body, [bi], avoid=[sb], stop=err_blocks(body) | diverging_blocks(body), want="return") if bi != sb else None
                ctx.check(bad is None, R, site, "constructed once, sent exactly once, outside any loop, on every non-error path",
                          "a non-error path skips the send: %s" % path_desc(body, bad), body.loc(sb))
            else:
                ctx.ok(R, site, "single constructor of the routed Deliver action", body.loc(bi, si))
    # handle_deliver: on every Ok path from entry the DeliverMessage send happens (message not dropped)
    hd = F.body("quiver_environment::environment::Environment::handle_deliver")
    fl = Flow(hd)
    sends = []
    for bi, si, s in agg_sites(hd, "messages::Command", "DeliverMessage"):
        sends += [cb for cb, ct, _ in consumer_calls(hd, fl, s["p"]["l"]) if (ct.get("callee") or "").endswith("::send")]
    bad = explore(hd, [0], avoid=sends, stop=err_blocks(hd) | diverging_blocks(hd), want="return")
    ctx.check(bad is None and sends, R, hd.key + "|every-ok-path-sends", "every non-error path through handle_deliver forwards the message",
              "a normal return of handle_deliver skips the forward: %s" % path_desc(hd, bad), hd.loc(0))
    # the worker side: Command::DeliverMessage handler calls notify_message exactly once
    dmk = "quiver_environment::worker::Worker::deliver_message"
    dm = F.body(dmk if dmk in F.fns else "quiver_environment::worker::Worker::handle_command")      # helper inlined by hand into the command handler
    nm = [bi for bi, _ in dm.calls_to("Executor::notify_message")]
    bad = explore(dm, [0], avoid=nm, stop=err_blocks(dm) | diverging_blocks(dm), want="return") if dm.key == dmk else None
    ctx.check(len(nm) == 1 and bad is None, R, dmk + "|notify_message", "deliver_message calls Executor::notify_message exactly once on every non-error path",
              "deliver_message may return normally without notify_message (%d call sites)" % len(nm), dm.loc(0))
    callers = [k for k, _b in F.callers_of("quiver_core::executor::Executor::notify_message")]
    ctx.check(sorted(set(callers)) == [dm.key], R, "callers(notify_message)", "notify_message is called only from Worker::deliver_message",
              "notify_message has other callers: %s" % sorted(set(callers)))
    # mailbox.push_back only in notify_message, exactly once on the process-exists path, retained, not in a loop
    n = 0
    for body in F.bodies():
        fl = Flow(body)
        for bi, t, f in field_calls(ctx, body, fl, ("VecDeque::push_back", "VecDeque::push_front", "VecDeque::insert", "VecDeque::extend", "VecDeque::append"),
                                    "process::Process", ("mailbox",)):
            n += 1
            site = "%s|mailbox.%s" % (body.key, t["callee"].split("::")[-1])
            if body.key != EXEC + "::notify_message":
                ctx.violated(R, site, "mailbox written outside Executor::notify_message", body.loc(bi))
            elif not t["callee"].endswith("push_back"):
                ctx.violated(R, site, "mailbox is not appended at the back (%s): FIFO order broken" % t["callee"], body.loc(bi))
            else:
                in_loop = body.reaches(body.succ[bi][0], bi)
                ctx.check(not in_loop, R, site, "single mailbox.push_back, outside any loop", "mailbox.push_back inside a loop", body.loc(bi))
    ctx.floor(R, "mailbox append sites", n, 1)
    nmb = F.body(EXEC + "::notify_message")
    fl = Flow(nmb)
    pb = field_calls(ctx, nmb, fl, ("VecDeque::push_back",), "process::Process", ("mailbox",))
    if pb:
        # process-exists path: is_some() true -> push
        issome = [(bi, t) for bi, t in nmb.calls_to("Option::is_some")]
        ok = False
        for bi, t in issome:
            r = t["dest"]["l"]
            bad = None
            for s in nmb.succ[bi]:
                bad = explore(nmb, [(s, {r: 1})], avoid=[pb[0][0]], stop=err_blocks(nmb) | diverging_blocks(nmb), want="return")
            if bad is None:
                ok = True
        ctx.check(ok, R, nmb.key + "|exists=>append", "when the target process exists the message is appended on every path",
                  "the message can be dropped although the target exists", nmb.loc(pb[0][0]))
        # the pushed value is the (heap-injected) message parameter
        pushed = op_place(pb[0][1]["args"][1])
        back = fl.backward({pushed["l"]}, through_calls=("Try::branch", "Executor::inject_heap_data"))
        msg_param = [nmb.param_by_type(lambda ty: ty == "quiver_core::value::Value", what="message parameter")]
        ctx.check(bool(msg_param) and msg_param[0] in back, R, nmb.key + "|appended-is-message", "the appended value is the delivered message (via inject_heap_data)",
                  "the appended value does not derive from the `message` parameter", nmb.loc(pb[0][0]))


def r4_order(ctx):
    R = "R-C04-4"
    ctx.rule(R, "order-preserving operations only: no sort/reverse/swap/rotate/pop_back/push_front/insert on a mailbox or on the "
                "environment's collected event list; events are collected per worker with try_recv and consumed by a forward for")
    F = ctx.facts
    bad_methods = ("sort", "sort_by", "sort_by_key", "sort_unstable", "sort_unstable_by", "reverse", "swap", "rotate_left", "rotate_right", "pop_back",
                   "push_front", "swap_remove", "swap_remove_back", "swap_remove_front", "make_contiguous", "dedup", "rev")
    n = 0
    for body in F.bodies():
        if body.fn["crate"] not in ("quiver_core", "quiver_environment", "quiv", "quiver_cli", "quiver_io", "quiver_web"):
            continue
        fl = Flow(body)
        for bi, t in body.calls():
            c = t.get("callee") or ""
            if not t["args"]:
                continue
            cp = fl.canon_op(t["args"][0])
            if cp is None:
                continue
            if fl.mentions_field(cp, "process::Process", "mailbox"):
                n += 1
                m = c.split("::")[-1]
                if m in bad_methods:
                    ctx.violated(R, "%s|mailbox.%s" % (body.key, m), "order-changing operation %s on a mailbox" % m, body.loc(bi))
    ctx.note("R-C04-4: %d mailbox operations inspected" % n)
    ctx.floor(R, "mailbox operations inspected", n, 5)
    es = F.body("quiver_environment::environment::Environment::step")
    fl = Flow(es)
    # the collected-event list: the Vec that receives the try_recv results
    ev_locals = []
    for bi, t in es.calls():
        if (t.get("callee") or "").endswith("Vec::push") and len(t["args"]) > 1 and op_place(t["args"][1]):
            srcs = Flow(es, through_named=True).sources(op_place(t["args"][1])["l"], through_calls=("Try::branch", "Result::map_err", "Option::unwrap"))
            if any(x[0] == "call" and (x[2].get("callee") or "").endswith("try_recv") for x in srcs):
                c0 = fl.canon_op(t["args"][0])
                if c0:
                    ev_locals.append(c0[0])
    if not ev_locals:
        raise CheckError("R-C04-4: the list collecting try_recv results was not found in Environment::step")
    ev = ev_locals[0]
    # the list may be handed on by value (returned from a collecting helper through Ok(..)?, re-bound): every Vec-typed local it flows to is the list

    def is_vec(l):
        ty = es.local_ty(l)
        while ty.startswith("&"):
            ty = ty[1:].lstrip()
            if ty.startswith("mut "):
                ty = ty[4:]
        return ty.startswith(("std::vec::Vec<", "alloc::vec::Vec<", "Vec<"))
    group = {l for l in Flow(es, through_named=True).forward({ev}, through_calls=("Try::branch",)) if is_vec(l)} | {ev}
    ops = []
    for bi, t in es.calls():
        if not t["args"]:
            continue
        cp = fl.canon_op(t["args"][0])
        if cp and cp[0] in group and not cp[1]:
            ops.append((bi, t["callee"].split("::")[-1] if t.get("callee") else "?"))
    names = sorted({m for _b, m in ops})
    ok = set(names) <= {"push", "into_iter", "new", "is_empty", "len", "deref"} and "push" in names and "into_iter" in names
    ctx.check(ok, R, es.key + "|events", "the collected event list is only pushed to and iterated forward (%s)" % names,
              "the collected event list is manipulated by %s" % names, es.loc(0))
    # events.push is fed by try_recv of the worker in the same loop
    recv = [bi for bi, t in es.calls() if (t.get("callee") or "").endswith("try_recv")]
    ctx.check(len(recv) == 1, R, es.key + "|try_recv", "one try_recv site feeds the event list", "expected exactly one try_recv site, found %d" % len(recv))
    he = [bi for bi, _t in es.calls_to("Environment::handle_event")]
    ctx.check(len(he) == 1, R, es.key + "|handle_event", "one handle_event call consumes the list", "expected one handle_event call, found %d" % len(he))


def r5_spawner(ctx):
    R = "R-C04-5"
    ctx.rule(R, "Environment::handle_spawn sends Command::SpawnProcess and Command::NotifySpawn exactly once each on every non-error path; "
                "Worker's NotifySpawn handler reaches Executor::notify_spawn")
    F = ctx.facts
    hs = F.body("quiver_environment::environment::Environment::handle_spawn")
    fl = Flow(hs)
    errb = err_blocks(hs) | diverging_blocks(hs)
    for variant in ("SpawnProcess", "NotifySpawn"):
        aggs = agg_sites(hs, "messages::Command", variant)
        site = "%s|send %s" % (hs.key, variant)
        if len(aggs) != 1:
            ctx.violated(R, site, "Command::%s constructed %d times in handle_spawn (expected 1)" % (variant, len(aggs)), hs.loc(0))
            continue
        bi, si, s = aggs[0]
        sends = [cb for cb, ct, _ in consumer_calls(hs, fl, s["p"]["l"]) if (ct.get("callee") or "").endswith("::send")]
        if len(sends) != 1:
            ctx.violated(R, site, "Command::%s is passed to %d sends" % (variant, len(sends)), hs.loc(bi, si))
            continue
        bad = explore(hs, [0], avoid=sends, stop=errb, want="return")
        in_loop = hs.reaches(hs.succ[sends[0]][0], sends[0])
        ctx.check(bad is None and not in_loop, R, site, "sent exactly once on every non-error path",
                  "a non-error path through handle_spawn skips Command::%s (or it is in a loop): %s" % (variant, path_desc(hs, bad)), hs.loc(sends[0]))
    # order: SpawnProcess before NotifySpawn (the spawner must not learn a pid before the process exists on its worker's queue)
    # worker side
    hc = F.body("quiver_environment::worker::Worker::handle_command")
    ns = [bi for bi, _t in hc.calls_to("Executor::notify_spawn")]
    ctx.check(len(ns) >= 1, R, hc.key + "|NotifySpawn->notify_spawn", "handle_command forwards NotifySpawn to Executor::notify_spawn",
              "Worker::handle_command no longer calls Executor::notify_spawn")
    # the spawner parks exactly when it issues the spawn
    for key in ("quiver_core::executor::Executor::handle_spawn",):
        b = F.fn(key, required=False)
        if b:
            body = F.body(key)
            ms = [bi for bi, _t in body.calls_to("Executor::mark_spawning")]
            acts = agg_sites(body, "process::Action", "Spawn")
            for bi, si, s in acts:
                ctx.check(bool(ms) and (body.must_pass(bi, ms) or any(body.reaches(bi, m) for m in ms)), R, key + "|mark_spawning",
                          "the spawner parks (mark_spawning) on the path that issues Action::Spawn",
                          "Action::Spawn issued without parking the spawner", body.loc(bi, si))


NARROWING = ("Iterator::filter", "Iterator::take", "Iterator::take_while", "Iterator::skip", "Iterator::skip_while", "Iterator::step_by", "Iterator::nth",
             "Vec::retain", "Vec::retain_mut", "Vec::truncate", "Vec::pop", "Vec::remove", "Vec::swap_remove", "Vec::drain", "Vec::split_off", "Vec::clear",
             "Vec::dedup", "Vec::dedup_by", "Vec::dedup_by_key", "Iterator::find", "Iterator::last", "Iterator::next")


def await_targets_complete(ctx, R):
    """every process-kind source of a select is asked about: the `targets` of the Action::Await built by initialize_select are ALL Value::Process
    sources (a source skipped here is never registered with its worker: a later failure/result of it never reaches this select)."""
    F = ctx.facts
    key = "quiver_core::executor::Executor::initialize_select"
    b = F.body(key)
    fl = Flow(b, through_named=True)
    aw = agg_sites(b, "process::Action", "Await")
    if not aw:
        raise CheckError("%s: Action::Await is not constructed in initialize_select" % R)
    bi, si, s = aw[0]
    d = dict(zip(s["rv"]["fields"], s["rv"]["ops"]))
    tp = op_place(d.get("targets", {}))
    if not tp:
        raise CheckError("%s: Action::Await.targets operand not found" % R)
    TC = ("Iterator::collect", "Iterator::filter_map", "Iterator::filter", "Iterator::map", "slice::iter", "Deref::deref", "IntoIterator::into_iter", "Iterator::cloned",
          "Iterator::copied", "Iterator::take", "Iterator::skip", "Iterator::take_while", "Iterator::skip_while", "Iterator::step_by", "Iterator::rev", "Clone::clone")
    back = fl.backward({tp["l"]}, through_calls=TC)
    pipeline = [(cb, t) for cb, t in b.calls() if t.get("dest") and t["dest"]["l"] in back]
    names = [(t.get("callee") or "") for _cb, t in pipeline]
    narrowing = [n for n in names if any(n.endswith(x) for x in NARROWING)]
    # in-place narrowing of the collected vector
    for cb, t in b.calls():
        c = t.get("callee") or ""
        if any(c.endswith(x) for x in NARROWING) and t["args"]:
            ap = op_place(t["args"][0])
            if ap and "Vec<usize>" in b.local_ty(ap["l"]) and (ap["l"] in back or fl.backward({ap["l"]}) & back) and b.reaches(cb, bi):
                narrowing.append(c)
    fm = [(cb, t) for cb, t in pipeline if (t.get("callee") or "").endswith("Iterator::filter_map")]
    # the projection closure: Some(..) on every path of the Process variant
    proj_ok = False
    VALUE = "quiver_core::value::Value"
    variants = [v["name"] for v in F.adt(VALUE)["variants"]]
    pidx = variants.index("Process")
    for ck in F.with_closures(key):
        if ck == key:
            continue
        cb_ = F.body(ck)
        if "core::option::Option<usize>" not in cb_.local_ty(0):
            continue
        somes = [x for x, _si, _s in agg_sites(cb_, "option::Option", "Some")]
        for blk, st_i, st in cb_.stmts():
            if st["k"] == "assign" and st["rv"]["k"] == "discr" and (st["rv"].get("adt") or "").endswith("value::Value"):
                sw = cb_.blocks[blk]["term"]
                if sw["k"] == "switch":
                    tgt = dict((v, bb) for v, bb in sw["targets"]).get(pidx, sw["otherwise"])
                    if somes and explore(cb_, [tgt], avoid=somes, want="return") is None:
                        proj_ok = True
    ok = bool(fm) and not narrowing and proj_ok
    ctx.check(ok, R, key + "|await-targets-complete",
              "Action::Await.targets = every Value::Process source (iter -> filter_map[Process => Some] -> collect, no narrowing step)",
              "the targets a select asks its workers about are narrowed (%s%s): a process source that is skipped is never registered, so its later "
              "result or FAILURE never reaches this select (hang, or the select runs on to another source)" % (
                  ", ".join(sorted(set(x.split("::")[-1] for x in narrowing))) or "projection changed", "" if proj_ok else "; the Process projection no longer yields Some on every path"),
              b.loc(bi, si))
    # a non-empty target list always produces the Await action
    empt = [(cb, t) for cb, t in b.calls() if (t.get("callee") or "").endswith("Vec::is_empty") and op_place(t["args"][0]) and
            (fl.backward({op_place(t["args"][0])["l"]}) & back) and b.dominates(cb, bi)]
    ok2 = False
    stop = err_blocks(b) | diverging_blocks(b)
    for cb, t in empt:
        r = t["dest"]["l"]
        bad = None
        for x in b.succ[cb]:
            bad = bad or explore(b, [(x, {r: 0})], avoid=[bi], stop=stop, want="return")
        if bad is None:
            ok2 = True
    ctx.check(ok2, R, key + "|await-when-non-empty", "a non-empty target list reaches the Action::Await on every non-error path",
              "initialize_select can return without Action::Await although there are process sources to ask about", b.loc(bi, si))


def r6_await_registration(ctx):
    R = "R-C04-6"
    ctx.rule(R, "await protocol: Worker::query_and_await answers 'not finished' (None) for a target only after registering the awaiter "
                "(awaited.insert + awaiters_for_target entry push) so that check_completed_processes reports the completion later; "
                "check_completed_processes sends ProcessResults for every registered awaiter and reports Err results as well as Ok")
    F = ctx.facts
    await_targets_complete(ctx, R)
    q = F.body("quiver_environment::worker::Worker::query_and_await")
    fl = Flow(q)
    # the answer map: the operand of the `results` field of the Event::ProcessResults this function sends
    res_locals = []
    for _bi, _si, _s in agg_sites(q, "messages::Event", "ProcessResults"):
        for fname, o in zip(_s["rv"]["fields"], _s["rv"]["ops"]):
            if fname == "results" and op_place(o):
                res_locals.append(fl.canon_place(op_place(o))[0])
                res_locals += list(Flow(q, through_named=True).backward({op_place(o)["l"]}))
    if not res_locals:
        raise CheckError("R-C04-6: the answer map sent in Event::ProcessResults was not found in query_and_await")
    none_inserts = []
    for bi, t in q.calls():
        if not (t.get("callee") or "").endswith("HashMap::insert") or len(t["args"]) < 3:
            continue
        cp = fl.canon_op(t["args"][0])
        if not cp or cp[0] not in res_locals:
            continue
        vp = op_place(t["args"][2])
        is_none = False
        if vp is not None:
            for src in fl.sources(vp["l"]):
                if src[0] == "rv" and src[2]["rv"]["k"] == "agg" and src[2]["rv"].get("variant") == "None":
                    is_none = True
        if is_none:
            none_inserts.append(bi)
    ctx.floor(R, "results.insert(target, None) sites", len(none_inserts), 1)
    awaited_ins = [bi for bi, t, f in field_calls(ctx, q, fl, ("HashSet::insert",), "worker::Worker", ("awaited",))]
    entries = [bi for bi, t, f in field_calls(ctx, q, fl, ("HashMap::entry",), "worker::Worker", ("awaiters_for_target",))]
    awaiter_param = [q.param_by_type(lambda ty: ty == "usize", what="awaiter parameter")]
    pushes = []
    for bi, t in q.calls():
        if (t.get("callee") or "").endswith("Vec::push") and len(t["args"]) > 1:
            c = fl.canon_op(t["args"][1])
            if c and awaiter_param and c[0] == awaiter_param[0]:
                pushes.append(bi)
    for ni in none_inserts:
        site = q.key + "|None-answer"
        ok = bool(awaited_ins) and bool(entries) and bool(pushes) and q.must_pass(ni, awaited_ins) and q.must_pass(ni, entries) and q.must_pass(ni, pushes)
        ctx.check(ok, R, site, "every path to the 'not finished' answer registers the target in `awaited` and the awaiter in `awaiters_for_target`",
                  "a target can be answered 'not finished' without registering the awaiter for the later completion (lost wake-up of a late/conditional await)",
                  q.loc(ni))
    # the answer is always sent
    sends = []
    for bi, si, s in agg_sites(q, "messages::Event", "ProcessResults"):
        sends += [cb for cb, ct, _ in consumer_calls(q, fl, s["p"]["l"]) if (ct.get("callee") or "").endswith("::send")]
    bad = explore(q, [0], avoid=sends, stop=err_blocks(q) | diverging_blocks(q), want="return")
    ctx.check(bool(sends) and bad is None, R, q.key + "|answer-sent", "query_and_await sends ProcessResults on every non-error path",
              "query_and_await can return normally without answering: %s" % path_desc(q, bad), q.loc(0))
    # check_completed_processes
    c = F.body("quiver_environment::worker::Worker::check_completed_processes")
    flc = Flow(c)
    sends = []
    for bi, si, s in agg_sites(c, "messages::Event", "ProcessResults"):
        sends += [cb for cb, ct, _ in consumer_calls(c, flc, s["p"]["l"]) if (ct.get("callee") or "").endswith("::send")]
    rem = [bi for bi, t, f in field_calls(ctx, c, flc, ("HashMap::remove",), "worker::Worker", ("awaiters_for_target",))]
    ecr = [bi for bi, _t in c.calls_to("Worker::extract_completed_result")]
    ok = bool(sends) and bool(rem) and bool(ecr) and all(c.reaches(r, s) for r in rem for s in sends)
    ctx.check(ok, R, c.key + "|report", "check_completed_processes takes the registered awaiters of a completed target and sends ProcessResults to them",
              "check_completed_processes no longer reports completions to registered awaiters", c.loc(0))
    # EVERY awaited target is examined, and "finished" is read off Process.result (extract_completed_result), not off a status summary: the pids
    # handed to extract_completed_result are the elements of `self.awaited` with no narrowing step on the way (get_status reports Waiting ahead of
    # Failed, so a target that was failed by propagation while parked would be filtered out for ever), and no iteration skips the extraction
    fcl = Flow(c, through_named=True)
    TCP = ("Iterator::collect", "Iterator::map", "Iterator::filter", "Iterator::filter_map", "slice::iter", "Deref::deref", "IntoIterator::into_iter", "Iterator::cloned",
           "Iterator::copied", "HashSet::iter", "Iterator::next", "Iterator::take", "Iterator::skip", "Iterator::take_while", "Iterator::skip_while", "Clone::clone",
           "Vec::iter", "BTreeSet::iter", "Iterator::rev")
    for eb in ecr:
        et = c.blocks[eb]["term"]
        pp = op_place(et["args"][1]) if len(et["args"]) > 1 else None
        if not pp:
            continue
        back = fcl.backward({pp["l"]}, through_calls=TCP + ("HashMap::keys", "HashMap::iter", "BTreeMap::keys"))
        regs = {f for o_, f in fcl.slice_reads(pp["l"], through_calls=TCP + ("HashMap::keys", "HashMap::iter", "BTreeMap::keys"))[0] if (o_ or "").endswith("worker::Worker")}
        from_awaited = bool(regs & {"awaited", "pending_result_requests"})       # the two registries of "someone waits for this process"
        steps = sorted({(t.get("callee") or "").split("::")[-1] for _cb, t in c.calls() if t["dest"]["l"] in back and
                        any((t.get("callee") or "").endswith(x) for x in NARROWING if x != "Iterator::next")})
        ctx.check(from_awaited and not steps, R, c.key + "|every-awaited-target#%d" % ecr.index(eb), "each element of `awaited` is handed to extract_completed_result (finished = has a result)",
                  "the targets examined for completion are %s: a target that holds a result but is filtered out (e.g. by a status that reports Waiting "
                  "ahead of Failed) is never reported to its awaiters" % ("narrowed by " + ", ".join(steps) if steps else "not the elements of `awaited`"), c.loc(eb))
        heads = [bi for bi, t in c.calls() if (t.get("callee") or "").endswith("Iterator::next") and c.dominates(bi, eb) and c.reaches(eb, bi)]
        if heads:
            h0 = heads[0]
            for h in heads:
                if c.dominates(h0, h):
                    h0 = h
            some_edges = [m.get(1, other) for _swb, m, other in discr_switches(c, c.blocks[h0]["term"]["dest"]["l"])]
            skip = None
            for e in some_edges:
                skip = skip or explore(c, [e], avoid=[eb], stop=err_blocks(c) | diverging_blocks(c), want="target", targets=[h0])
            ctx.check(bool(some_edges) and skip is None, R, c.key + "|no-skipped-target#%d" % ecr.index(eb), "no iteration over the awaited targets skips the extraction",
                      "an iteration over the awaited targets can skip extract_completed_result: %s" % path_desc(c, skip), c.loc(h0))
    # it is invoked by every Worker::step after the executor step
    st = F.body("quiver_environment::worker::Worker::step")
    cc = [bi for bi, _t in st.calls_to("Worker::check_completed_processes")]
    ex = [bi for bi, _t in st.calls_to("Executor::step")]
    bad = explore(st, [0], avoid=cc, stop=err_blocks(st) | diverging_blocks(st), want="return")
    ctx.check(bool(cc) and bad is None and all(st.reaches(e, k) for e in ex for k in cc), R, st.key + "|check_completed",
              "Worker::step runs check_completed_processes after the executor step on every non-error path",
              "Worker::step can return normally without check_completed_processes", st.loc(0))
    # extract_completed_result reports both Ok and Err results (a failed awaited process is a completion)
    e = F.body("quiver_environment::worker::Worker::extract_completed_result")
    errs = [1 for bi, si, s in e.stmts() if s["k"] == "assign" and s["rv"]["k"] == "agg" and s["rv"].get("variant") == "Err" and s["rv"].get("adt", "").endswith("result::Result")]
    oks = [1 for bi, si, s in e.stmts() if s["k"] == "assign" and s["rv"]["k"] == "agg" and s["rv"].get("variant") == "Ok" and s["rv"].get("adt", "").endswith("result::Result")]
    ctx.check(bool(errs) and bool(oks), R, e.key + "|ok-and-err", "extract_completed_result yields both Ok(value) and Err(error) completions",
              "extract_completed_result no longer reports failed processes (or successful ones)", e.loc(0))
    # update_await_results wakes the awaiter when there was no actual result
    u = F.body("quiver_environment::worker::Worker::update_await_results")
    ma = [bi for bi, _t in u.calls_to("Executor::mark_active")]
    nr = [bi for bi, _t in u.calls_to("Worker::notify_result")]
    if "quiver_environment::worker::Worker::notify_result" not in F.fns:
        # helper inlined by hand: "notifies a result" = hands it to the executor, or (a failed target) writes the awaiter's result
        nr = [bi for bi, _t in u.calls_to("Executor::notify_result")]
        # the failed-target arm starts by looking the awaiter up (an awaiter that is gone or already finished needs no wake-up)
        nr += [bi for bi, _t in u.calls_to("Executor::get_process_mut")]
        nr += [bi for bi, si, s in u.stmts() if s["k"] == "assign" and [e for e in s["p"]["pr"] if e[0] == "f"] and
               [e for e in s["p"]["pr"] if e[0] == "f"][-1][1] == "result" and ([e for e in s["p"]["pr"] if e[0] == "f"][-1][2] or "").endswith("process::Process")]
    bad = explore(u, [0], avoid=ma + nr, stop=err_blocks(u) | diverging_blocks(u), want="return")
    ctx.check(bool(ma) and bool(nr) and bad is None, R, u.key + "|wake", "update_await_results either notifies a result or marks the awaiter active on every non-error path",
              "update_await_results can return without waking the awaiter: %s" % path_desc(u, bad), u.loc(0))


def r7_actions_forwarded(ctx, R="R-C04-7"):
    ctx.rule(R, "the environment is the only router: every arm of Worker::handle_action sends the arm's own Event on EVERY non-error path (no "
                "worker-local short cut around Environment::handle_deliver / handle_spawn / handle_await — those are where ownership moves, awaits "
                "are registered and cleanup is triggered); Worker::deliver_message is called only by the Command::DeliverMessage handler; "
                "check_completed_processes reports to every registered awaiter (no skipped iteration)")
    F = ctx.facts
    ha = F.body("quiver_environment::worker::Worker::handle_action")
    fl = Flow(ha)
    ACTION = "quiver_core::process::Action"
    variants = F.variants(ACTION)
    ap = ha.param_by_type(lambda ty: ty.startswith("quiver_core::process::Action"), what="action parameter")
    sws = discr_switches(ha, ap)
    if not sws:
        raise CheckError("%s: the match over the action was not found in handle_action" % R)
    sw = sws[0]
    stop = err_blocks(ha) | diverging_blocks(ha)
    ev_sends = {}
    for bi, si, st in agg_sites(ha, "messages::Event"):
        for cb, ct, _ai in consumer_calls(ha, fl, st["p"]["l"]):
            if (ct.get("callee") or "").endswith("::send"):
                ev_sends.setdefault(st["rv"]["variant"], []).append(cb)
    n = 0
    for idx, v in enumerate(variants):
        entry = sw[1].get(idx, sw[2])
        # the Event(s) constructed in this arm: those whose send block is reachable from the arm entry
        mine = {ev: [b for b in bs if ha.reaches(entry, b)] for ev, bs in ev_sends.items()}
        mine = {ev: bs for ev, bs in mine.items() if bs}
        site = "%s|Action::%s" % (ha.key, v)
        if not mine:
            ctx.violated(R, site, "the Action::%s arm sends no Event at all: the action is swallowed by the worker" % v, ha.loc(entry))
            continue
        n += 1
        allb = [b for bs in mine.values() for b in bs]
        bad = explore(ha, [entry], avoid=allb, stop=stop, want="return")
        ctx.check(bad is None, R, site, "every non-error path of the arm sends Event::%s" % "/".join(sorted(mine)),
                  "a path through the Action::%s arm returns normally WITHOUT sending Event::%s (worker-local short cut: the environment never sees "
                  "the action, so ownership transfer / await registration / routing for it does not happen): %s" % (v, "/".join(sorted(mine)), path_desc(ha, bad)),
                  ha.loc(entry))
    ctx.floor(R, "Action arms forwarding an Event", n, 4)
    dm = "quiver_environment::worker::Worker::deliver_message"
    if dm not in F.fns:
        dm = "quiver_core::executor::Executor::notify_message"      # helper inlined by hand: the handler calls the executor entry directly
    callers = sorted({k.split("::{closure")[0] for k, _b in F.callers_of(dm)})
    ctx.check(callers == ["quiver_environment::worker::Worker::handle_command"], R, "callers(deliver_message)",
              "Worker::deliver_message is called only from the Command handler (messages reach a mailbox only after the environment routed them)",
              "Worker::deliver_message has other callers: %s" % callers)
    # check_completed_processes: no awaiter of the removed list is skipped
    c = F.body("quiver_environment::worker::Worker::check_completed_processes")
    flc = Flow(c)
    sends = []
    for bi, si, st in agg_sites(c, "messages::Event", "ProcessResults"):
        sends += [cb for cb, ct, _ in consumer_calls(c, flc, st["p"]["l"]) if (ct.get("callee") or "").endswith("::send")]
    stopc = err_blocks(c) | diverging_blocks(c)
    inner = None
    for bi, t in c.calls():
        if (t.get("callee") or "").endswith("Iterator::next") and sends and all(c.reaches(s2, bi) and c.dominates(bi, s2) for s2 in sends):
            # innermost loop containing the send: the header dominated by every other candidate
            if inner is None or c.dominates(inner[0], bi):
                inner = (bi, 0, t)
    hb, _sz, ht = inner
    some_edges = []
    for swb, m, other in discr_switches(c, ht["dest"]["l"]):
        some_edges.append(m.get(1, other))
    bad = None
    for e in some_edges:
        bad = bad or explore(c, [e], avoid=sends, stop=stopc, want="target", targets=[hb])
    ctx.check(bool(some_edges) and bad is None, R, c.key + "|every-awaiter", "every iteration of the awaiter loop sends ProcessResults (no awaiter is skipped)",
              "an iteration of the awaiter loop can skip the ProcessResults send: that awaiter is never told, and the environment never learns of the "
              "completion through it (cleanup_process_resources is triggered by this event): %s" % path_desc(c, bad), c.loc(hb))


def r8_timeouts_wake(ctx):
    """a timeout that has elapsed resumes the select: the three expiry tests (the select's own, the periodic check that re-queues parked selects, the
    host's next-wake-up time) agree in direction and strictness — shared with R-C05-6"""
    from rules import c05
    before = len(ctx.obs)
    c05.r6_timeouts(ctx)
    for o in ctx.obs[before:]:
        o["rule"] = "R-C04-8"
    if "R-C05-6" in ctx.rules:
        ctx.rules["R-C04-8"] = ctx.rules.pop("R-C05-6")
    for f in ctx.floors:
        if f["rule"] == "R-C05-6":
            f["rule"] = "R-C04-8"


def run(ctx):
    ctx.run_rules([r1_unpark_enqueue, r2_park_dequeue, r3_pipeline, r4_order, r5_spawner, r6_await_registration, r7_actions_forwarded, r8_timeouts_wake])
    return (
        "Decides structural clauses only: (1) every parked-set removal is paired with a run-queue push of the same id on every non-error "
        "path and only when something was parked; (2) only mark_* park, each dequeues, step re-queues unless parked, effect requests park first; "
        "(3) the Send->Deliver->DeliverAction->DeliverMessage->notify_message->mailbox.push_back pipeline has one constructor and one forward per "
        "stage, outside loops, on every non-error path; (4) only order-preserving operations touch mailboxes and the collected event list; "
        "(5) handle_spawn always sends SpawnProcess and NotifySpawn; (6) a not-finished await answer is only given after registering the awaiter, and completions (Ok and Err) are reported to registered awaiters by every worker step. Does NOT decide liveness under real interleavings, mpsc FIFO-ness, or the await protocol's races.",
        "obligations are MIR call sites / constructor sites selected by resolved callee and owner field; each is discharged by CFG "
        "reachability with constant threading (explore), dominance, or who-may-call censuses",
    )
