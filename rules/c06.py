"""C06 — binary heap accounting is exact (root-write audit and companions)."""
import json
import os

from qvlib import hir
from qvlib.extract import VERIF, CheckError
from qvlib.facts import op_local, op_place
from qvlib.paths import (Flow, agg_sites, call_matches, callee_in, consumer_calls, discr_switches, diverging_blocks, err_blocks, explore,
                         lookup_fail_edges, option_none_edges, path_desc)

CRATES = None
EXEC = "quiver_core::executor::Executor"
VALUE = "quiver_core::value::Value"
RUNTIME_CRATES = ("quiver_core", "quiver_environment", "quiv", "quiver_cli", "quiver_io", "quiver_web", "quiver_lsp")
TABLE = json.load(open(os.path.join(VERIF, "rules", "tables", "c06.json")))

# adaptors through which "the same value" flows
ADAPT = ("Clone::clone", "Option::unwrap", "Option::expect", "Option::ok_or", "Option::ok_or_else", "Try::branch", "Option::map", "Option::take",
         "Option::flatten", "Option::and_then", "Option::unwrap_or", "Result::unwrap", "Result::ok", "Result::expect", "IntoIterator::into_iter",
         "Iterator::next", "slice::iter", "Vec::iter", "VecDeque::iter", "Iterator::enumerate", "Iterator::flatten", "hash_map::HashMap::values",
         "Arc::new", "Rc::new", "Vec::from", "slice::to_vec", "vec::from_elem", "Executor::inject_heap_data", "alloc::boxed::box_new", "slice::into_vec",
         "Option::as_ref", "Option::cloned", "Option::copied", "mem::replace", "mem::take")

MUTATORS_IN = ("push", "push_back", "push_front", "insert", "extend", "append", "replace", "get_or_insert", "get_or_insert_with", "resize", "extend_from_slice")
MUTATORS_OUT = ("pop", "pop_front", "pop_back", "remove", "split_off", "take", "swap_remove", "swap_remove_back", "remove_entry")
MUTATORS_RAW_DROP = ("truncate", "clear", "drain", "retain", "retain_mut", "dedup", "shrink_to")
NEUTRAL = ("swap", "rotate_left", "rotate_right", "reverse", "len", "is_empty", "iter", "last", "first", "get", "contains", "contains_key",
           "reserve", "capacity", "as_slice", "deref", "as_ref", "is_some", "is_none", "values", "keys", "as_mut", "deref_mut", "iter_mut", "last_mut",
           "get_mut", "index_mut", "index", "as_mut_slice", "values_mut", "entry", "make_contiguous", "shrink_to_fit", "sort", "sort_by")
# methods that hand out &mut to an element: any write through it is an overwrite (audited via assignments / mem::replace on the derived place)
ELEMENT_MUT = ("iter_mut", "last_mut", "get_mut", "index_mut", "values_mut", "entry", "as_mut", "deref_mut", "as_mut_slice")


def derive_roots(F):
    """Value-bearing fields of Process / SelectState (derived from the ADT facts) + Executor.constant_binaries."""
    roots = []
    for adt in ("quiver_core::process::Process", "quiver_core::process::SelectState"):
        for f in F.variant_fields(adt):
            if VALUE in f["mentions"] or "quiver_core::value::Binary" in f["mentions"] or "quiver_core::process::SelectState" in f["mentions"]:
                roots.append((adt, f["name"]))
    roots.append((EXEC, "constant_binaries"))
    return roots


def writes_plain_field(F, place):
    """the written place ends in a field (of one of the repository's own structs) whose declared type cannot hold a Value — e.g.
    `(*select_state).start_time = Some(now)` through the `&mut SelectState` that `select_state.as_mut()` hands out: not a write to a GC root"""
    fs = [e for e in place["pr"] if e[0] == "f"]
    if not fs or not fs[-1][2] or str(fs[-1][2]).startswith("closure:"):
        return False
    try:
        for f in F.variant_fields(fs[-1][2], fs[-1][3] if len(fs[-1]) > 3 else None):
            if f["name"] == fs[-1][1]:
                m = f.get("mentions") or []
                return not (VALUE in m or "quiver_core::value::Binary" in m or "quiver_core::process::SelectState" in m or "quiver_core::process::Process" in m)
    except Exception:
        return False
    return False


def root_of(flow, c, roots):
    if c is None:
        return None
    hit = None
    for e in c[1]:
        if e[0] == "f":
            for ro, rf in roots:
                if e[1] == rf and (e[2] or "") == ro:
                    hit = (ro.split("::")[-1], rf)
    return hit


def value_typed(body, l):
    ty = body.local_ty(l)
    return "value::Value" in ty or "value::Binary" in ty or "process::SelectState" in ty


def vset(body, locs):
    return {l for l in locs if value_typed(body, l)}


class Site:
    def __init__(self, body, bi, si, kind, op, root, callee=None, term=None, stmt=None):
        self.body, self.bi, self.si, self.kind, self.op, self.root, self.callee, self.term, self.stmt = body, bi, si, kind, op, root, callee, term, stmt


def enumerate_sites(F, roots):
    sites = []
    for body in F.bodies():
        if body.fn["crate"] not in RUNTIME_CRATES:
            continue
        flow = Flow(body)
        for bi, t in body.calls():
            if not t["args"]:
                continue
            c = t.get("callee") or ""
            m = c.split("::")[-1]
            # mem::replace / mem::take take the place as arg0 too
            a0 = t["args"][0]
            if not a0.get("p"):
                continue
            if not body.local_ty(a0["p"]["l"]).startswith("&mut"):
                continue
            cp = flow.canon_op(a0)
            r = root_of(flow, cp, roots)
            if not r:
                continue
            sites.append(Site(body, bi, "term", "call", m, r, callee=c, term=t))
        for bi, si, s in body.stmts():
            if s["k"] == "assign" and s["p"]["pr"]:
                cp = flow.canon_place(s["p"])
                r = root_of(flow, cp, roots)
                if r:
                    # writes to sub-fields of SelectState that are not roots themselves (cursors, start_time) are not root writes
                    last = [e for e in cp[1] if e[0] == "f"][-1]
                    if (last[2] or "").endswith("SelectState") and last[1] not in ("sources", "receiving"):
                        continue
                    if (last[2] or "").endswith("process::Frame"):
                        continue
                    sites.append(Site(body, bi, si, "assign", "=", r, stmt=s))
    return sites


def site_key(site, ordinals):
    base = site.body.key
    k = "%s|%s.%s|%s" % (base, site.root[0], site.root[1], site.op)
    n = ordinals.get(k, 0)
    ordinals[k] = n + 1
    return "%s#%d" % (k, n)


def heap_free_value(body, flow, l, depth=0, F=None):
    """True if every source of local l is a heap-free value: aggregates Value::{Process,Builtin,Integer,Reference,Resource}, Value::nil()/ok(),
    None, Err(..) / Some(Err(..)); a parameter is heap-free when every caller passes a heap-free value."""
    if depth > 6:
        return False
    fl = Flow(body, through_named=True)
    srcs = fl.sources(l, stop_at_agg=True)
    if not srcs:
        return False
    for s in srcs:
        if s[0] == "call":
            c = s[2].get("callee") or ""
            if c.endswith("value::Value::nil") or c.endswith("value::Value::ok"):
                continue
            return False
        if s[0] == "rv":
            rv = s[2]["rv"]
            if rv["k"] == "agg" and rv.get("kind") == "adt":
                if rv["adt"] == VALUE and rv["variant"] in ("Process", "Builtin", "Integer", "Reference", "Resource"):
                    continue
                if rv["variant"] in ("None", "Err"):
                    continue
                if rv["adt"].endswith("error::Error"):
                    continue
                if rv["variant"] in ("Some", "Ok"):
                    ok = True
                    for o in rv["ops"]:
                        if o.get("c") == "const":
                            continue
                        if not o.get("p") or not heap_free_value(body, flow, o["p"]["l"], depth + 1, F):
                            ok = False
                    if ok:
                        continue
            return False
        if s[0] == "const":
            continue
        if s[0] == "arg":
            ty = body.local_ty(s[1])
            if "error::Error" in ty and "value::Value" not in ty:
                continue
            if F is not None:
                callers = F.callers_of(body.key)
                if callers and all(_caller_arg_heap_free(F, ck, cb, s[1]) for ck, cb in callers):
                    continue
            return False
        return False
    return True


def _caller_arg_heap_free(F, caller_key, block, arg_index):
    cb = F.body(caller_key)
    t = cb.blocks[block]["term"]
    if arg_index - 1 >= len(t["args"]):
        return False
    a = t["args"][arg_index - 1]
    if a.get("c") == "const":
        return True
    return bool(a.get("p")) and heap_free_value(cb, Flow(cb), a["p"]["l"], 1, None)


def is_err_payload(body, fl, op):
    """The assigned value is Some(Err(..)) / Err(..): carries no Value."""
    p = op_place(op)
    if p is None:
        return False
    srcs = Flow(body, through_named=True).sources(p["l"])
    aggs = [s[2]["rv"] for s in srcs if s[0] == "rv" and s[2]["rv"]["k"] == "agg"]
    return False


def audit(ctx):
    R = "R-C06-1"
    ctx.rule(R, "root-write audit: every mutation of a GC root (Process.{stack,locals,mailbox,result,select_state,awaiting}, SelectState.{sources,"
                "receiving}, Executor.constant_binaries) is justified: J2 paired retain on the inserted value, J3 paired release of everything "
                "removed/overwritten on every non-error path, J4 root-to-root move, J5 heap-free value, or J6 one reviewed exception; raw "
                "truncate/clear/drain of a root is never justified")
    F = ctx.facts
    roots = derive_roots(F)
    want = {("quiver_core::process::Process", f) for f in ("stack", "locals", "mailbox", "result", "select_state", "awaiting")} | {
        ("quiver_core::process::SelectState", f) for f in ("sources", "receiving")} | {(EXEC, "constant_binaries")}
    ctx.check(set(roots) == want, "R-C06-4", "derived-roots", "derived root fields = %s" % sorted(f for _a, f in roots),
              "the set of Value-bearing fields of Process/SelectState changed: %s (new roots must be taught to the audit and the tracing oracle)"
              % sorted(set(roots) ^ want))
    sites = enumerate_sites(F, roots)
    ordinals = {}
    n_root_writes = 0
    per_fn = {}
    for s in sites:
        per_fn.setdefault(s.body.key, []).append(s)
    for key, ss in sorted(per_fn.items()):
        body = ss[0].body
        flow = Flow(body)
        fln = Flow(body, through_named=True)
        errb = err_blocks(body) | diverging_blocks(body)
        retains = [(bi, t) for bi, t in body.calls_to("Executor::retain")]
        releases = [(bi, t) for bi, t in body.calls_to("Executor::release")]
        # IN / OUT value groups of all sites in this function (for J4)
        in_groups = []
        out_groups = []
        info = []
        for s in ss:
            m = s.op
            in_op = None
            out_local = None
            kind = None
            if s.kind == "call":
                t = s.term
                if m in NEUTRAL:
                    if m in ELEMENT_MUT and not (s.root == ("Executor", "constant_binaries")):
                        kind = "elem-mut"
                    elif m in ELEMENT_MUT:
                        kind = "elem-mut"
                    else:
                        continue
                elif m in MUTATORS_RAW_DROP:
                    kind = "raw-drop"
                elif m in ("replace",) and callee_in(s.callee, ("mem::replace", "Option::replace")):
                    kind = "in+out"
                    in_op = t["args"][1]
                    out_local = t["dest"]["l"]
                elif m == "take" and callee_in(s.callee, ("mem::take",)):
                    kind = "out"
                    out_local = t["dest"]["l"]
                elif m == "insert" and "HashMap" in s.callee:
                    kind = "in+out"
                    in_op = t["args"][2]
                    out_local = t["dest"]["l"]
                elif m == "resize":
                    kind = "in"
                    in_op = t["args"][2]
                elif m in MUTATORS_IN:
                    kind = "in"
                    in_op = t["args"][-1]
                elif m in MUTATORS_OUT:
                    kind = "out"
                    out_local = t["dest"]["l"]
                else:
                    kind = "unknown"
            else:
                kind = "in+overwrite"
                in_op = s.stmt["rv"].get("op") if s.stmt["rv"]["k"] == "use" else None
                if in_op is None and s.stmt["rv"]["k"] == "agg":
                    in_op = {"agg": s.stmt["rv"]}
            info.append((s, kind, in_op, out_local))
            if out_local is not None:
                out_groups.append((s, vset(body, flow.forward({out_local}, through_calls=ADAPT))))
            if in_op is not None and in_op.get("p"):
                in_groups.append((s, vset(body, fln.backward({in_op["p"]["l"]}, through_calls=ADAPT))))
        j4_pairs = []
        released_out = {}
        in_just = {}
        out_moved = []
        for s, kind, in_op, out_local in info:
            n_root_writes += 1
            sk = site_key(s, ordinals)
            s.sk = sk
            loc = body.loc(s.bi, s.si if s.si != "term" else None)
            rev = TABLE["reviewed"].get(sk)
            if kind == "raw-drop":
                ctx.violated(R, sk, "raw %s on root %s.%s drops values without releasing them" % (s.op, s.root[0], s.root[1]), loc)
                continue
            if kind == "unknown":
                if rev:
                    ctx.exception(R, sk, rev, loc)
                else:
                    ctx.violated(R, sk, "unclassified mutating call %s on root %s.%s" % (s.callee, s.root[0], s.root[1]), loc)
                continue
            if kind == "elem-mut":
                # a &mut into the root is handed out: audit what is written through it
                d = s.term["dest"]["l"]
                derived = flow.forward({d}, through_calls=("Iterator::next", "Iterator::enumerate", "IntoIterator::into_iter", "Option::unwrap", "Option::expect", "Try::branch", "Option::ok_or"))
                wr = [(b2, si2, s2) for b2, si2, s2 in body.stmts() if s2["k"] == "assign" and s2["p"]["l"] in derived and any(e[0] == "*" for e in s2["p"]["pr"])
                      and not writes_plain_field(F, s2["p"])]
                # only Value-typed element writes matter (frames.last_mut().counter etc. are not roots and never get here)
                repl = [(b2, t2) for b2, t2 in body.calls() if call_matches(t2, ("mem::replace", "mem::take", "mem::swap")) and t2["args"] and (op_place(t2["args"][0]) or {}).get("l") in derived]
                if not wr and not repl:
                    ctx.ok(R, sk, "hands out &mut into the root but nothing is written through it", loc)
                    continue
                if s.body.key == EXEC + "::release_orphan_locals":
                    ok = choke_release_orphans(body, flow, fln)
                    ctx.check(ok, R, sk, "J1 choke point: each orphan slot is mem::replace'd with Value::nil() and the replaced values are released in a loop",
                              "release_orphan_locals no longer follows its schema (replace-with-nil + release of every replaced value)", loc)
                    continue
                if len(wr) == 1 and not repl and wr[0][2]["rv"]["k"] in ("use", "agg"):
                    kind = "in+overwrite-elem"
                    s.stmt = wr[0][2]
                    s.bi_assign = wr[0][0]
                    in_op = s.stmt["rv"].get("op") if s.stmt["rv"]["k"] == "use" else {"agg": s.stmt["rv"]}
                    if in_op.get("p"):
                        in_groups.append((s, vset(body, fln.backward({in_op["p"]["l"]}, through_calls=ADAPT))))
                else:
                    if rev:
                        ctx.exception(R, sk, rev, loc)
                    else:
                        ctx.violated(R, sk, "writes through a mutable reference into root %s.%s (%s) are not auditable" % (s.root[0], s.root[1], s.op), loc)
                    continue
            problems = []
            notes = []
            # ---------------- IN obligation
            if "in" in kind:
                just = None
                in_local = in_op["p"]["l"] if in_op and in_op.get("p") else None
                if in_op is not None and in_op.get("c") == "const":
                    just = "J5 constant"
                if just is None and in_op is not None and in_op.get("agg"):
                    rv = in_op["agg"]
                    if rv.get("variant") in ("None",):
                        just = "J5 None"
                    else:
                        # aggregate assigned directly: look at its operands
                        ops = [o for o in rv["ops"] if o.get("p")]
                        if ops and all(heap_free_value(body, flow, o["p"]["l"], 0, F) for o in ops):
                            just = "J5 heap-free aggregate"
                        elif not ops:
                            just = "J5 constant aggregate"
                        else:
                            in_local = ops[0]["p"]["l"] if len(ops) == 1 else None
                            grp = set()
                            for o in ops:
                                grp |= vset(body, fln.backward({o["p"]["l"]}, through_calls=ADAPT))
                            in_groups.append((s, grp))
                if just is None and in_local is not None and heap_free_value(body, flow, in_local, 0, F):
                    just = "J5 heap-free value"
                grp = None
                if just is None:
                    for s2, g in in_groups:
                        if s2 is s:
                            grp = g
                    grp = grp or set()
                    # J2: retain on the same value group, dominating the site or on every path after it
                    for rb, rt in retains:
                        rl = op_place(rt["args"][1])
                        if not rl:
                            continue
                        rg = vset(body, fln.backward({rl["l"]}, through_calls=ADAPT))
                        if rg & grp:
                            if body.must_pass(s.bi, [rb]) or (s.bi == rb):
                                just = "J2 retain(%s) before the insert" % flow.canon_str(flow.canon_op(rt["args"][1]))
                                break
                            after = all(explore(body, [x], avoid=[rb], stop=errb, want="return") is None for x in body.succ[s.bi])
                            if after:
                                just = "J2 retain(%s) on every path after the insert" % flow.canon_str(flow.canon_op(rt["args"][1]))
                                break
                    # J2 for collections: retain inside a loop over the inserted collection (replace_locals)
                    if just is None:
                        for rb, rt in retains:
                            rl = op_place(rt["args"][1])
                            if rl and vset(body, fln.backward({rl["l"]}, through_calls=ADAPT)) & grp and body.reaches(rb, s.bi):
                                just = "J2 retain of the inserted collection's elements before the insert"
                                break
                if just is None:
                    # J4: value comes from an OUT site of this function
                    for s2, og in out_groups:
                        if s2 is not s and og & (grp or set()):
                            just = "J4 root-to-root move from %s.%s %s" % (s2.root[0], s2.root[1], s2.op)
                            j4_pairs.append((s2, s))
                            break
                if just is None and kind == "in+out" and s.op == "replace":
                    pass
                if just is None:
                    problems.append("inserted value has no paired retain / is not heap-free / is not moved from another root")
                else:
                    notes.append(just)
                    in_just[id(s)] = just
            # ---------------- OUT obligation
            if kind in ("out", "in+out"):
                og = None
                for s2, g in out_groups:
                    if s2 is s:
                        og = g
                og = og or set()
                just = None
                if kind == "in+out" and s.op == "insert":
                    # HashMap::insert old value: discarded?
                    used = len(flow.forward({out_local}, through_calls=ADAPT)) > 1 or any(
                        (op_place(a) or {}).get("l") == out_local for _b, t2 in body.calls() for a in t2["args"]) or any(
                        x["rv"]["k"] == "discr" and x["rv"]["p"]["l"] == out_local for _b, _i, x in body.stmts() if x["k"] == "assign")
                    if not used:
                        problems.append("the entry replaced by HashMap::insert is dropped without release (overwrite of a root slot)")
                        just = "x"
                # components that must be released
                comps = [None]
                out_ty = body.local_ty(out_local)
                if "process::SelectState" in out_ty:
                    comps = ["sources", "receiving"]
                if just is None:
                    missing = []
                    for comp in comps:
                        ev = []   # event blocks: releases in group (+ loops over the removed collection)
                        for rb, rt in releases:
                            rl = op_place(rt["args"][1])
                            if not rl:
                                continue
                            back = fln.backward({rl["l"]}, through_calls=ADAPT)
                            if not (vset(body, back) & og or out_local in back):
                                continue
                            if comp is not None:
                                fields, _d, _c, _cal = fln.slice_reads(rl["l"], through_calls=ADAPT)
                                if not any(f == comp and (o or "").endswith("SelectState") for o, f in fields):
                                    continue
                            ev.append(rb)
                        loops = []
                        for lb, lt in body.calls():
                            if call_matches(lt, ("IntoIterator::into_iter",)) and lt["args"]:
                                al = op_place(lt["args"][0])
                                if al:
                                    back = fln.backward({al["l"]}, through_calls=ADAPT)
                                    if out_local in back or vset(body, back) & og:
                                        if comp is None or any(f == comp for _o, f in fln.slice_reads(al["l"], through_calls=ADAPT)[0]):
                                            # a release must sit inside this loop
                                            if any(body.reaches(lb, rb) and body.reaches(rb, rb) for rb in ev):
                                                loops.append(lb)
                        if not ev:
                            missing.append(comp or "value")
                            continue
                        # exempt None edges of Option discriminant switches on the removed value
                        exempt = option_none_edges(body, flow.forward({out_local}, through_calls=ADAPT))
                        bad = None
                        for x in body.succ[s.bi]:
                            bad = bad or explore(body, [x], avoid=set(ev) | set(loops), stop=errb, exempt_edges=exempt, want="return")
                        if bad:
                            missing.append("%s (path %s)" % (comp or "value", path_desc(body, [s.bi] + bad)))
                    if not missing:
                        just = "J3 release of %s on every non-error path" % ("+".join(c or "the removed value" for c in comps))
                        released_out[id(s)] = True
                    else:
                        # J4 move into an IN site / into another root
                        moved = None
                        for s2, g in in_groups:
                            if s2 is not s and g & og:
                                moved = s2
                        if moved is not None and comps == [None]:
                            just = "J4 root-to-root move into %s.%s %s" % (moved.root[0], moved.root[1], moved.op)
                            out_moved.append((s, moved))
                        else:
                            problems.append("removed value not released: missing %s" % ", ".join(missing))
                if just and just != "x":
                    notes.append(just)
            if kind in ("in+overwrite", "in+overwrite-elem"):
                # the old content of the slot is dropped by the assignment
                ow = overwrite_justification(ctx, body, flow, fln, s) if kind == "in+overwrite" else None
                if ow:
                    notes.append(ow)
                else:
                    problems.append("assignment overwrites root %s.%s whose previous value is neither released nor provably empty" % (s.root[0], s.root[1]))
            if problems:
                if rev:
                    ctx.exception(R, sk, rev + " [auto: " + "; ".join(problems) + "]", loc)
                else:
                    ctx.violated(R, sk, "; ".join(problems), loc, {"notes": notes})
            else:
                ctx.ok(R, sk, "; ".join(notes), loc)
        # exclusivity: a value that MOVES into another root (J4: the receiving site has no retain of its own) must not also be released
        for s_out, s_in in j4_pairs:
            if released_out.get(id(s_out)):
                ctx.violated(R, getattr(s_out, "sk", "?") + "|released-and-moved",
                             "the value removed here is released AND moves into root %s.%s without a retain there: its count ends one short "
                             "(premature free when the receiving root is torn down)" % (s_in.root[0], s_in.root[1]), body.loc(s_out.bi))
        for s_out, s_in in out_moved:
            if (in_just.get(id(s_in)) or "").startswith("J2"):
                ctx.violated(R, getattr(s_out, "sk", "?") + "|moved-and-retained",
                             "the value removed here is NOT released but the root it moves into (%s.%s) retains it again: its count ends one too high (leak)"
                             % (s_in.root[0], s_in.root[1]), body.loc(s_out.bi))
    ctx.floor(R, "root mutation sites", n_root_writes, 40)
    # stale table entries
    seen = {o["site"] for o in ctx.obs if o["rule"] == R}
    for k in TABLE["reviewed"]:
        if k not in seen:
            ctx.note("reviewed-table entry no longer matches a site: %s" % k)


def overwrite_justification(ctx, body, flow, fln, s):
    """Why the previous content of the assigned root slot needs no release."""
    # (a) the object was freshly constructed in this function (Process::new / SelectState literal)
    root_local = flow.canon_place(s.stmt["p"])[0]
    srcs = fln.sources(root_local)
    for x in srcs:
        if x[0] == "call" and (x[2].get("callee") or "").endswith("process::Process::new"):
            return "overwrite: fresh Process::new() in this function (slot empty)"
    # (b) dominated by a take()/is_none()/None-write of the same slot in this function
    for bi, t in body.calls():
        c = t.get("callee") or ""
        if (c.endswith("Option::take") or c.endswith("Option::is_none")) and t["args"]:
            cp = flow.canon_op(t["args"][0])
            if cp and root_of(flow, cp, [(("quiver_core::process::" + s.root[0]) if s.root[0] != "Executor" else EXEC, s.root[1])]):
                # same object: the root local of the tested place and of the assigned place coincide
                if cp[0] != flow.canon_place(s.stmt["p"])[0]:
                    continue
                if not body.dominates(bi, s.bi):
                    continue
                if c.endswith("Option::take"):
                    return "overwrite: slot emptied by take() earlier on every path"
                r = t["dest"]["l"]
                if all(explore(body, [(x, {r: 0})], want="target", targets=[s.bi], avoid=[bi]) is None for x in body.succ[bi]):
                    return "overwrite: reachable only when %s.is_none()" % s.root[1]
    # (c) every caller reaches this function only when the slot is empty: the call is unreachable on the true outcome of an
    #     `is_some()` test of the same root field in the caller
    F = ctx.facts
    callers = F.callers_of(body.key)
    if callers:
        ok_all = True
        for ck, cb in callers:
            cbod = F.body(ck)
            cfl = Flow(cbod)
            guarded = False
            for bi, t in cbod.calls_to("Option::is_some"):
                cp = cfl.canon_op(t["args"][0])
                if cp and any(e[0] == "f" and e[1] == s.root[1] for e in cp[1]) and cbod.dominates(bi, cb):
                    r = t["dest"]["l"]
                    if all(explore(cbod, [(x, {r: 1})], want="target", targets=[cb], avoid=[bi]) is None for x in cbod.succ[bi]):
                        guarded = True
            ok_all = ok_all and guarded
        if ok_all:
            return "overwrite: every caller (%s) reaches this only when %s.is_some() is false" % (", ".join(sorted({c.split("::")[-1] for c, _ in callers})), s.root[1])
    return None


def choke_release_orphans(body, flow, fln):
    repl = [(bi, t) for bi, t in body.calls() if call_matches(t, ("mem::replace",))]
    if len(repl) != 1:
        return False
    bi, t = repl[0]
    if not heap_free_value(body, flow, op_place(t["args"][1])["l"]):
        return False
    grp = vset(body, flow.forward({t["dest"]["l"]}, through_calls=ADAPT)) | {l for l in flow.forward({t["dest"]["l"]}, through_calls=ADAPT)}
    for rb, rt in body.calls_to("Executor::release"):
        rl = op_place(rt["args"][1])
        if rl and fln.backward({rl["l"]}, through_calls=ADAPT) & grp and body.reaches(rb, rb):
            return True
    return False


def r2_heap_arrays(ctx):
    R = "R-C06-2"
    ctx.rule(R, "who-may-touch the heap arrays: Executor.{refcounts, freed, free, pending_free, heap, reclaimed} are written only in "
                "allocate_binary_data, retain, release, process_pending_free, materialize and new")
    F = ctx.facts
    allowed = {
        "heap": {"allocate_binary_data", "process_pending_free", "materialize", "new"},
        "refcounts": {"allocate_binary_data", "retain", "release", "new"},
        "freed": {"allocate_binary_data", "process_pending_free", "new"},
        "free": {"allocate_binary_data", "process_pending_free", "new"},
        "pending_free": {"release", "process_pending_free", "new"},
        "reclaimed": {"process_pending_free", "new"},
    }
    n = 0
    for body in F.bodies(crate="quiver_core"):
        flow = Flow(body)
        fname = body.key.split("::{closure")[0].split("::")[-1]
        writes = []
        for bi, t in body.calls():
            if not t["args"] or not t["args"][0].get("p"):
                continue
            if not body.local_ty(t["args"][0]["p"]["l"]).startswith("&mut"):
                continue
            cp = flow.canon_op(t["args"][0])
            if cp:
                for e in cp[1]:
                    if e[0] == "f" and e[1] in allowed and (e[2] or "") == EXEC:
                        writes.append((bi, None, e[1], (t.get("callee") or "?").split("::")[-1]))
        for bi, si, s in body.stmts():
            if s["k"] == "assign" and s["p"]["pr"]:
                cp = flow.canon_place(s["p"])
                for e in cp[1]:
                    if e[0] == "f" and e[1] in allowed and (e[2] or "") == EXEC:
                        writes.append((bi, si, e[1], "="))
        for bi, si, f, how in writes:
            n += 1
            site = "%s|%s" % (body.key.split("::{closure")[0], f)
            ok = fname in allowed[f] and body.key.startswith(EXEC)
            ctx.check(ok, R, site, "reviewed writer of %s (%s)" % (f, how),
                      "heap accounting array `%s` written (%s) outside its reviewed writers %s" % (f, how, sorted(allowed[f])), body.loc(bi, si))
    ctx.floor(R, "heap-array write sites", n, 14)
    per_slot_arrays_reset_on_reuse(ctx, R)
    # fields are private
    adt = F.adt(EXEC)
    for f in adt["variants"][0]["fields"]:
        if f["name"] in allowed:
            ctx.check(not f["vis"].startswith("Public"), R, "vis(%s)" % f["name"], "field is private to the executor module", "field %s became public" % f["name"])
    for name in ("retain", "release", "process_pending_free"):
        fn = F.fn(EXEC + "::" + name)
        ctx.check(not fn.get("vis", "").startswith("Public"), R, "vis(%s)" % name, "%s is not public" % name, "%s became public (%s)" % (name, fn.get("vis")))
        callers = {k.split("::{closure")[0] for k, _ in F.callers_of(EXEC + "::" + name)}
        bad = [c for c in callers if not c.startswith("quiver_core::executor::")]
        ctx.check(not bad, R, "callers(%s)" % name, "%s is called only inside executor.rs (%d callers)" % (name, len(callers)), "%s called from %s" % (name, bad))


def per_slot_arrays_reset_on_reuse(ctx, R):
    """every array that grows by one entry when a FRESH heap slot is created is per-slot state; each of them must also be (re)written at the slot's
    index when a RECLAIMED slot is reused — otherwise the new occupant inherits the previous occupant's entry (a stale count, a stale `freed` flag, a
    memoised hash of different bytes)"""
    F = ctx.facts
    b = F.body(EXEC + "::allocate_binary_data")
    flow = Flow(b)
    grown, rewritten = {}, {}
    for bi, t in b.calls():
        c = (t.get("callee") or "").split("::")[-1]
        if not t["args"] or not op_place(t["args"][0]):
            continue
        cp = flow.canon_op(t["args"][0])
        fs = [e for e in (cp[1] if cp else ()) if e[0] == "f" and (e[2] or "") == EXEC]
        if not fs:
            continue
        if c == "push" and "Vec" in (t.get("callee") or ""):
            grown[fs[-1][1]] = bi
        if c == "index_mut":
            rewritten[fs[-1][1]] = bi
    pops = [bi for bi, t in b.calls() if (t.get("callee") or "").endswith("Vec::pop") and t["args"] and flow.canon_op(t["args"][0]) and
            any(e[0] == "f" and e[1] == "free" for e in flow.canon_op(t["args"][0])[1])]
    if not pops or not grown:
        raise CheckError("%s: allocate_binary_data no longer has the reuse (free.pop) / grow (push) shape — cannot decide" % R)
    missing = sorted(set(grown) - set(rewritten))
    ctx.check(not missing, R, b.key + "|per-slot-arrays-reset-on-reuse", "every per-slot array (%s) is rewritten at the index of a reused slot" % ", ".join(sorted(grown)),
              "per-slot array(s) %s grow with every fresh slot but are not reset when a reclaimed slot is reused: the new occupant inherits the previous "
              "occupant's entry" % missing, b.loc(grown[missing[0]]) if missing else b.loc(0))


def r3_reclaim_at_step_boundary(ctx):
    R = "R-C06-3"
    ctx.rule(R, "reclamation only at the step boundary: process_pending_free has exactly one call site, in the entry block of Executor::step; "
                "free.push happens only inside it, guarded by refcounts[i] == 0 && !freed[i]")
    F = ctx.facts
    callers = F.callers_of(EXEC + "::process_pending_free")
    step = F.body(EXEC + "::step")
    ok = len(callers) == 1 and callers[0][0] == step.key
    ctx.check(ok, R, "callers(process_pending_free)", "one call site, in Executor::step",
              "process_pending_free is called from %s: slots may be reclaimed while an in-flight Action or a Rust local still refers to them"
              % [(k, b) for k, b in callers], step.loc(callers[0][1]) if callers else None)
    if callers and callers[0][0] == step.key:
        cb = callers[0][1]
        # it is the first call of step: dominates every other call
        first = all(step.dominates(cb, bi) for bi, _t in step.calls())
        ctx.check(first, R, step.key + "|first", "process_pending_free dominates every other call of step (quiescent point)",
                  "process_pending_free is no longer the first thing step does", step.loc(cb))
    ppf = F.body(EXEC + "::process_pending_free")
    flow = Flow(ppf)
    pushes = [(bi, t) for bi, t in ppf.calls_to("Vec::push") if flow.mentions_field(flow.canon_op(t["args"][0]) or (0, ()), "executor::Executor", "free")]
    ctx.floor(R, "free.push in process_pending_free", len(pushes), 1)
    for bi, t in pushes:
        # guarded: a comparison refcounts[..] == 0 and !freed[..] dominate
        eqs = [(b2, si, s) for b2, si, s in ppf.stmts() if s["k"] == "assign" and s["rv"]["k"] == "bin" and s["rv"]["op"] == "Eq" and s["rv"]["r"].get("val") == 0]
        ok = False
        fln = Flow(ppf, through_named=True)
        for b2, si, s in eqs:
            fields = fln.slice_reads(s["p"]["l"], through_calls=("Index::index",))[0]
            if any(f == "refcounts" for _o, f in fields):
                # the push must be unreachable when the comparison is false
                w = explore(ppf, [b2], want="target", targets=[bi], force={(b2, si): 0})
                if w is None:
                    ok = True
        ctx.check(ok, R, ppf.key + "|guard", "free.push is unreachable unless refcounts[index] == 0",
                  "a slot can be pushed to the free list while its count is non-zero (premature free)", ppf.loc(bi))
        # the freed flag is read on every path to the push (path-sensitive: the test may sit behind `&&` in a helper returning bool)
        freed_reads = [b2 for b2, t2 in ppf.calls_to("Index::index") if flow.canon_op(t2["args"][0]) and
                       flow.mentions_field(flow.canon_op(t2["args"][0]), "executor::Executor", "freed")]
        freed_guard = bool(freed_reads) and explore(ppf, [0], avoid=freed_reads, want="target", targets=[bi]) is None
        ctx.check(freed_guard, R, ppf.key + "|freed-guard", "the freed flag is consulted before the slot is freed (no double free)",
                  "freed[index] is no longer consulted before free.push", ppf.loc(bi))
    # free.pop only in allocate_binary_data
    for body in F.bodies(crate="quiver_core"):
        fl = Flow(body)
        for bi, t in body.calls_to("Vec::pop"):
            cp = fl.canon_op(t["args"][0])
            if cp and fl.ends_with_field(cp, "executor::Executor", "free"):
                ctx.check(body.key == EXEC + "::allocate_binary_data", R, body.key + "|free.pop", "slot reuse only in allocate_binary_data",
                          "free list popped outside allocate_binary_data", body.loc(bi))


def r4_oracle_covers_roots(ctx):
    R = "R-C06-4"
    ctx.rule(R, "the tracing oracle covers every root: reachable_heap_indices and process_heap_usage read every Value-bearing field of "
                "Process/SelectState (derived from the ADTs) and the constant-binary cache")
    F = ctx.facts
    roots = derive_roots(F)
    for key, extra in ((EXEC + "::reachable_heap_indices", True), (EXEC + "::process_heap_usage", False)):
        keys = F.with_closures(key)
        read = set()
        for k in keys:
            b = F.body(k)
            for bi, si, s in b.stmts():
                if s["k"] == "assign":
                    rv = s["rv"]
                    pl = rv.get("p") or (rv.get("op") or {}).get("p")
                    if pl:
                        for e in pl["pr"]:
                            if e[0] == "f":
                                read.add((e[2], e[1]))
        for ro, rf in roots:
            if ro == EXEC and not extra:
                continue
            ctx.check((ro, rf) in read, R, "%s|reads %s.%s" % (key, ro.split("::")[-1], rf), "oracle walks this root",
                      "the tracing oracle does not walk root %s.%s: leaks through it are invisible to check_refcounts" % (ro.split("::")[-1], rf))
    cr = F.body(EXEC + "::check_refcounts")
    ok = bool(cr.calls_to("Executor::reachable_heap_indices"))
    ctx.check(ok, R, cr.key, "check_refcounts compares counts with reachable_heap_indices", "check_refcounts no longer uses the tracing oracle")


def r5_walkers(ctx):
    R = "R-C06-5"
    ctx.rule(R, "value-walker sibling agreement: retain, release, collect_heap_indices, remap_heap_indices, extract_binary_data, "
                "transfer_resource_ownership and the value->instruction converters recurse into both Tuple and Function payloads; the heap "
                "walkers treat Binary::Heap as the leaf")
    F = ctx.facts
    walkers = [
        (EXEC + "::retain", True), (EXEC + "::release", True), ("quiver_core::executor::collect_heap_indices", True),
        ("quiver_core::executor::remap_heap_indices", True),
        ("quiver_environment::environment::Environment::transfer_resource_ownership", False),
        ("quiver_core::program::Program::value_to_instructions", False),
        ("quiver_compiler::compiler::Compiler::value_to_instructions_from_cache", False),
    ]
    extra = [k for k in F.fns if k.endswith("modules::extract_binary_data") or k.endswith("::extract_binary_data")]
    for k in extra:
        walkers.append((k, False))
    for key0, heap_leaf in walkers:
        key = key0
        fn = F.fn(key)
        ms = [m for m in hir.matches(hir.body_of(fn)) if "value::Value" in (m.get("sty") or "")]
        if not ms:
            # the traversal may live in a shared (new) higher-order helper the walker hands a visitor to: `for_each_heap_slot(value, &mut |i| ..)`
            for g in F.transparent_callees(key0):
                if "::{closure" in g:
                    continue
                gms = [m for m in hir.matches(hir.body_of(F.fn(g))) if "value::Value" in (m.get("sty") or "")]
                if gms:
                    key, fn, ms = g, F.fn(g), gms
                    break
        if not ms:
            raise CheckError("R-C06-5: no match over Value in %s" % key0)
        m = ms[0]
        short = key.split("::")[-1]
        tcallees = {g for g in F.transparent_callees(key0) if "::{closure" not in g}
        for v in ("Tuple", "Function"):
            arms = hir.arms_for_variant(m, VALUE, v)
            site = "%s|%s" % (key0, v)
            if not arms or hir.is_catch_all(arms[0][1]["pat"]):
                ctx.violated(R, site, "%s has no explicit arm for Value::%s: heap references inside %s payloads are skipped" % (short, v, v))
                continue
            arm = arms[0][1]
            keys = hir.call_keys(arm["body"])
            rec = any(k2 == key or k2.endswith("::" + short) for k2 in keys)
            # a shared (new, spliced) traversal helper recursing into itself is the walker's recursion
            rec = rec or any(k2 in tcallees for k2 in keys)
            # recursion may go through a helper applied to the payload (e.g. inject_function_captures for Function)
            helper = any(k2.endswith("inject_function_captures") or k2.endswith("value_to_instructions_from_cache") or k2.endswith("value_to_instructions") for k2 in keys)
            binds = [nm for nm, path in hir.pat_bindings(arm["pat"]) if path and path[-1] == (v, 1)]
            uses = set(hir.local_names(arm["body"]))
            ok = (rec or helper) and any(b in uses for b in binds)
            ctx.check(ok, R, site, "recurses into the %s payload" % v,
                      "%s does not recurse into Value::%s payloads (binding used=%s, recursive call=%s)" % (short, v, any(b in uses for b in binds), rec or helper),
                      "%s:%d" % (fn["file"], arm["ln"]))
        if heap_leaf:
            leaf = False
            for a in m["arms"]:
                for x in hir.walk({"e": "x", "pat": None}) if False else []:
                    pass
                pj = json.dumps(a["pat"])
                if '"variant": "Heap"' in pj and '"variant": "Binary"' in pj:
                    leaf = True
            ctx.check(leaf, R, key0 + "|Binary::Heap", "Binary::Heap(idx) is the leaf case", "%s no longer handles Value::Binary(Binary::Heap(_))" % short)
    # retain / release are exact mirrors: += 1 vs -= 1 on refcounts[idx]; release queues pending_free at zero. The counting may sit in release()
    # itself or in the visitor closure / per-slot helper it hands to a shared traversal: all of these bodies are examined
    rel0 = F.body(EXEC + "::release")
    rel_bodies = [F.body(k) for k in F.with_closures(EXEC + "::release")]
    ret_bodies = [F.body(k) for k in F.with_closures(EXEC + "::retain")]
    any_pf = False
    ok = False
    n_tests = 0
    for rel in rel_bodies:
        fl = Flow(rel)
        pf = [bi for bi, t in rel.calls_to("Vec::push") if fl.mentions_field(fl.canon_op(t["args"][0]) or (0, ()), "executor::Executor", "pending_free")]
        if not pf:
            continue
        any_pf = True
        # ... unconditionally: from the `count == 0` outcome every path to the function's exit passes pending_free.push
        fln = Flow(rel, through_named=True)
        zero_tests = []
        for bi, si, s in rel.stmts():
            if s["k"] == "assign" and s["rv"]["k"] == "bin" and s["rv"]["op"] in ("Eq", "Ne") and (s["rv"]["r"].get("val") == 0 or s["rv"]["l"].get("val") == 0):
                pl = op_place(s["rv"]["l"]) or op_place(s["rv"]["r"])
                if pl and any(f == "refcounts" for _o, f in fln.slice_reads(pl["l"], through_calls=("Index::index", "IndexMut::index_mut"))[0]):
                    # the test that follows the decrement (dominated by the saturating_sub call)
                    if any(rel.dominates(b2, bi) for b2, _t in rel.calls_to("saturating_sub")):
                        zero_tests.append((bi, si, s["rv"]["op"]))
        if zero_tests:
            n_tests += len(zero_tests)
            ok = True
            for bi, si, op in zero_tests:
                bad = explore(rel, [bi], avoid=pf, want="return", force={(bi, si): (1 if op == "Eq" else 0)})
                if bad:
                    ok = False
    ctx.check(any_pf, R, rel0.key + "|pending_free", "release queues a slot whose count reached zero", "release no longer queues zero-count slots for reclamation")
    ctx.check(ok and n_tests > 0, R, rel0.key + "|queue-when-zero", "whenever the decrement brings a count to zero the slot is queued (no extra condition)",
              "a count can reach zero without the slot being queued for reclamation: the slot is never reclaimed (heap grows although nothing is reachable)", rel0.loc(0))
    adds = [s for ret in ret_bodies for _b, _i, s in ret.stmts() if s["k"] == "assign" and s["rv"]["k"] == "bin" and s["rv"]["op"].startswith("Add") and s["rv"]["r"].get("val") == 1]
    ctx.check(len(adds) == 1, R, EXEC + "::retain|+1", "retain adds exactly 1 per occurrence", "retain increments changed (%d add sites)" % len(adds))
    subs = [t for rel in rel_bodies for _b, t in rel.calls_to("saturating_sub")] + \
           [s for rel in rel_bodies for _b, _i, s in rel.stmts() if s["k"] == "assign" and s["rv"]["k"] == "bin" and s["rv"]["op"].startswith("Sub")]
    ctx.check(len(subs) == 1, R, EXEC + "::release|-1", "release subtracts exactly once per occurrence", "release decrements changed (%d sites)" % len(subs))


OPTIONAL_FNS = ("Executor::extract_heap_data_many", "Executor::inject_heap_data_many")


def r6_copy_on_transfer(ctx):
    R = "R-C06-6"
    ctx.rule(R, "transfer by copy at worker boundaries: every Value leaving a worker in an Event passes extract_heap_data; every executor entry "
                "that stores a foreign value passes inject_heap_data before its insert")
    F = ctx.facts
    distinct_blobs(ctx, R)
    W = "quiver_environment::worker::Worker"
    ha = F.body(W + "::handle_action")
    fl = Flow(ha, through_named=True)
    EXTRACT = ("Executor::extract_heap_data", "Executor::extract_heap_data_many")
    THRU = ADAPT + ("Result::map_err", "Vec::pop", "Option::ok_or_else", "Option::ok_or", "Try::branch", "Iterator::collect", "IntoIterator::into_iter",
                    "Iterator::next", "Option::unwrap", "Option::expect")

    def extraction_calls(local):
        out = set()
        back = fl.backward({local}, through_calls=tuple(a for a in THRU if a not in ("Executor::inject_heap_data",)))
        for b2, t2 in ha.calls():
            if t2["dest"]["l"] in back and any((t2.get("callee") or "").endswith(e) for e in EXTRACT):
                out.add(b2)
        return out
    for variant, fields in (("SpawnAction", ("captures", "argument", "heap")), ("DeliverAction", ("message", "heap"))):
        for bi, si, s in agg_sites(ha, "messages::Event", variant):
            per_field = {}
            for fname, op in zip(s["rv"]["fields"], s["rv"]["ops"]):
                if fname not in fields:
                    continue
                p = op_place(op)
                calls_ = extraction_calls(p["l"]) if p else set()
                if fname == "captures" and p:
                    # older shape: a vector filled by push(extracted) in a loop
                    for b2, t2 in ha.calls_to("Vec::push"):
                        if fl.canon_op(t2["args"][0]) and fl.canon_op(op) and fl.canon_op(t2["args"][0])[0] == fl.canon_op(op)[0] and op_place(t2["args"][1]):
                            calls_ |= extraction_calls(op_place(t2["args"][1])["l"])
                if fname == "heap" and p:
                    for b2, t2 in ha.calls():
                        if (t2.get("callee") or "").split("::")[-1] in ("append", "extend", "push", "extend_from_slice") and fl.canon_op(t2["args"][0]) and \
                                fl.canon_op(op) and fl.canon_op(t2["args"][0])[0] == fl.canon_op(op)[0] and len(t2["args"]) > 1 and op_place(t2["args"][1]):
                            calls_ |= extraction_calls(op_place(t2["args"][1])["l"])
                per_field[fname] = calls_
                if fname != "heap":
                    ctx.check(bool(calls_), R, "%s|%s.%s" % (ha.key, variant, fname), "value is the result of extract_heap_data (heap bytes travel by copy)",
                              "Event::%s.%s carries a value that did not pass extract_heap_data (a Heap index would cross the worker boundary)" % (variant, fname),
                              ha.loc(bi, si))
            # ONE index space: the heap vector and every value sent with it come from a single extraction (each extraction numbers its binaries
            # from 0; concatenating the vectors of several extractions makes the values' indices collide)
            allc = set().union(*per_field.values()) if per_field else set()
            in_loop = [c for c in allc if ha.reaches(ha.succ[c][0], c)] if allc else []
            one = len(allc) == 1 and not in_loop and all(v == allc for v in per_field.values())
            ctx.check(one, R, "%s|%s|one-index-space" % (ha.key, variant), "the heap vector and the value(s) sent with it come from one extraction call",
                      "Event::%s sends values numbered by %d separate extract_heap_data calls%s next to ONE concatenated heap vector: every extraction numbers "
                      "its binaries from 0, so the receiver resolves them all against the first blobs (a spawn with two binary captures sees the first "
                      "one twice)" % (variant, len(allc), " (one of them in a loop)" if in_loop else ""), ha.loc(bi, si))
    # results leaving the worker
    for fname in ("query_and_await", "get_result", "extract_completed_result", "get_locals"):
        b = F.body(W + "::" + fname)
        ok = bool(b.calls_to("Executor::extract_heap_data")) or any("extract_heap_data" in k for k in F.reach([b.key]))
        ctx.check(ok, R, b.key + "|extract", "results leave the worker through extract_heap_data", "%s no longer extracts heap data from outgoing values" % fname)
    # entries storing foreign values
    for fname, sinks in (("notify_message", ("VecDeque::push_back",)), ("notify_result", ("HashMap::insert",)), ("notify_effect_completion", ("Vec::push",)),
                         ("spawn_process", ("Vec::push",))):
        b = F.body(EXEC + "::" + fname)
        flb = Flow(b, through_named=True)
        inj = [bi for bi, _t in b.calls_to("Executor::inject_heap_data")]
        roots = derive_roots(F)
        n = 0
        for bi, t in b.calls():
            if not any((t.get("callee") or "").endswith(sk) for sk in sinks) or not t["args"]:
                continue
            cp = Flow(b).canon_op(t["args"][0])
            if not root_of(None, cp, roots):
                continue
            vp = op_place(t["args"][-1])
            if vp is None or not value_typed(b, vp["l"]) and "Option" not in b.local_ty(vp["l"]):
                continue
            srcs = flb.sources(vp["l"], through_calls=tuple(a for a in ADAPT if a != "Executor::inject_heap_data") + (
                "Option::Some", "Vec::pop", "Option::ok_or", "Option::ok_or_else", "Try::branch", "IntoIterator::into_iter", "Iterator::next", "Option::unwrap"))
            vsrc = []
            for x in srcs:
                if x[0] == "call" and ("value::Value" in b.local_ty(x[2]["dest"]["l"])):
                    if (x[2].get("callee") or "").endswith("FromResidual::from_residual"):
                        continue      # the error half of a `?` (of an inlined helper): carries no Value
                    vsrc.append((x[2].get("callee") or "").split("::")[-1])
                elif x[0] == "arg" and "value::Value" in b.local_ty(x[1]):
                    vsrc.append("param:%s" % b.local_name(x[1]))
            via = bool(vsrc) and all(v in ("inject_heap_data", "inject_heap_data_many") for v in vsrc)
            n += 1
            ctx.check(via, R, "%s|%s" % (b.key, t["callee"].split("::")[-1]), "stored value is the result of inject_heap_data",
                      "%s stores a foreign value that did not pass inject_heap_data (sources: %s): its Heap indices belong to another worker" % (fname, vsrc), b.loc(bi))
        ctx.floor(R, "foreign-value stores in " + fname, n, 1)
        if fname == "spawn_process":
            injs = [bi for bi, t in b.calls() if (t.get("callee") or "").split("::")[-1] in ("inject_heap_data", "inject_heap_data_many")]
            once = len(injs) == 1 and not b.reaches(b.succ[injs[0]][0], injs[0])
            ctx.check(once, R, b.key + "|one-injection", "the heap vector that travelled with the captures and the argument is injected once",
                      "spawn_process injects the accompanying heap vector %d time(s)%s: every injection allocates ALL its blobs again (unreferenced copies "
                      "are never retained, hence never reclaimed) and values numbered in one space are remapped through different tables" % (
                          len(injs), " in a loop" if injs and any(b.reaches(b.succ[i][0], i) for i in injs) else ""), b.loc(injs[0]) if injs else b.loc(0))


def distinct_blobs(ctx, R):
    """every heap blob travels ONCE per message: the indices whose blobs are copied into the accompanying heap vector are distinct (gathered in a set,
    or de-duplicated) — the receiver allocates one slot per blob it is handed and retains only the slots the remapped values point at, so a blob
    shipped twice leaves an unreferenced slot at count 0 that no release ever queues for reclamation (one dead slot per message: unbounded heap)"""
    F = ctx.facts
    n = 0
    TCX = ("Iterator::next", "slice::iter", "Deref::deref", "IntoIterator::into_iter", "Iterator::collect", "Iterator::copied", "Iterator::cloned", "Vec::iter",
           "Iterator::enumerate", "HashSet::into_iter", "HashSet::iter", "BTreeSet::into_iter", "BTreeSet::iter", "FromIterator::from_iter", "Iterator::map", "Clone::clone")
    def set_or_dedup(bd, fl_, fl0_, local):
        back = fl_.backward({local}, through_calls=TCX)
        is_set = any(any(x in (bd.local_ty(l) or "") for x in ("HashSet<", "BTreeSet<", "hash::set::", "btree::set::")) for l in back)
        dedup = any((t2.get("callee") or "").split("::")[-1] in ("dedup", "dedup_by", "dedup_by_key") and t2["args"] and
                    ((fl0_.canon_op(t2["args"][0]) or fl_.canon_op(t2["args"][0]) or (None,))[0] in back) for _b2, t2 in bd.calls())
        return is_set or dedup, back
    for key0 in (EXEC + "::extract_heap_data_many", EXEC + "::extract_heap_data"):
        if key0 not in F.fns or not F.fns[key0].get("mir"):
            continue
        for key in F.with_closures(key0):
            b = F.body(key)
            fl = Flow(b, through_named=True)
            fl0 = Flow(b)
            for bi, t in b.calls():
                c = t.get("callee") or ""
                if c.split("::")[-1] != "get" or len(t["args"]) < 2:
                    continue
                rc = fl0.canon_op(t["args"][0]) or fl.canon_op(t["args"][0])
                heap_recv = bool(rc) and fl0.mentions_field(rc, "executor::Executor", "heap")
                if not heap_recv and "::{closure" in key and rc:
                    # `self.heap` reached through the captured `&self`
                    heap_recv = any(e[0] == "f" and e[1] == "heap" for e in rc[1])
                if not heap_recv:
                    continue
                ip = op_place(t["args"][1])
                if not ip:
                    continue
                n += 1
                ok, back = set_or_dedup(b, fl, fl0, ip["l"])
                if not ok and "::{closure" in key and any(2 <= x <= b.mir["argc"] for x in back):
                    # the index is the closure's parameter: an element of the iterator the closure is mapped over
                    use = F.closure_use(key)
                    if use and use[3] > 0 and op_place(use[2]["args"][0]):
                        pb = use[0]
                        ok, _ = set_or_dedup(pb, Flow(pb, through_named=True), Flow(pb), op_place(use[2]["args"][0])["l"])
                ctx.check(ok, R, key0 + "|distinct-blobs", "the indices whose blobs are shipped come from a set (or are de-duplicated)",
                          "the heap indices whose blobs are copied out are gathered without de-duplication: a value that references one binary twice ships the blob "
                          "twice, and the receiver's surplus slot (count 0, unreferenced) is never reclaimed", b.loc(bi))
    ctx.floor(R, "heap lookups in the extraction functions", n, 1)


def r7_process_returns_to_table(ctx):
    R = "R-C06-7"
    ctx.rule(R, "the running process always returns to the table: every processes.remove(&pid) that takes the running Process out "
                "(step, call_receive_function) is followed by processes.insert(pid, proc) on every path to function exit")
    F = ctx.facts
    n = 0
    for key in (EXEC + "::step", EXEC + "::call_receive_function"):
        b = F.body(key)
        fl = Flow(b)
        rem = [(bi, t) for bi, t in b.calls() if (t.get("callee") or "").endswith("HashMap::remove") and t["args"] and fl.ends_with_field(fl.canon_op(t["args"][0]) or (0, ()), "executor::Executor", "processes")]
        ins = [bi for bi, t in b.calls() if (t.get("callee") or "").endswith("HashMap::insert") and t["args"] and fl.ends_with_field(fl.canon_op(t["args"][0]) or (0, ()), "executor::Executor", "processes")]
        for i, (bi, t) in enumerate(rem):
            n += 1
            # the process being absent (None / `?` directly on the lookup) is exempt; later error returns are NOT
            exempt = lookup_fail_edges(b, fl, t["dest"]["l"])
            bad = None
            for x in b.succ[bi]:
                bad = bad or explore(b, [x], avoid=ins, exempt_edges=exempt, stop=diverging_blocks(b), want="return")
            ctx.check(bad is None and bool(ins), R, "%s|processes.remove#%d" % (key, i), "processes.insert(pid, proc) on every path after taking the process out",
                      "a path returns with the running process removed from the table (its roots vanish from the oracle and the scheduler): %s" % path_desc(b, bad),
                      b.loc(bi))
    ctx.floor(R, "running-process removals", n, 3)


ORPHAN_RETAIN_REVIEWED = {
    "quiver_core::executor::Executor::retain": "the recursion over a tuple's elements: counting IS the purpose",
    "quiver_core::executor::Executor::call_receive_function": "the retained message enters select_state.receiving; the `None` edge of `if let Some(state) = &mut "
                                                              "proc.select_state` is infeasible (a receive function is only called from the source walk of an "
                                                              "initialised select)",
}


def r8_no_orphan_retain(ctx):
    R = "R-C06-8"
    ctx.rule(R, "the dual of the audit: a reference counted by Executor::retain(v) is OWNED by something — on every non-error path from the retain to the "
                "function's exit, v (its value group) is stored into a GC root, handed back to the caller, or released again. A retain followed by an early "
                "return (e.g. `if process.result.is_some() { return Ok(()) }` after the completion value was injected and retained) leaves a slot with a "
                "count no root accounts for: never reclaimed")
    F = ctx.facts
    roots = derive_roots(F)
    per = {}
    for s in enumerate_sites(F, roots):
        per.setdefault(s.body.key, []).append(s)
    n = 0
    for body in F.bodies():
        if body.fn["crate"] not in RUNTIME_CRATES:
            continue
        rets = [(bi, t) for bi, t in body.calls_to("Executor::retain")]
        if not rets:
            continue
        fln = Flow(body, through_named=True)
        errb = err_blocks(body) | diverging_blocks(body)
        base = body.key.split("::{closure")[0]
        for i, (bi, t) in enumerate(rets):
            a = op_place(t["args"][1]) if len(t["args"]) > 1 else None
            if not a:
                continue
            n += 1
            site = "%s|retain#%d" % (base, i)
            back = fln.backward({a["l"]}, through_calls=ADAPT)
            grp = vset(body, back | fln.forward(back, through_calls=ADAPT))

            def in_group(o):
                pl = op_place(o or {})
                return bool(pl) and (pl["l"] in grp or bool(vset(body, fln.backward({pl["l"]}, through_calls=ADAPT)) & grp))
            sinks = []
            for s in per.get(body.key, []):
                if s.kind == "call":
                    if (s.op in MUTATORS_IN or s.op in ("insert", "replace", "resize")) and any(in_group(x) for x in s.term["args"][1:]):
                        sinks.append(s.bi)
                else:
                    rv = s.stmt["rv"]
                    if any(in_group(x) for x in ([rv.get("op")] if rv["k"] == "use" else rv.get("ops", []))):
                        sinks.append(s.bi)
            for b2, t2 in body.calls():
                c = t2.get("callee") or ""
                if c.endswith(("Executor::release", "Executor::push_value")) and any(in_group(x) for x in t2["args"][1:]):
                    sinks.append(b2)
            if vset(body, fln.backward({0}, through_calls=ADAPT)) & grp:
                ctx.ok(R, site, "the retained value is handed back to the caller", body.loc(bi))
                continue
            bad = explore(body, list(body.succ[bi]), avoid=sinks, stop=errb, want="return")
            if bad is None:
                ctx.ok(R, site, "on every non-error path the retained value is stored into a root (or released)", body.loc(bi))
            elif base in ORPHAN_RETAIN_REVIEWED:
                ctx.exception(R, site, "reviewed: " + ORPHAN_RETAIN_REVIEWED[base], body.loc(bi))
            else:
                ctx.violated(R, site, "a value is retained and then a normal return is reachable without storing it into a root, returning it or releasing it: the "
                                      "count it holds is owned by nothing — the slot is never reclaimed (%s)" % path_desc(body, bad), body.loc(bi))
    ctx.floor(R, "Executor::retain call sites", n, 8)


def run(ctx):
    ctx.run_rules([audit, r2_heap_arrays, r3_reclaim_at_step_boundary, r4_oracle_covers_roots, r5_walkers, r6_copy_on_transfer, r7_process_returns_to_table,
                   r8_no_orphan_retain])
    ctx.note("error (Err-returning) paths are exempt from release obligations: they correspond to VM-level failures (stack underflow, missing process) that C01/C07 rule out")
    return (
        "Decides the accounting DISCIPLINE, not byte contents: every mutation of a GC root in the workspace is paired with retain/release "
        "(value-group flow + path exploration), is a root-to-root move, inserts a heap-free value, or is one reviewed exception; the heap "
        "arrays have a closed writer set; reclamation happens only at the step boundary under count==0 && !freed; the tracing oracle walks "
        "every derived root; all Value walkers recurse into tuples and closures; values cross worker boundaries only by copy; the running "
        "process always returns to the table.",
        "obligations are MIR root-mutation sites (derived from the Process/SelectState ADTs), heap-array write sites, walker arms and transfer "
        "sites; discharged automatically by value-flow closure + CFG exploration, else by one-line reviewed exceptions in rules/tables/c06.json",
    )
