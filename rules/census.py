"""Shared panic-site census (C15 runtime paths, C18 front end): every panic-capable construct in a reach set is discharged automatically
(interval analysis / guarded index) or must be within the reviewed per-(function, kind) ceiling of its table."""
import json
import os
from collections import defaultdict

from qvlib.extract import VERIF
from rules import c12

WHY = {
    "index": "reviewed: index/key established by a preceding length/arity/contains test, by construction of the table it indexes (ids issued by register_*, frames created after get_function succeeded), or by the bytecode being well-formed (C07)",
    "panic": "reviewed: unwrap/expect/unreachable on a state established just before (presence test, matches!, exhaustive dispatch tables checked by R-C07-3) or documented host misuse (no entry point, no workers)",
    "overflow": "reviewed: subtraction/addition guarded by a preceding comparison on the same operands, or a monotone counter (assumption: event counters do not overflow)",
    "bounds": "reviewed: array index bounded by construction (ids issued for the table being indexed)",
    "remzero": "reviewed: divisor is the number of workers / a non-zero length established by the host at start-up",
    "divzero": "reviewed: see remzero",
    "bigdiv": "reviewed: BigInt divisor tested for zero before the division",
}


def is_counter_increment(kind, detail):
    return False


def run_census(ctx, R, reach, table_file, skip_kinds=("cast", "alloc", "loop"), skip_overflow_add=True):
    F = ctx.facts
    path = os.path.join(VERIF, "rules", "tables", table_file)
    table = json.load(open(path)) if os.path.exists(path) else {"residual": {}}
    residual = defaultdict(list)
    total = discharged = 0
    for key in sorted(reach):
        for kind, loc, why, detail in c12.collect_sinks(F, key):
            if kind.split(":")[0] in skip_kinds:
                continue
            if skip_overflow_add and kind in ("overflow:Add", "overflow:Mul", "overflow:Shl", "overflow:Shr", "overflow:Neg"):
                continue   # out of scope here: counters and sizes (assumption); subtraction underflow IS in scope
            total += 1
            if why:
                discharged += 1
                ctx.ok(R, "%s|%s@auto" % (key, kind), why, loc)
            else:
                residual[(key, kind)].append((loc, detail))
    ctx.extra.setdefault("census", {})[R] = {"functions": len(reach), "sinks": total, "discharged_automatically": discharged}
    if os.environ.get("QV_CENSUS_GEN") == "1":
        tbl = {"residual": {}}
        for (key, kind), items in sorted(residual.items()):
            tk = "%s|%s" % (key, kind)
            old = table["residual"].get(tk, {})
            tbl["residual"][tk] = {"ceiling": len(items), "why": old.get("why") or WHY.get(kind.split(":")[0], "reviewed"), "at": [i[0].split(":")[-1] for i in items]}
        json.dump(tbl, open(path, "w"), indent=1)
        ctx.note("%s: residual table %s regenerated with %d entries" % (R, table_file, len(tbl["residual"])))
        return
    for (key, kind), items in sorted(residual.items()):
        tk = "%s|%s" % (key, kind)
        ent = table["residual"].get(tk)
        if ent is None:
            for loc, detail in items:
                ctx.violated(R, tk, "unreviewed %s site on this path: a panic here kills the worker / front end instead of yielding an error value" % kind, loc)
        elif len(items) > ent["ceiling"]:
            ctx.violated(R, tk, "%d %s site(s), reviewed ceiling is %d: a new panic-capable construct was added (%s)" % (len(items), kind, ent["ceiling"], ent["why"][:90]),
                         items[-1][0], {"sites": [i[0] for i in items]})
        else:
            ctx.exception(R, tk, "%d/%d residual: %s" % (len(items), ent["ceiling"], ent["why"]), items[0][0])
