"""Shared panic-site census (C15 runtime paths, C18 front end): every panic-capable construct in a reach set is discharged automatically
(interval analysis / guarded index) or must be within the reviewed per-(function, kind) ceiling of its table."""
import json
import os
from collections import defaultdict

from qvlib.extract import VERIF
from rules import c12

WHY = {
    "index": "reviewed: index/key established by a preceding length/arity/contains test, by construction of the table it indexes (ids issued by register_*, frames created after get_function succeeded), or by the bytecode being well-formed (C07)",
    "panic": "reviewed: unwrap/expect/unreachable on a state established just before (presence test, matches!, exhaustive dispatch tables checked by R-C07-3) or documented host misuse (no entry point, no workers)",
    "overflow": "reviewed: subtraction/addition guarded by a preceding comparison on the same operands, or a monotone counter (assumption: event counters do not overflow)",
    "bounds": "reviewed: array index bounded by construction (ids issued for the table being indexed)",
    "remzero": "reviewed: divisor is the number of workers / a non-zero length established by the host at start-up",
    "divzero": "reviewed: see remzero",
    "bigdiv": "reviewed: BigInt divisor tested for zero before the division",
}


def is_counter_increment(kind, detail):
    return False


def gather(ctx, R, F, reach, collect, skip=lambda kind: False):
    """collect the sinks of every function of `reach` on its body WITH new (transparent) helpers inlined — each sink is judged in the context of its
    caller, as before the helper was extracted. A sink that sits in an inlined helper is counted ONCE per original location (not once per call
    site), and is discharged only if it is discharged in every calling context. Returns (residual {(fn, kind): [(loc, detail)]}, total, discharged)."""
    residual = defaultdict(list)
    origin = defaultdict(list)
    total = discharged = 0
    for key in sorted(reach):
        for kind, loc, why, detail in collect(key):
            if skip(kind):
                continue
            g = (detail or {}).get("inl")
            if g:
                origin[(g, kind, loc)].append((why, detail))
                continue
            total += 1
            if why:
                discharged += 1
                ctx.ok(R, "%s|%s@auto" % (key, kind), why, loc)
            else:
                residual[(key, kind)].append((loc, detail))
    for (g, kind, loc), copies in sorted(origin.items()):
        total += 1
        if all(c[0] for c in copies):
            discharged += 1
            ctx.ok(R, "%s|%s@auto" % (g, kind), "%s (in each of its %d calling contexts)" % (copies[0][0], len(copies)), loc)
        else:
            residual[(g, kind)].append((loc, copies[0][1]))
    return residual, total, discharged


def base_fn(key):
    return key.split("::{closure")[0]


def reconcile(ctx, R, residual, table_entries, msg_unreviewed, msg_excess):
    """compare the undischarged sites found now with the reviewed per-(function, kind) ceilings.

    Keys are normalised to the enclosing named function (closure <-> loop rewrites do not move a site). A site in excess of its function's
    ceiling is matched against functions of the table that now have FEWER sites of the same kind than reviewed (or no longer exist): a site that
    merely moved (helper inlined / function split / renamed) keeps the total per kind unchanged and is not reported. Only growth of the total
    number of undischarged sites of a kind is a violation (a new panic-capable construct)."""
    found = defaultdict(list)
    for (key, kind), items in residual.items():
        found[(base_fn(key), kind)] += items
    ceil = defaultdict(int)
    why = {}
    for tk, ent in table_entries.items():
        k, kind = tk.rsplit("|", 1)
        ceil[(base_fn(k), kind)] += ent["ceiling"]
        why[(base_fn(k), kind)] = ent["why"]
    def fam(kind):
        # indexing a Vec (Index::index call) and indexing a slice (MIR bounds assert) are the same construct written on different types
        return "index" if kind.startswith("index:") or kind == "bounds" else kind
    excess = defaultdict(list)    # kind family -> [(fn, items beyond ceiling)]
    deficit = defaultdict(int)
    for (fn, kind), items in sorted(found.items()):
        c = ceil.get((fn, kind), 0)
        tk = "%s|%s" % (fn, kind)
        if len(items) > c:
            excess[fam(kind)].append((fn, items[c:], c, len(items), kind))
            if c:
                ctx.exception(R, tk, "%d/%d residual: %s" % (c, c, why[(fn, kind)]), items[0][0])
        else:
            ctx.exception(R, tk, "%d/%d residual: %s" % (len(items), c, why[(fn, kind)]), items[0][0])
            deficit[fam(kind)] += c - len(items)
    for (fn, kind), c in ceil.items():
        if (fn, kind) not in found:
            deficit[fam(kind)] += c
    for kind, lst in sorted(excess.items()):
        n_excess = sum(len(x[1]) for x in lst)
        if n_excess <= deficit.get(kind, 0):
            for fn, items, c, n, kind in lst:
                ctx.exception(R, "%s|%s|moved" % (fn, kind), "%d site(s) beyond this function's reviewed ceiling are matched by %d reviewed site(s) of the same "
                              "kind that disappeared elsewhere (code moved between functions; the total number of undischarged %s sites did not grow)"
                              % (len(items), deficit[fam(kind)], kind), items[0][0])
            continue
        for fn, items, c, n, kind in lst:
            tk = "%s|%s" % (fn, kind)
            if c == 0:
                for loc, detail in items:
                    ctx.violated(R, tk, msg_unreviewed % kind, loc, detail if isinstance(detail, dict) else None)
            else:
                ctx.violated(R, tk, msg_excess % (n, kind, c, why.get((fn, kind), "")[:90]), items[-1][0], {"sites": [i[0] for i in items]})


def run_census(ctx, R, reach, table_file, skip_kinds=("cast", "alloc", "loop"), skip_overflow_add=True):
    F = ctx.facts
    path = os.path.join(VERIF, "rules", "tables", table_file)
    table = json.load(open(path)) if os.path.exists(path) else {"residual": {}}
    def skip(kind):
        if kind.split(":")[0] in skip_kinds:
            return True
        # out of scope here: counters and sizes (assumption); subtraction underflow IS in scope
        return skip_overflow_add and kind in ("overflow:Add", "overflow:Mul", "overflow:Shl", "overflow:Shr", "overflow:Neg")
    residual, total, discharged = gather(ctx, R, F, reach, lambda key: c12.collect_sinks(F, key), skip)
    ctx.extra.setdefault("census", {})[R] = {"functions": len(reach), "sinks": total, "discharged_automatically": discharged}
    if os.environ.get("QV_CENSUS_GEN") == "1":
        tbl = {"residual": {}}
        merged = defaultdict(list)
        for (key, kind), items in residual.items():
            merged[(base_fn(key), kind)] += items
        for (key, kind), items in sorted(merged.items()):
            tk = "%s|%s" % (key, kind)
            old = table["residual"].get(tk, {})
            tbl["residual"][tk] = {"ceiling": len(items), "why": old.get("why") or WHY.get(kind.split(":")[0], "reviewed"), "at": [i[0].split(":")[-1] for i in items]}
        json.dump(tbl, open(path, "w"), indent=1)
        ctx.note("%s: residual table %s regenerated with %d entries" % (R, table_file, len(tbl["residual"])))
        return
    reconcile(ctx, R, residual, table["residual"],
              "unreviewed %s site on this path: a panic here kills the worker / front end instead of yielding an error value",
              "%d %s site(s), reviewed ceiling is %d: a new panic-capable construct was added (%s)")
