"""C14 — a resource is usable only by its single owner and is closed exactly once (structural clauses)."""
from qvlib import hir
from qvlib.extract import CheckError
from qvlib.facts import op_local, op_place
from qvlib.paths import (Flow, agg_sites, consumer_calls, discr_switches, diverging_blocks, edge_for, edges_except, err_blocks, explore,
                         path_desc)

CRATES = None
OPTIONAL_FNS = ("Worker::notify_result", "Worker::deliver_message", "Worker::update_program")      # private Worker helpers that may be inlined into their only caller
ENV = "quiver_environment::environment::Environment"


def owner_field_calls(body, flow, field, owner_suffix="environment::Environment"):
    out = []
    for bi, t in body.calls():
        if not t["args"]:
            continue
        cp = flow.canon_op(t["args"][0])
        if cp and flow.ends_with_field(cp, owner_suffix, field):
            out.append((bi, t))
    return out


def r1_ownership_dominates_execute(ctx):
    R = "R-C14-1"
    ctx.rule(R, "the ownership test dominates the only EffectBackend::execute call: no path reaches execute with resource_id()==Some(r), "
                "resource_ownership.get(r)==Some(owner) and owner != process_id")
    F = ctx.facts
    sites = []
    for body in F.bodies():
        for bi, t in body.calls():
            c = t.get("callee") or ""
            r = t.get("resolved") or ""
            if c.endswith("effects::EffectBackend::execute") or ("EffectBackend>::execute" in r):
                sites.append((body, bi, t))
    ctx.floor(R, "EffectBackend::execute call sites", len(sites), 1)
    for body, bi, t in sites:
        site = "%s|execute" % body.key
        if body.key != ENV + "::handle_effect_request":
            ctx.violated(R, site, "EffectBackend::execute called outside Environment::handle_effect_request (bypasses the ownership test)", body.loc(bi))
            continue
        fl = Flow(body)
        rid_calls = [(b2, t2) for b2, t2 in body.calls() if (t2.get("callee") or "").endswith("Effect::resource_id")]
        if len(rid_calls) != 1:
            ctx.violated(R, site, "expected exactly one effect.resource_id() call before execute, found %d" % len(rid_calls), body.loc(bi))
            continue
        rb, rt = rid_calls[0]
        # the effect whose id is tested is the effect that is executed
        tested = fl.canon_op(rt["args"][0])
        executed = fl.canon_op(t["args"][2]) if len(t["args"]) > 2 else None
        if tested is None or executed is None or tested[0] != executed[0]:
            ctx.violated(R, site, "the effect passed to execute (%s) is not the one whose resource_id() was tested (%s)"
                         % (fl.canon_str(executed), fl.canon_str(tested)), body.loc(bi))
            continue
        r = rt["dest"]["l"]
        gets = [(b2, t2) for b2, t2 in owner_field_calls(body, fl, "resource_ownership") if (t2.get("callee") or "").endswith("HashMap::get")]
        if len(gets) != 1:
            ctx.violated(R, site, "ownership lookup not found (resource_ownership.get: %d)" % len(gets), body.loc(bi))
            continue
        gb, gt = gets[0]
        fln = Flow(body, through_named=True)
        TCK = ("Try::branch", "Option::unwrap", "Option::expect", "Clone::clone", "Option::copied")
        # looked-up key is the effect's resource id
        keyp = op_place(gt["args"][1])
        if keyp is None or r not in fln.backward({keyp["l"]}, through_calls=TCK):
            ctx.violated(R, site, "resource_ownership.get is not keyed by the effect's resource id", body.loc(gb))
            continue
        o = gt["dest"]["l"]
        # comparison owner vs process_id
        pid = [l["i"] for l in body.params() if l["ty"] == "usize"]
        cmps = []
        for b2, si, s2 in body.stmts():
            if s2["k"] == "assign" and s2["rv"]["k"] == "bin" and s2["rv"]["op"] in ("Ne", "Eq"):
                sides = [fln.backward({op_place(x)["l"]}, through_calls=TCK) if op_place(x) else set() for x in (s2["rv"]["l"], s2["rv"]["r"])]
                if pid and ((pid[0] in sides[0] and o in sides[1]) or (pid[0] in sides[1] and o in sides[0])):
                    cmps.append((b2, si, s2["rv"]["op"]))
        if len(cmps) != 1:
            ctx.violated(R, site, "owner != process_id comparison not found after the ownership lookup (%d candidates)" % len(cmps), body.loc(gb))
            continue
        cb, csi, op = cmps[0]
        differs = 1 if op == "Ne" else 0       # value of the comparison when the owner is ANOTHER process
        # (1) every path to execute passes resource_id()
        c1 = body.must_pass(bi, [rb])
        # (2) with a resource id, a registered owner and owner != process_id, execute is unreachable
        w = explore(body, [0], want="target", targets=[bi], force={("d", r): 1, ("d", o): 1, (cb, csi): differs}, flow=fl)
        # (3) ... and that path reports an error to the process on every way out
        rep = [b2 for b2, _t in body.calls_to("Environment::report_effect_error")]
        w4 = explore(body, [cb], avoid=rep, want="return", force={(cb, csi): differs}, flow=fl, stop=diverging_blocks(body))
        # (4) the three tests are on the way to execute at all (not dead code beside it)
        c5 = body.reaches(rb, bi) and body.reaches(gb, bi) and body.reaches(cb, bi)
        ok = c1 and w is None and w4 is None and bool(rep) and c5
        why_bad = []
        if not c1:
            why_bad.append("a path reaches execute without calling resource_id()")
        if w is not None:
            why_bad.append("execute reachable with a foreign owner: %s" % path_desc(body, w))
        if w4 is not None or not rep:
            why_bad.append("the ownership violation is not reported through report_effect_error on every path")
        if not c5:
            why_bad.append("the ownership test is not on the way to execute")
        ctx.check(ok, R, site, "execute is reachable only with no resource id, no registered owner, or owner == process_id; the violating outcome "
                               "returns through report_effect_error", "; ".join(why_bad), body.loc(bi))
    # no other way to reach a backend: fields/methods of the backend that perform effects
    n_impl = 0
    for body in F.bodies():
        if "EffectBackend>::execute" in body.key:
            n_impl += 1
    ctx.note("EffectBackend::execute implementations seen: %d" % n_impl)


def r2_who_writes_ownership(ctx):
    R = "R-C14-2"
    ctx.rule(R, "writers of Environment.resource_ownership are exactly handle_effect_completion (insert creator, only for a top-level "
                "Value::Resource of an Ok completion), transfer_resource_ownership (insert new owner) and cleanup_process_resources (remove)")
    F = ctx.facts
    allowed = {
        ENV + "::handle_effect_completion": {"insert"},
        ENV + "::transfer_resource_ownership": {"insert"},
        ENV + "::cleanup_process_resources": {"remove"},
    }
    mutators = ("insert", "remove", "clear", "retain", "drain", "entry", "get_mut", "extend", "remove_entry", "iter_mut", "values_mut")
    seen = {}
    for body in F.bodies():
        if body.fn["crate"] != "quiver_environment":
            continue
        fl = Flow(body)
        for bi, t in owner_field_calls(body, fl, "resource_ownership"):
            m = (t.get("callee") or "?").split("::")[-1]
            if m not in mutators:
                continue
            base = body.key.split("::{closure")[0]
            site = "%s|resource_ownership.%s" % (base, m)
            seen.setdefault(base, set()).add(m)
            if base in allowed and m in allowed[base]:
                ctx.ok(R, site, "reviewed writer", body.loc(bi))
            elif base.endswith("Environment::new"):
                ctx.ok(R, site, "constructor", body.loc(bi))
            else:
                ctx.violated(R, site, "ownership map mutated (%s) outside the three reviewed writers" % m, body.loc(bi))
        for bi, si, s in body.stmts():
            if s["k"] == "assign":
                fs = [e for e in s["p"]["pr"] if e[0] == "f"]
                if fs and fs[-1][1] == "resource_ownership" and not body.key.endswith("Environment::new"):
                    ctx.violated(R, body.key + "|resource_ownership=", "ownership map replaced wholesale", body.loc(bi, si))
    for fn_key, meths in allowed.items():
        for m in meths:
            if m not in seen.get(fn_key, set()):
                ctx.violated(R, "%s|resource_ownership.%s|missing" % (fn_key, m),
                             "%s no longer performs resource_ownership.%s: %s" % (fn_key.split("::")[-1], m,
                             {"insert": "created/transferred handles are not recorded for their owner", "remove": "a closed resource stays in the ownership map (it can be closed or used again)"}[m]))
    # registration is control-dependent on Ok((Value::Resource(rid,_),_)) and records the requesting process
    hc = F.body(ENV + "::handle_effect_completion")
    fl = Flow(hc)
    ins = [(bi, t) for bi, t in owner_field_calls(hc, fl, "resource_ownership") if t["callee"].endswith("HashMap::insert")]
    fld = Flow(hc, through_named=True)
    for bi, t in ins:
        key = fld.canon_op(t["args"][1])
        val = fl.canon_op(t["args"][2])
        kstr = fld.canon_str(key)
        pid = [l["i"] for l in hc.params() if l["ty"] == "usize"]
        ok_val = val is not None and pid and val[0] == pid[0]
        # key comes out of `result` via (Ok).0.0 as Resource .0
        names = [e[1] for e in (key[1] if key else ()) if e[0] == "d"]
        ok_key = key is not None and "Resource" in names and "Ok" in names
        ctx.check(ok_val and ok_key, R, hc.key + "|register", "registers the completion's top-level Value::Resource id for the requesting process (%s -> process_id)" % kstr,
                  "registration no longer maps the created top-level resource to the requesting process (key %s)" % kstr, hc.loc(bi))


def r3_close(ctx):
    R = "R-C14-3"
    ctx.rule(R, "EffectBackend::close_resource has one caller (cleanup_process_resources); each close is followed by resource_ownership.remove "
                "of the same id; cleanup is called only under result.is_some() in handle_process_results; the closed ids are those owned by the process")
    F = ctx.facts
    sites = []
    for body in F.bodies():
        for bi, t in body.calls():
            c = t.get("callee") or ""
            r = t.get("resolved") or ""
            if c.endswith("effects::EffectBackend::close_resource") or "EffectBackend>::close_resource" in r:
                sites.append((body, bi, t))
    ctx.floor(R, "close_resource call sites", len(sites), 1)
    for body, bi, t in sites:
        site = body.key + "|close_resource"
        if body.key != ENV + "::cleanup_process_resources":
            ctx.violated(R, site, "close_resource called outside cleanup_process_resources", body.loc(bi))
            continue
        fl = Flow(body)
        rid = fl.canon_op(t["args"][1])
        rem = [(b2, t2) for b2, t2 in owner_field_calls(body, fl, "resource_ownership") if t2["callee"].endswith("HashMap::remove")]
        same = [b2 for b2, t2 in rem if fl.canon_op(t2["args"][1]) == rid]
        bad = explore(body, body.succ[bi], avoid=same, want="target", targets=[bi]) if same else [bi]
        bad2 = explore(body, body.succ[bi], avoid=same, want="return") if same else [bi]
        ctx.check(bool(same) and bad is None and bad2 is None, R, site,
                  "each close_resource(rid) is followed by resource_ownership.remove(rid) before the next close or return (closed at most once, cannot be used again)",
                  "a closed resource can stay in the ownership map (double close / use after close)", body.loc(bi))
        # ids closed are those the ownership map assigns to the finished process AT CLEANUP TIME:
        #  (a) the id derives from an iteration over resource_ownership filtered by `owner == process_id`, or
        #  (b) the close is control-dependent on a lookup of the id in resource_ownership compared with process_id
        pid = [l["i"] for l in body.params() if l["ty"] == "usize"]
        fln = Flow(body, through_named=True)
        TC = ("Iterator::collect", "Iterator::filter", "Iterator::map", "Iterator::filter_map", "Iterator::cloned", "Iterator::copied", "IntoIterator::into_iter",
              "Iterator::next", "HashMap::iter", "HashMap::keys", "Deref::deref", "Clone::clone")
        rp = op_place(t["args"][1])
        back = fln.backward({rp["l"]}, through_calls=TC) if rp else set()
        from_map = False
        filt_ok = False
        for b3, t3 in body.calls():
            if not t3.get("dest") or t3["dest"]["l"] not in back:
                continue
            c3 = t3.get("callee") or ""
            if c3.endswith("HashMap::iter") and fl.mentions_field(fl.canon_op(t3["args"][0]) or (0, ()), "environment::Environment", "resource_ownership"):
                from_map = True
            if c3.endswith("Iterator::filter") and len(t3["args"]) > 1:
                cl = op_place(t3["args"][1])
                for _b5, _s5, st5 in body.stmts():
                    if cl and st5["k"] == "assign" and st5["p"]["l"] == cl["l"] and st5["rv"].get("closure"):
                        caps = [op_place(o) for o in st5["rv"].get("ops", [])]
                        cap_pid = any(cp and pid and pid[0] in fln.backward({cp["l"]}) for cp in caps)
                        cb = F.body(st5["rv"]["closure"])
                        cfl = Flow(cb, through_named=True)
                        for _b4, _s4, st in cb.stmts():
                            if st["k"] == "assign" and st["p"]["l"] == 0 and st["rv"]["k"] == "bin" and st["rv"]["op"] == "Eq":
                                sides = [cfl.backward({op_place(o)["l"]}) if op_place(o) else set() for o in (st["rv"]["l"], st["rv"]["r"])]
                                if (1 in sides[0] and 2 in sides[1]) or (2 in sides[0] and 1 in sides[1]):
                                    filt_ok = cap_pid
        guarded = False
        for b3, t3 in body.calls():
            if (t3.get("callee") or "").endswith("HashMap::get") and fl.mentions_field(fl.canon_op(t3["args"][0]) or (0, ()), "environment::Environment", "resource_ownership") \
                    and body.dominates(b3, bi) and rp and (fln.backward({op_place(t3["args"][1])["l"]}) & fln.backward({rp["l"]})):
                guarded = True
        # explicit-loop form: `for (rid, owner) in &self.resource_ownership { if *owner == process_id { owned.push(*rid) } }`
        loop_ok = False
        if not filt_ok:
            TCL = TC + ("Iterator::enumerate",)
            map_iters = [b3 for b3, t3 in body.calls() if t3["args"] and (t3.get("callee") or "").split("::")[-1] in ("iter", "into_iter", "keys", "values") and
                         fl.mentions_field(fl.canon_op(t3["args"][0]) or (0, ()), "environment::Environment", "resource_ownership")]
            map_locals = {body.blocks[b3]["term"]["dest"]["l"] for b3 in map_iters}
            nexts = [b3 for b3, t3 in body.calls() if (t3.get("callee") or "").endswith("Iterator::next")]
            entries = [b3 for b3, t3 in body.calls() if (t3.get("callee") or "").endswith("Vec::push") and len(t3["args"]) > 1 and op_place(t3["args"][1])
                       and op_place(t3["args"][1])["l"] in back] or [bi]
            if map_locals & back or any(fln.backward({x}, through_calls=TCL) & map_locals for x in back):
                from_map = True
            for b4, s4, st in body.stmts():
                if st["k"] == "assign" and st["rv"]["k"] == "bin" and st["rv"]["op"] in ("Eq", "Ne"):
                    sides = [fln.backward({op_place(o)["l"]}, through_calls=TCL) if op_place(o) else set() for o in (st["rv"]["l"], st["rv"]["r"])]
                    has_pid = [bool(pid and pid[0] in sd) for sd in sides]
                    has_map = [bool(sd & map_locals) for sd in sides]
                    if (has_pid[0] and has_map[1]) or (has_pid[1] and has_map[0]):
                        wrong = 0 if st["rv"]["op"] == "Eq" else 1
                        if all(body.dominates(b4, e_) or True for e_ in entries) and all(
                                explore(body, [b4], want="target", targets=[e_], avoid=nexts, force={(b4, s4): wrong}) is None for e_ in entries):
                            loop_ok = True
        okf = (from_map and (filt_ok or loop_ok)) or guarded
        ctx.check(okf, R, body.key + "|owned-only", "the closed ids are the entries of resource_ownership whose owner == process_id at cleanup time",
                  "the resources closed for a finished process are not (only) those resource_ownership assigns to it NOW (from_map=%s owner-filter=%s "
                  "guarded=%s): a resource handed on to a live process can be closed under it" % (from_map, filt_ok or loop_ok, guarded), body.loc(bi))
    callers = sorted({k for k, _b in F.callers_of(ENV + "::cleanup_process_resources")})
    ctx.check(callers == [ENV + "::handle_process_results"], R, "callers(cleanup_process_resources)",
              "cleanup_process_resources is called only from handle_process_results", "cleanup_process_resources callers: %s" % callers)
    hp = F.body(ENV + "::handle_process_results")
    for bi, t in hp.calls_to("Environment::cleanup_process_resources"):
        issome = [(b2, t2) for b2, t2 in hp.calls_to("Option::is_some")]
        ok = False
        for b2, t2 in issome:
            r = t2["dest"]["l"]
            # unreachable when is_some() is false
            if all(explore(hp, [(s, {r: 0})], want="target", targets=[bi], avoid=[b2]) is None for s in hp.succ[b2]) and hp.dominates(b2, bi):
                ok = True
        ctx.check(ok, R, hp.key + "|cleanup-guard", "cleanup is control-dependent on result.is_some() (only completed processes are cleaned up)",
                  "cleanup_process_resources can run for a process that has not completed (resource closed while its owner is alive)", hp.loc(bi))
    # native backend: close_resource removes the registry entry
    for body in F.bodies(crate="quiver_io"):
        if body.key.endswith("EffectBackend>::close_resource"):
            fl = Flow(body)
            rm = [bi for bi, t in body.calls() if (t.get("callee") or "").split("::")[-1] in ("remove", "remove_entry") and t["args"]
                  and fl.mentions_field(fl.canon_op(t["args"][0]) or (0, ()), "NativeEffectBackend", "resources")]
            ctx.check(bool(rm), R, body.key + "|registry-remove", "backend close_resource removes the registry entry (drop closes the descriptor)",
                      "backend close_resource no longer removes the registry entry", body.loc(0))


def r4_classification(ctx):
    R = "R-C14-4"
    ctx.rule(R, "for every Effect implementor, a variant has a field of type ResourceId <=> resource_id() returns Some(that field) for it")
    F = ctx.facts
    impls = [k for k in F.fns if k.endswith("as quiver_core::effects::Effect>::resource_id")]
    ctx.floor(R, "Effect::resource_id implementations", len(impls), 2)
    n = 0
    for k in impls:
        fn = F.fns[k]
        adt_key = fn.get("self_adt")
        if not adt_key or adt_key not in F.adts:
            continue
        adt = F.adts[adt_key]
        body = hir.body_of(fn)
        ms = hir.matches(body)
        if adt["kind"] != "enum":
            continue
        if not adt["variants"]:
            ctx.ok(R, k + "|uninhabited", "effect type has no variants")
            continue
        if not ms:
            # e.g. `None` for an effect type without resources
            has_rid = any(f["ty"] in ("usize", "quiver_core::value::ResourceId") and "resource" in f["name"] for v in adt["variants"] for f in v["fields"])
            ctx.check(not has_rid, R, k + "|no-match", "no variant carries a resource id and resource_id() has no match",
                      "resource-carrying variants exist but resource_id() does not inspect the effect")
            continue
        m = ms[0]
        for v in adt["variants"]:
            n += 1
            rid_fields = [f["name"] for f in v["fields"] if f["name"] == "resource_id" or "ResourceId" in f["ty"]]
            arms = hir.arms_for_variant(m, adt_key, v["name"])
            site = "%s|%s" % (k, v["name"])
            if not arms:
                ctx.violated(R, site, "variant not covered by resource_id()")
                continue
            _i, arm, definite = arms[0]
            returns_some = any(c[1] == "Some" for c in hir.ctors(arm["body"]))
            returns_none = any(c[1] == "None" for c in hir.ctors(arm["body"])) and not returns_some
            if rid_fields:
                # the arm must bind that field and return Some(*field)
                binds = [nm for nm, path in hir.pat_bindings(arm["pat"]) if path and path[-1][1] in rid_fields]
                uses = set(hir.local_names(arm["body"]))
                ok = returns_some and any(b in uses for b in binds)
                ctx.check(ok, R, site, "operates on a resource: resource_id() returns Some(%s)" % rid_fields[0],
                          "variant %s carries a ResourceId but resource_id() does not return it: the ownership test is skipped for it" % v["name"],
                          "%s:%d" % (fn["file"], arm["ln"]))
            else:
                ctx.check(returns_none, R, site, "creates/needs no resource: resource_id() returns None",
                          "variant %s has no ResourceId field but resource_id() returns Some(..)" % v["name"], "%s:%d" % (fn["file"], arm["ln"]))
    ctx.floor(R, "effect variants classified", n, 19)


def r5_creations_top_level(ctx):
    R = "R-C14-5"
    ctx.rule(R, "every Value::Resource constructed in quiver_io::native_backend is the first component of the Ok((value, heap)) the function "
                "returns, so handle_effect_completion (which registers only a top-level handle) records its creator")
    F = ctx.facts
    n = 0
    for body in F.bodies(crate="quiver_io"):
        if "native_backend" not in body.key:
            continue
        fl = Flow(body)
        for bi, si, s in agg_sites(body, "value::Value", "Resource"):
            n += 1
            ords = [x for x in agg_sites(body, "value::Value", "Resource")]
            site = "%s|Value::Resource#%d" % (body.key, ords.index((bi, si, s)))
            # forward: the value must become field 0 of a tuple that becomes the payload of an Ok aggregate flowing to _0
            fw = fl.forward({s["p"]["l"]})
            ok = False
            for b2, s2i, s2 in body.stmts():
                if s2["k"] == "assign" and s2["rv"]["k"] == "agg" and s2["rv"].get("kind") == "tuple" and s2["rv"]["ops"]:
                    first = op_place(s2["rv"]["ops"][0])
                    if first and first["l"] in fw and len(s2["rv"]["ops"]) == 2:
                        tup = s2["p"]["l"]
                        fw2 = fl.forward({tup})
                        wrapped = [s3 for _b, _i, s3 in body.stmts() if s3["k"] == "assign" and s3["rv"]["k"] == "agg" and s3["rv"].get("variant") == "Ok"
                                   and any((op_place(o) or {}).get("l") in fw2 for o in s3["rv"]["ops"])]
                        if wrapped and 0 in fl.forward({tup}):
                            ok = True
            ctx.check(ok, R, site, "the created handle is returned as the top-level value of the Ok((value, heap)) completion",
                      "a created resource handle is not the top-level completion value: its creator would never be registered as owner", body.loc(bi, si))
    ctx.floor(R, "Value::Resource constructions in native_backend", n, 6)


def r6_transfer_before_forward(ctx):
    R = "R-C14-6"
    ctx.rule(R, "ownership transfer precedes forwarding: handle_deliver calls transfer_resource_ownership(&message, target) before the "
                "DeliverMessage send; handle_spawn transfers every capture (loop) and the argument before the SpawnProcess send; the walker "
                "recurses into tuples and closures")
    F = ctx.facts
    hd = F.body(ENV + "::handle_deliver")
    fl = Flow(hd)
    tr = [(bi, t) for bi, t in hd.calls_to("Environment::transfer_resource_ownership")]
    sends = []
    for bi, si, s in agg_sites(hd, "messages::Command", "DeliverMessage"):
        sends += [cb for cb, ct, _ in consumer_calls(hd, fl, s["p"]["l"]) if (ct.get("callee") or "").endswith("::send")]
    msg = [l["i"] for l in hd.params() if l["ty"] == "quiver_core::value::Value"]
    tgt = [l["i"] for l in hd.params() if l["ty"] == "usize"]
    okargs = any((fl.canon_op(t["args"][1]) or (None,))[0] in msg and (fl.canon_op(t["args"][2]) or (None,))[0] in tgt for _b, t in tr)
    ok = bool(tr) and bool(sends) and okargs and all(hd.must_pass(s, [b for b, _ in tr]) for s in sends)
    ctx.check(ok, R, hd.key + "|transfer-then-send", "transfer_resource_ownership(&message, target) is passed on every path to the DeliverMessage send",
              "a message can be forwarded without transferring the ownership of the resources it carries", hd.loc(0))
    hs = F.body(ENV + "::handle_spawn")
    fl = Flow(hs)
    tr = [(bi, t) for bi, t in hs.calls_to("Environment::transfer_resource_ownership")]
    sends = []
    for bi, si, s in agg_sites(hs, "messages::Command", "SpawnProcess"):
        sends += [cb for cb, ct, _ in consumer_calls(hs, fl, s["p"]["l"]) if (ct.get("callee") or "").endswith("::send")]
    arg = [l["i"] for l in hs.params() if l["ty"] == "quiver_core::value::Value"]
    caps = [l["i"] for l in hs.params() if l["ty"].startswith("alloc::vec::Vec<quiver_core::value::Value")]
    newpid = [t["dest"]["l"] for _b, t in hs.calls_to("Environment::allocate_process_id")]
    newpid += [l for l in Flow(hs).forward(set(newpid)) if hs.local_ty(l) == "usize"]
    arg_tr = [b for b, t in tr if (fl.canon_op(t["args"][1]) or (None,))[0] in arg and (fl.canon_op(t["args"][2]) or (None,))[0] in newpid]
    cap_tr = []
    for b, t in tr:
        c = fl.canon_op(t["args"][1])
        if c is None:
            continue
        back = fl.backward({c[0]}, through_calls=("Iterator::next", "IntoIterator::into_iter", "slice::iter", "Vec::iter"))
        if caps and caps[0] in back and hs.reaches(hs.succ[b][0], b) and (fl.canon_op(t["args"][2]) or (None,))[0] in newpid:
            cap_tr.append(b)
    ok = bool(sends) and bool(arg_tr) and bool(cap_tr) and all(hs.must_pass(s, arg_tr) for s in sends) and all(
        any(hs.reaches(c, s) for c in cap_tr) for s in sends)
    # the captures loop must be entered on every path to the send: the loop header (into_iter on captures) dominates the send
    ctx.check(ok, R, hs.key + "|transfer-then-send",
              "every capture (loop over `captures`) and the argument are passed to transfer_resource_ownership(.., new_pid) before the SpawnProcess send",
              "a spawn can be forwarded without transferring ownership of handles in captures/argument (recursive walker not applied to them)", hs.loc(0))
    # walker recursion
    tw = F.fn(ENV + "::transfer_resource_ownership")
    m = hir.matches(hir.body_of(tw))
    val = "quiver_core::value::Value"
    okrec = False
    if m:
        rec = {}
        for v in ("Tuple", "Function", "Resource"):
            arms = hir.arms_for_variant(m[0], val, v)
            if arms:
                keys = hir.call_keys(arms[0][1]["body"])
                rec[v] = keys
        okrec = any(k.endswith("transfer_resource_ownership") for k in rec.get("Tuple", [])) and any(
            k.endswith("transfer_resource_ownership") for k in rec.get("Function", [])) and any(k.endswith("HashMap::insert") for k in rec.get("Resource", []))
    ctx.check(okrec, R, ENV + "::transfer_resource_ownership|recursion", "the walker records Resource handles and recurses into Tuple fields and Function captures",
              "the ownership walker no longer reaches handles nested in tuples or closures")
    # ... and it does so for EVERY tuple and closure: with the value's variant fixed to Tuple (Function), no path returns without entering the loop
    # over its elements (a "seen this tuple type without a handle before, skip it" memo is unsound — the type id does not decide what an optional
    # slot, a closure field or a generic list holds this time)
    wb = F.body(ENV + "::transfer_resource_ownership")
    variants = [v["name"] for v in F.adt(val)["variants"]]
    vparam = wb.param_by_type(lambda ty: ty.startswith("&") and ty.endswith("value::Value"), what="value parameter")
    selfcalls = [bi for bi, t in wb.calls() if (t.get("callee") or "").endswith("Environment::transfer_resource_ownership")]
    nexts = [bi for bi, t in wb.calls() if (t.get("callee") or "").endswith("Iterator::next")]
    for v in ("Tuple", "Function"):
        heads = [h for h in nexts if any(wb.dominates(h, c) and wb.reaches(c, h) for c in selfcalls)]
        # loop headers that belong to this variant's arm: reachable with the discriminant forced to v
        idx = variants.index(v)
        arm_heads = [h for h in heads if explore(wb, [(0, {("d", vparam): idx})], want="target", targets=[h]) is not None]
        skip = explore(wb, [(0, {("d", vparam): idx})], avoid=arm_heads, stop=err_blocks(wb) | diverging_blocks(wb), want="return") if arm_heads else [0]
        ctx.check(bool(arm_heads) and skip is None, R, ENV + "::transfer_resource_ownership|every-%s-walked" % v.lower(),
                  "every %s value is walked element by element (no path around the loop)" % v,
                  "the ownership walker can return for a %s value without visiting its elements (%s): a handle inside is not transferred — the sender "
                  "stays its owner, the receiver is refused" % (v, path_desc(wb, skip) if isinstance(skip, list) and len(skip) > 1 else "no element loop"), wb.loc(0))


def r7_cleanup_reach(ctx):
    R = "R-C14-7"
    ctx.rule(R, "every environment handler of an event that carries a completed process result reaches cleanup_process_resources")
    F = ctx.facts
    hp = F.body(ENV + "::handle_process_results")
    ctx.check(bool(hp.calls_to("Environment::cleanup_process_resources")), R, hp.key, "ProcessResults handler cleans up completed processes",
              "ProcessResults handler no longer cleans up")
    hr = F.body(ENV + "::handle_result_response")
    reach = F.reach([hr.key])
    ctx.check(ENV + "::cleanup_process_resources" in reach, R, hr.key,
              "ResultResponse handler reaches cleanup", "a process that terminates without being awaited is reported only through ResultResponse (or not at all), "
              "which never reaches cleanup_process_resources: its resources are never closed", hr.loc(0))


def r8_environment_sees_everything(ctx):
    """ownership moves (handle_deliver / handle_spawn) and cleanup (handle_process_results) happen only in the environment, so every send, spawn and
    completion must be routed through it: shared with R-C04-7"""
    from rules import c04
    c04.r7_actions_forwarded(ctx, "R-C14-8")


def r9_completions_and_ids(ctx):
    R = "R-C14-9"
    ctx.rule(R, "(a) every effect completion reaches its process THROUGH the ownership registration: Command::EffectCompletion is constructed only in "
                "Environment::handle_effect_completion (which records a created handle for its owner first) and report_effect_error (errors carry no "
                "handle) — a delivery path that skips the registration (e.g. for completions drained from the backend asynchronously) leaves sockets "
                "created by tcp_connect / accept without an owner; (b) resource ids are minted from a monotone counter: every key inserted into the "
                "native backend's registry derives from next_resource_id, which is only ever incremented — a recycled id can be handed out twice")
    F = ctx.facts
    allowed = {ENV + "::handle_effect_completion", ENV + "::report_effect_error"}
    n = 0
    for body in F.bodies(crate="quiver_environment"):
        if body.fn.get("derived") or "_serde" in body.key or "Clone" in body.key:
            continue
        for bi, si, st in agg_sites(body, "messages::Command", "EffectCompletion"):
            n += 1
            base = body.key.split("::{closure")[0]
            ctx.check(base in allowed, R, "%s|construct EffectCompletion" % base, "constructed behind the ownership registration",
                      "Command::EffectCompletion is constructed outside handle_effect_completion / report_effect_error: a completion can reach its process "
                      "without the created handle being recorded for its owner (never closed at termination, usable by whoever receives it)", body.loc(bi, si))
    ctx.floor(R, "EffectCompletion constructions", n, 2)
    # (b) ids
    writes = 0
    for body in F.bodies(crate="quiver_io"):
        fl = Flow(body, through_named=True)
        for bi, si, st in body.stmts():
            if st["k"] == "assign" and any(e[0] == "f" and e[1] == "next_resource_id" for e in st["p"]["pr"]):
                writes += 1
                pl = op_place(st["rv"].get("op") or {}) if st["rv"]["k"] == "use" else None
                srcs = fl.sources(pl["l"]) if pl else []
                inc = any(x[0] == "rv" and x[2]["rv"]["k"] == "bin" and x[2]["rv"]["op"].startswith("Add") and
                          ((x[2]["rv"]["r"].get("val") == 1) or (x[2]["rv"]["l"].get("val") == 1)) and "next_resource_id" in json_text(x[2]["rv"]) for x in srcs)
                is_init = body.key.endswith("::new") or "Default" in body.key
                ctx.check(inc or is_init, R, "%s|next_resource_id=" % body.key.split("::{closure")[0], "next_resource_id = next_resource_id + 1",
                          "next_resource_id is written with something other than its own increment (ids can repeat)", body.loc(bi, si))
        for bi, t in body.calls():
            c = t.get("callee") or ""
            if c.split("::")[-1] == "insert" and t["args"] and len(t["args"]) > 2:
                cp = Flow(body).canon_op(t["args"][0])
                if cp and fl.mentions_field(cp, "NativeEffectBackend", "resources"):
                    kp = op_place(t["args"][1])
                    fields = fl.slice_reads(kp["l"])[0] if kp else set()
                    callees = fl.slice_reads(kp["l"])[3] if kp else set()
                    ok = any(f == "next_resource_id" for _o, f in fields) and not any(c2.split("::")[-1] in ("pop", "pop_front", "remove", "swap_remove", "take", "iter", "next") for c2 in callees)
                    ctx.check(ok, R, "%s|registry key" % body.key.split("::{closure")[0], "the id registered is the current value of the monotone counter",
                              "a resource is registered under an id that does not come (only) from the monotone counter (%s): a recycled id can be live twice — "
                              "registering the second closes / aliases the first owner's resource" % sorted(c2.split("::")[-1] for c2 in callees), body.loc(bi))
    ctx.floor(R, "writes of next_resource_id", writes, 3)


def json_text(o):
    import json as _j
    return _j.dumps(o)


def run(ctx):
    ctx.run_rules([r1_ownership_dominates_execute, r2_who_writes_ownership, r3_close, r4_classification, r5_creations_top_level, r6_transfer_before_forward, r7_cleanup_reach, r8_environment_sees_everything, r9_completions_and_ids])
    return (
        "Decides structural clauses: the ownership test guards the only backend execute call (path-wise, with the violating edge reported); "
        "the ownership map has exactly three reviewed writers; close_resource has one caller, is followed by removal, and runs only for "
        "completed processes; resource_id() classification agrees with each effect variant's fields; created handles are top-level completion "
        "values; transfer precedes forwarding on deliver and spawn and the walker recurses. Does NOT decide event orderings across workers; "
        "records the known finding that un-awaited termination never reaches cleanup.",
        "obligations are call sites / enum variants / constructor sites of the resolved workspace; discharged by path exploration with edge "
        "deletion, dominance, who-may-call censuses and HIR pattern matrices",
    )
