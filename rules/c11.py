"""C11 — REPL evaluation is equivalent to evaluating the lines as one program (ordering / commit clauses)."""
from qvlib.extract import CheckError
from qvlib.facts import op_local, op_place
from qvlib.paths import Flow, agg_sites, call_matches, discr_switches, explore, path_desc

CRATES = None
OPTIONAL_FNS = ("Worker::notify_result", "Worker::deliver_message", "Worker::update_program")      # private Worker helpers that may be inlined into their only caller
REPL = "quiver_environment::repl::Repl"
SESSION_FIELDS = ("bindings", "module_cache", "last_result_type", "program", "repl_process_id", "resolver", "builtins")


def continue_block(body, branch_block):
    """the block entered on the Continue edge of a `Try::branch` call's result"""
    t = body.blocks[branch_block]["term"]
    r = t["dest"]["l"]
    for sw in discr_switches(body, r):
        bi, m, other = sw
        return m.get(0, other), sw
    return None, None


def r1_commit_after_success(ctx):
    R = "R-C11-1"
    ctx.rule(R, "a rejected line leaves the session as it was: in Repl::evaluate every write to a session field (bindings, module_cache, "
                "last_result_type, program, repl_process_id) and every process start/resume/result request is dominated by the success (Continue) "
                "edge of the `?` on Compiler::compile, which itself follows the `?` on parse; the only earlier mutation is compact()")
    F = ctx.facts
    b = F.body(REPL + "::evaluate")
    fl = Flow(b)
    comp = [(bi, t) for bi, t in b.calls_to("compiler::Compiler::compile")]
    parse = [(bi, t) for bi, t in b.calls() if (t.get("callee") or "").endswith("quiver_compiler::parse") or (t.get("callee") or "").endswith("parser::parse")]
    if len(comp) != 1 or len(parse) != 1:
        raise CheckError("%s: expected one Compiler::compile and one parse call in evaluate (found %d, %d)" % (R, len(comp), len(parse)))
    cb, ct = comp[0]
    # the Try::branch fed (through map_err) by the compile result
    fw = fl.forward({ct["dest"]["l"]}, through_calls=("Result::map_err",))
    br = [bi for bi, t in b.calls() if call_matches(t, ("Try::branch",)) and (op_place(t["args"][0]) or {}).get("l") in fw]
    if len(br) != 1:
        raise CheckError("%s: the `?` on the compile result was not found" % R)
    ok_block, sw = continue_block(b, br[0])
    if ok_block is None:
        raise CheckError("%s: Continue edge of the compile `?` not found" % R)
    # parse precedes compile and its `?` too
    pfw = fl.forward({parse[0][1]["dest"]["l"]}, through_calls=("Result::map_err",))
    pbr = [bi for bi, t in b.calls() if call_matches(t, ("Try::branch",)) and (op_place(t["args"][0]) or {}).get("l") in pfw]
    ctx.check(len(pbr) == 1 and b.dominates(pbr[0], cb), R, b.key + "|parse-first", "the `?` on parse dominates the compile call",
              "compile can run before the parse result is checked", b.loc(cb))
    n = 0
    for bi, si, s in b.stmts():
        if s["k"] != "assign" or not s["p"]["pr"]:
            continue
        cp = fl.canon_place(s["p"])
        fs = [e for e in cp[1] if e[0] == "f"]
        if not fs or not (fs[0][2] or "").endswith("repl::Repl") or fs[0][1] not in SESSION_FIELDS:
            continue
        if b.local_name(cp[0]) != "self":
            continue
        n += 1
        site = "%s|self.%s=" % (b.key, fs[0][1])
        ctx.check(b.dominates(ok_block, bi), R, site, "written only after the compile succeeded",
                  "session field %s is written on a path where the line may still be rejected (a failed line would pollute the session)" % fs[0][1], b.loc(bi, si))
    ctx.floor(R, "session-field writes in evaluate", n, 4)
    # mutable borrows of session fields handed to callees before success (other than compact(self))
    for bi, t in b.calls():
        for a in t["args"]:
            p = op_place(a)
            if not p or not b.local_ty(p["l"]).startswith("&mut"):
                continue
            cp = fl.canon_place(p)
            fs = [e for e in cp[1] if e[0] == "f"]
            if fs and (fs[0][2] or "").endswith("repl::Repl") and fs[0][1] in SESSION_FIELDS and b.local_name(cp[0]) == "self":
                ctx.check(b.dominates(ok_block, bi), R, "%s|&mut self.%s->%s" % (b.key, fs[0][1], (t.get("callee") or "?").split("::")[-1]),
                          "mutable access only after success", "a callee gets &mut self.%s before the compile succeeded" % fs[0][1], b.loc(bi))
    for name in ("Environment::resume_process", "Environment::start_process", "Environment::request_result"):
        for bi, t in b.calls_to(name):
            ctx.check(b.dominates(ok_block, bi), R, "%s|%s" % (b.key, name.split("::")[-1]), "the process is only touched after the compile succeeded",
                      "%s can run for a line the compiler rejected" % name, b.loc(bi))
    # whole-self mutable calls before success: only compact
    pre = []
    for bi, t in b.calls():
        if t["args"] and (op_place(t["args"][0]) or {}).get("l") is not None:
            cp = fl.canon_op(t["args"][0])
            if cp and not cp[1] and b.local_name(cp[0]) == "self" and b.local_ty(op_place(t["args"][0])["l"]).startswith("&mut") and not b.dominates(ok_block, bi):
                pre.append((t.get("callee") or "?").split("::")[-1])
    ctx.check(sorted(set(pre)) in (["compact"], []), R, b.key + "|pre-success-self-mutation", "before success only compact(&mut self) mutates the session (%s)" % pre,
              "methods taking &mut self before the compile succeeded: %s" % sorted(set(pre)))


def r2_compact(ctx):
    R = "R-C11-2"
    ctx.rule(R, "compact before compile, consistently: compact(env) dominates Compiler::compile; inside compact the old->new index map applied to "
                "self.bindings and the keep list sent to env.compact_locals are built from the same keep_indices value")
    F = ctx.facts
    b = F.body(REPL + "::evaluate")
    comp = [bi for bi, _t in b.calls_to("compiler::Compiler::compile")]
    cmp_ = [bi for bi, _t in b.calls_to("repl::Repl::compact")]
    ctx.check(len(cmp_) == 1 and all(b.dominates(cmp_[0], c) for c in comp), R, b.key + "|compact-first", "compact() dominates the compile call",
              "the line can be compiled against un-compacted binding indices", b.loc(0))
    c = F.body(REPL + "::compact")
    fl = Flow(c, through_named=True)
    fl0 = Flow(c)
    keep = [t["dest"]["l"] for bi, t in c.calls_to("repl::Repl::keep_indices")]
    if len(keep) != 1:
        raise CheckError("%s: expected one keep_indices() call in compact" % R)
    k = keep[0]
    cl = [(bi, t) for bi, t in c.calls_to("Environment::compact_locals")]
    ok1 = len(cl) == 1 and k in fl.backward({op_place(cl[0][1]["args"][2])["l"]}) if cl and op_place(cl[0][1]["args"][2]) else False
    ctx.check(ok1, R, c.key + "|compact_locals-arg", "env.compact_locals receives the keep_indices value", "compact_locals no longer receives the keep_indices list", c.loc(0))
    # the map the bindings are rewritten through (receiver of the HashMap::get whose result becomes the new index) derives from the SAME keep list:
    # filled by insert(old, new) in a loop over it, or collected from an iterator chain over it
    TCM = ("Iterator::next", "Iterator::enumerate", "slice::iter", "IntoIterator::into_iter", "Deref::deref", "Iterator::map", "Iterator::collect",
           "Iterator::copied", "Iterator::cloned", "Iterator::zip", "Vec::iter", "FromIterator::from_iter", "Iterator::rev")
    ok2 = False
    # HashMap::get sites of compact() itself and of the closures it hands to iterator adaptors (for_each / map over values_mut); a receiver that is a
    # captured variable is followed to the operand captured where the closure is built
    gets = []
    vm = []
    for ck in F.with_closures(c.key):
        cb = F.body(ck)
        for bi, t in cb.calls():
            cal = t.get("callee") or ""
            if cal.endswith(("HashMap::values_mut", "HashMap::iter_mut", "BTreeMap::values_mut", "BTreeMap::iter_mut")):
                vm.append((ck, bi))
            if cal.endswith(("HashMap::get", "BTreeMap::get")) and t["args"] and op_place(t["args"][0]):
                rp = op_place(t["args"][0])
                if ck != c.key:
                    cfl = Flow(cb, through_named=True)
                    root = None
                    for l in cfl.backward({rp["l"]}, through_calls=("Deref::deref",)):
                        for _b, si, d in cfl.defs.get(l, []):
                            if si != "term":
                                pl = d["rv"].get("p") or op_place(d["rv"].get("op") or {})
                                cap = F.captured(ck, pl) if pl else None
                                if cap and cap[0].key == c.key:
                                    root = op_place(cap[1])
                    if root is None:
                        continue
                    rp = root
                gets.append((ck, bi))
                recv = fl0.canon_place(rp)
                if k in fl.backward({rp["l"]}, through_calls=TCM):
                    ok2 = True
                for bi2, t2 in c.calls():
                    if (t2.get("callee") or "").endswith(("HashMap::insert", "BTreeMap::insert")) and len(t2["args"]) > 1 and recv and fl0.canon_op(t2["args"][0]) == recv:
                        key = op_place(t2["args"][1])
                        if key and k in fl.backward({key["l"]}, through_calls=TCM):
                            ok2 = True
    ctx.check(ok2, R, c.key + "|index_mapping", "the old->new index map is keyed by the elements of the same keep_indices list",
              "the index map applied to the bindings is not built from the keep list sent to the worker", c.loc(0))
    # bindings rewritten through the map
    ctx.check(bool(gets) and bool(vm), R, c.key + "|rewrite", "every binding index is rewritten through the map (values_mut + get)", "bindings are no longer rewritten through the index map", c.loc(0))
    # compaction is unconditional: once a REPL process exists, every way through compact() hands the keep list to the worker (skipping it "because
    # the variables already sit in slots 0..n" leaves stale slots behind whenever a binding disappeared without running code, e.g. a type alias
    # re-using a variable's name)
    from qvlib.paths import option_none_edges, diverging_blocks
    pidl = set()
    for bi2, si2, st2 in c.stmts():
        if st2["k"] == "assign" and st2["rv"]["k"] in ("use", "discr", "ref"):
            pl2 = st2["rv"].get("p") or op_place(st2["rv"].get("op") or {})
            if pl2 and any(e[0] == "f" and e[1] == "repl_process_id" for e in pl2["pr"]):
                pidl.add(st2["p"]["l"])
                if st2["rv"]["k"] == "discr":
                    pidl.add(("discr", st2["p"]["l"]))
    none_edges = []
    for bi2, blk2 in enumerate(c.blocks):
        t2 = blk2["term"]
        if t2["k"] == "switch" and op_local(t2["op"]) in {x[1] for x in pidl if isinstance(x, tuple)}:
            some = dict((v, bb) for v, bb in t2["targets"]).get(1)
            for _v, bb in c.switch_edges(bi2):
                if bb != some:
                    none_edges.append((bi2, bb))
    bad = explore(c, [0], avoid=[x[0] for x in cl], stop=diverging_blocks(c), exempt_edges=none_edges, want="return") if cl else [0]
    ctx.check(bool(cl) and bad is None, R, c.key + "|always-compacts", "every path through compact() (REPL process present) calls env.compact_locals",
              "compact() can return without compacting the worker's locals although a REPL process exists: %s" % path_desc(c, bad), c.loc(0))
    # worker side: compact_locals -> replace_locals with the kept values in keep order
    w = F.body("quiver_environment::worker::Worker::compact_locals")
    ctx.check(bool(w.calls_to("Executor::replace_locals")), R, w.key + "|replace_locals", "the worker re-indexes the process locals through Executor::replace_locals",
              "Worker::compact_locals no longer goes through replace_locals")


def r3_clones(ctx):
    R = "R-C11-3"
    ctx.rule(R, "the compiler works on clones: the &mut Program and &mut ModuleCache handed to Compiler::compile borrow locals initialised by "
                "Clone::clone of the session fields, never the session fields themselves")
    F = ctx.facts
    b = F.body(REPL + "::evaluate")
    fl = Flow(b)
    fln = Flow(b, through_named=True)
    for bi, t in b.calls_to("compiler::Compiler::compile"):
        for ai, a in enumerate(t["args"]):
            p = op_place(a)
            if not p or not b.local_ty(p["l"]).startswith("&mut"):
                continue
            cp = fl.canon_place(p)
            ty = b.local_ty(cp[0])
            what = ty.split("::")[-1]
            is_self = b.local_name(cp[0]) == "self" or any(e[0] == "f" and (e[2] or "").endswith("repl::Repl") for e in cp[1])
            srcs = fln.sources(cp[0])
            cloned = any(x[0] == "call" and (x[2].get("callee") or "").endswith("Clone::clone") for x in srcs)
            ctx.check(not is_self and cloned, R, "%s|compile-arg%d(%s)" % (b.key, ai, what), "borrows a local clone of the session's %s" % what,
                      "Compiler::compile mutates the session's own %s in place (a rejected line would leave partial state behind)" % what, b.loc(bi))


def r4_resume_feeds_result(ctx):
    R = "R-C11-4"
    ctx.rule(R, "resume feeds the previous result: Worker::resume_process pushes process.result.take() onto the stack before pushing the new frame, "
                "only for a sleeping persistent process")
    F = ctx.facts
    b = F.body("quiver_environment::worker::Worker::resume_process")
    fl = Flow(b, through_named=True)
    fl0 = Flow(b)
    pushes = [(bi, t) for bi, t in b.calls_to("Vec::push") if fl0.canon_op(t["args"][0]) and fl0.ends_with_field(fl0.canon_op(t["args"][0]), "process::Process", "stack")]
    takes = [(bi, t) for bi, t in b.calls_to("Option::take") if fl0.canon_op(t["args"][0]) and fl0.ends_with_field(fl0.canon_op(t["args"][0]), "process::Process", "result")]
    ok = len(pushes) == 1 and len(takes) == 1
    if ok:
        v = op_place(pushes[0][1]["args"][1])
        ok = takes[0][1]["dest"]["l"] in fl.backward({v["l"]}, through_calls=("Option::unwrap", "Result::unwrap", "Option::expect", "Result::expect"))
    ctx.check(ok, R, b.key + "|push-previous-result", "the pushed argument is the taken previous result", "resume no longer feeds the previous result to the new line", b.loc(0))
    fp = [(bi, t) for bi, t in b.calls_to("Vec::push") if fl0.canon_op(t["args"][0]) and fl0.ends_with_field(fl0.canon_op(t["args"][0]), "process::Process", "frames")]
    # order: the argument push lies before the frame push on every path that performs it (it may sit under an `if let Some(Ok(v)) = result.take()`
    # that an earlier guard makes always true), and never after it
    ctx.check(len(fp) == 1 and bool(pushes) and b.reaches(pushes[0][0], fp[0][0]) and not b.reaches(fp[0][0], pushes[0][0])
              and b.dominates(takes[0][0] if takes else pushes[0][0], fp[0][0]), R, b.key + "|frame-after-arg", "the new frame is pushed after its argument",
              "frame/argument order changed in resume_process", b.loc(0))


def r5_persistent_locals(ctx):
    R = "R-C11-5"
    ctx.rule(R, "frame exit keeps locals only for the persistent top-level frame: in Executor::step the truncate_locals_pid of an exhausted frame is "
                "decided from process.persistent and frames.is_empty(); the worker releases a finished line's orphans with the REPL's keep set")
    F = ctx.facts
    b = F.body("quiver_core::executor::Executor::step")
    fl = Flow(b, through_named=True)
    tr = [(bi, t) for bi, t in b.calls_to("Executor::truncate_locals_pid")]
    ctx.floor(R, "truncate_locals_pid calls in step", len(tr), 1)
    for bi, t in tr:
        base = op_place(t["args"][2])
        fields, downs, _c, callees = fl.slice_reads(base["l"], through_calls=("bool::then_some", "Option::Some")) if base else (set(), set(), [], set())
        ok = any(f == "locals_base" for _o, f in fields)
        # the Option it comes from is produced by then_some(cond) where cond reads `persistent`
        conds = []
        for b2, t2 in b.calls():
            if (t2.get("callee") or "").endswith("then_some"):
                c = op_place(t2["args"][0])
                cf = fl.slice_reads(c["l"], through_calls=("Vec::is_empty",))[0] if c else set()
                data_frames = any(f == "frames" for _o, f in cf)
                # `!persistent || !is_last_frame` compiles to a branch on `persistent`: a switch on a read of Process.persistent dominates
                ctrl = False
                for b3, si3, s3 in b.stmts():
                    if s3["k"] == "assign" and s3["rv"]["k"] == "use" and op_place(s3["rv"]["op"]) and any(
                            e[0] == "f" and e[1] == "persistent" for e in op_place(s3["rv"]["op"])["pr"]):
                        pl = s3["p"]["l"]
                        for b4, blk in enumerate(b.blocks):
                            tt = blk["term"]
                            if tt["k"] == "switch" and op_local(tt["op"]) == pl and b.dominates(b4, b2):
                                ctrl = True
                data_persistent = any(f == "persistent" for _o, f in cf)
                conds.append(data_frames and (ctrl or data_persistent))
        ctx.check(ok and any(conds), R, b.key + "|should_clear_locals", "locals are cleared down to the popped frame's locals_base unless persistent && last frame",
                  "the decision to keep a persistent process's top-level locals no longer depends on `persistent` and the frame count", b.loc(bi))
    ev = F.body(REPL + "::evaluate")
    rr = [(bi, t) for bi, t in ev.calls_to("Environment::request_result")]
    fle = Flow(ev, through_named=True)
    ok = False
    for bi, t in rr:
        a = op_place(t["args"][2])
        srcs = fle.sources(a["l"], through_calls=("Option::Some",)) if a else []
        ok = ok or any(x[0] == "call" and (x[2].get("callee") or "").endswith("Repl::keep_indices") for x in srcs)
    ctx.check(ok, R, ev.key + "|keep-set", "the result request carries self.keep_indices() (computed from the committed bindings)",
              "request_result no longer carries the keep set of the committed bindings", ev.loc(0))


def r6_line_merge(ctx):
    """each line's bytecode is merged through fresh remap tables fed only by register_*/import_* results, and every merged function is the
    output of remap_function (shared with C07/C10): a shortcut that bypasses the remap makes a later line run another session's code"""
    from rules import c07
    c07.r5_remap_order_and_freshness(ctx, "R-C11-6")


def r7_session_resources_survive_lines(ctx):
    """a REPL line 'completing' must not tear the session down: resources are closed only from handle_process_results for awaited, completed
    processes — never on per-line result delivery to the persistent process (shared with R-C14-3)"""
    from rules import c14
    before = len(ctx.obs)
    c14.r3_close(ctx)
    kept = []
    for o in ctx.obs[before:]:
        if o["site"].startswith("callers(cleanup_process_resources)") or o["site"].endswith("|cleanup-guard"):
            o = dict(o)
            o["rule"] = "R-C11-7"
            kept.append(o)
    ctx.obs[before:] = kept
    if "R-C14-3" in ctx.rules:
        ctx.rules["R-C11-7"] = ctx.rules.pop("R-C14-3")
    ctx.floors[:] = [f for f in ctx.floors if f["rule"] != "R-C14-3"]


def r8_session_carried_forward(ctx):
    R = "R-C11-8"
    ctx.rule(R, "what a line inherits is carried forward: (a) every `Compiled` that Compiler::compile returns reports bindings COMPUTED FROM the "
                "`existing_bindings` it was given (any dependence, through the root scope) — a result built without them (an early return for an empty or "
                "comment-only line) makes the REPL forget every earlier variable and alias; (b) Executor::update_program REPLACES the derived type "
                "tables by the ones recomputed for the whole merged program (shared with R-C08-3) — rows kept from an earlier line describe an older "
                "program, so a later line behaves differently from the same source compiled as one program")
    F = ctx.facts
    from qvlib.paths import rv_source_locals
    b = F.body("quiver_compiler::compiler::Compiler::compile")
    fl = Flow(b, through_named=True)
    ex = b.param_by_type(lambda ty: ty.startswith("&") and "HashMap<alloc::string::String, quiver_compiler::compiler::scopes::Binding" in ty, what="existing_bindings parameter")
    deps = {}

    def add(d, srcs):
        deps.setdefault(d, set()).update(x for x in srcs if x is not None)
    for bi, si, st in b.stmts():
        if st["k"] == "assign":
            add(st["p"]["l"], rv_source_locals(st["rv"]))
            if st["p"]["pr"]:
                add(fl.canon_local(st["p"]["l"])[0], rv_source_locals(st["rv"]))
    for bi, t in b.calls():
        al = [(op_place(a) or {}).get("l") for a in t["args"]]
        add(t["dest"]["l"], al)
        for a in t["args"]:
            pl = op_place(a)
            if pl and (b.local_ty(pl["l"]) or "").startswith("&mut"):
                add(fl.canon_local(pl["l"])[0], [x for x in al if x != pl["l"]])
    # reading a value through a reference depends on the referent
    for l in list(deps):
        c = fl.canon_local(l)[0]
        if c != l:
            add(l, [c])

    def closure_of(l):
        seen = set()
        work = [l]
        while work:
            x = work.pop()
            if x in seen:
                continue
            seen.add(x)
            work.extend(deps.get(x, ()))
            c = fl.canon_local(x)[0]
            if c not in seen:
                work.append(c)
        return seen
    n = 0
    for bi, si, st in agg_sites(b, "compiler::Compiled"):
        fields = st["rv"].get("fields") or []
        if "bindings" not in fields:
            continue
        n += 1
        op = st["rv"]["ops"][fields.index("bindings")]
        pl = op_place(op)
        ok = bool(pl) and ex in closure_of(pl["l"])
        ctx.check(ok, R, "%s|Compiled.bindings#%d" % (b.key, n - 1), "the reported bindings depend on existing_bindings",
                  "Compiler::compile can return a result whose bindings are not computed from the bindings it was given: the session forgets its "
                  "variables and type aliases after such a line", b.loc(bi, si))
    ctx.floor(R, "Compiled constructions in Compiler::compile", n, 1)
    from rules import c08
    before = len(ctx.obs)
    c08.r3_update_program_replaces(ctx)
    for o in ctx.obs[before:]:
        o["rule"] = R
    ctx.rules.pop("R-C08-3", None)
    for f in ctx.floors:
        if f["rule"] == "R-C08-3":
            f["rule"] = R


def run(ctx):
    ctx.run_rules([r1_commit_after_success, r2_compact, r3_clones, r4_resume_feeds_result, r5_persistent_locals, r6_line_merge, r7_session_resources_survive_lines,
                   r8_session_carried_forward])
    return (
        "Decides the ordering/commit clauses behind 'a rejected line leaves the session exactly as it was' and the alignment plumbing: session "
        "fields and the process are touched only after the compile succeeded, compaction precedes compilation and re-indexes bindings and locals by "
        "one permutation, the compiler mutates clones, resume feeds the previous result, persistent top-level locals survive frame exit. "
        "Per-line value equivalence with a single program is NOT decided.",
        "obligations are assignments/calls in Repl::evaluate, Repl::compact, Worker::resume_process and Executor::step; discharged by dominance on "
        "the Continue edge of `?`, value-source slices and argument provenance",
    )
